(* Byte strings: helpers shared by the models and the harness case files. *)
From Coq Require Import List Arith String Ascii.
Import ListNotations.

(* [bs [104; 105]] is the string "hi": used by the Go harnesses to print
   strings containing non-printable bytes or double quotes. *)
Fixpoint bs (l : list nat) : string :=
  match l with
  | [] => EmptyString
  | n :: t => String (ascii_of_nat n) (bs t)
  end.
