(* Go strings as byte lists: the definitions shared by the models that work
   on text (Model/Symlink.v, Model/Url.v, Model/Argv.v). Definitions only;
   the lemmas are in Proof/Str.v. *)
From Coq Require Import List Bool Arith String.
From Coq.Strings Require Import Byte.
Import ListNotations.

Definition str := list byte.

(* literal syntax used by the harness case files: B "a/../b" *)
Definition B (s : string) : str := list_byte_of_string s.

Definition c_slash : byte := "/"%byte.
Definition c_colon : byte := ":"%byte.
Definition c_bslash : byte := "\"%byte.
Definition c_dot : byte := "."%byte.

Fixpoint str_eqb (a b : str) : bool :=
  match a, b with
  | [], [] => true
  | x :: a', y :: b' => Byte.eqb x y && str_eqb a' b'
  | _, _ => false
  end.

(* strings.Index(s, c) != -1 *)
Definition contains (c : byte) (s : str) : bool := existsb (Byte.eqb c) s.

(* strings.Count(s, c) for a one-byte separator *)
Fixpoint count (c : byte) (s : str) : nat :=
  match s with
  | [] => O
  | x :: t => if Byte.eqb x c then S (count c t) else count c t
  end.

(* strings.Split(s, sep) for a one-byte separator: never empty, k separators
   give k+1 components, components may be empty *)
Fixpoint split_on (sep : byte) (s : str) : list str :=
  match s with
  | [] => [[]]
  | x :: t =>
      if Byte.eqb x sep then [] :: split_on sep t
      else match split_on sep t with
           | [] => [[x]]
           | h :: r => (x :: h) :: r
           end
  end.
