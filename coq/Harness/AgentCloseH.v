(* Trace-validation harness for C35, evaluated inside Coq by vm_compute.
   A case is (termination delay d, the behaviour the fake agent was given,
   what was observed of one real Stream.Close on it).  Times in ms.
   Verdict bits: 1 = the observation contradicts the model (a signal came
   earlier than the model's waits allow; Close escalated further than the model
   does for a process 900 ms slower, or less far than the model does with
   timers 900 ms late; it returned before the punctual model, or more than 4 s
   after the latest prediction -- the stage and upper-bound comparisons only in
   cases where the measured scheduling lateness stayed below 250 ms);
   2 = check_C35 fails: Close did not return, or the child was not gone when it
   returned; 8 = ill-formed case. *)
From Coq Require Import List NArith Bool.
Import ListNotations.
From Mv Require Import Model.AgentClose.
Open Scope N_scope.

Definition acase := (N * proc * obs)%type.

(* the fake agents die at once when killed *)
Definition Pr (a b c : option N) (linger : bool) : proc :=
  {| p_self := a; p_stdin := b; p_term := c; p_kill := Some 0; p_linger := linger |}.
Definition Ob (r dd : bool) (t : N) (e tm : option N) (k : bool) (nz : N) : obs :=
  {| ob_returned := r; ob_dead := dd; ob_ret := t; ob_eof := e; ob_term := tm; ob_killed := k;
     ob_noise := nz |}.
Definition T := true.
Definition N_ := false.
Definition No : option N := None.
Definition So (x : N) : option N := Some x.

Definition agent_verdict (c : acase) : N :=
  let '(d, p, o) := c in
  (if corr_C35 20 900 4000 250 d p o then 0 else 1)
  + (if check_C35 o then 0 else 2).

(* the case files open N_scope (the times are N literals), so indices and
   verdicts are N as well and print as plain numbers *)
Fixpoint agent_failures (i : N) (cs : list acase) : list (N * N) :=
  match cs with
  | [] => []
  | c :: t => match agent_verdict c with
              | 0 => agent_failures (i + 1) t
              | v => (i, v) :: agent_failures (i + 1) t
              end
  end.
