(* Correspondence harness for C36, evaluated inside Coq by vm_compute.
   Depends on Model/ only.

   A case is what the Go harness observed for one raw URL:
     AC raw k env nz params out valid timeout recs
       out     = url.Parse(raw, k, first)
       params  = URL parameters set on the parsed URL afterwards (as API
                 clients do), valid = (EnsureValid() == nil) of that URL
       timeout = ssh connect timeout in effect
       recs    = every invocation of the fake ssh / scp / docker executables
                 while the real protocol handler connected with that URL and
                 the real transports ran Command / Copy, in order; each with
                 the harness's knowledge of what it was:
                   RSsh  cmd            transport.Command(cmd) of the ssh transport
                                        (for Connect: cmd = the last recorded argument)
                   RScp  base remote    Copy(dir/base, remote) of the ssh transport
                   RExec cmd wd ovr     docker transport command(cmd, wd, ovr)
                   RCp   home loc rem   docker transport Copy: the "docker cp"
                   RAny                 an invocation made inside agent.Dial
                                        (only the property check applies)
   Verdict bits: 1 = model <> implementation (Parse, EnsureValid, or a recorded
   argument vector differs from the one the model's builder gives);
   2 = check_C36 fails: a user/host/container is not passed as an operand in
   some recorded invocation, a component beginning with '-' was accepted, or
   a rejected URL ran a command. *)
From Coq Require Import List Bool Arith NArith String.
From Coq.Strings Require Import Byte.
Import ListNotations.
From Mv Require Import Common.Bytes Common.Str Model.Url Model.Argv Harness.UrlH.

Inductive rkind :=
| RSsh (cmd : str)
| RScp (base remote : str)
| RExec (cmd wd ovr : str)
| RCp (home loc rem : str)
| RAny.

Definition arec := (rkind * tool * list str)%type.

Inductive acase :=
| AC (raw : str) (k : kind) (env : list (str * str)) (nz : list (str * option str))
     (params : list (str * str)) (out : perr + url) (valid : bool)
     (timeout : N) (recs : list arec).

(* short constructors *)
Definition Rs (cmd : str) (args : list str) : arec := (RSsh cmd, TSsh, args).
Definition Rc (base remote : str) (args : list str) : arec := (RScp base remote, TScp, args).
Definition Re (cmd wd ovr : str) (args : list str) : arec := (RExec cmd wd ovr, TDocker, args).
Definition Rp (home loc rem : str) (args : list str) : arec := (RCp home loc rem, TDocker, args).
Definition Ra (t : tool) (args : list str) : arec := (RAny, t, args).

Fixpoint strs_eqb (a b : list str) : bool :=
  match a, b with
  | [], [] => true
  | x :: a', y :: b' => str_eqb x y && strs_eqb a' b'
  | _, _ => false
  end.

Definition with_params (u : url) (params : list (str * str)) : url :=
  {| u_kind := u_kind u; u_proto := u_proto u; u_user := u_user u; u_host := u_host u;
     u_port := u_port u; u_path := u_path u; u_env := u_env u; u_params := params |}.

(* the argument vector the model's builders give for a tagged record *)
Definition predicted (timeout : N) (u : url) (r : rkind) : option (list str) :=
  let flags := match load_dflags (u_params u) dflags_zero with
               | Some f => to_flags f
               | None => []
               end in
  match r with
  | RSsh cmd => Some (ssh_argv timeout (u_user u) (u_host u) (transport_port u) cmd)
  | RScp base remote => Some (scp_argv timeout (u_user u) (u_host u) (transport_port u) base remote)
  | RExec cmd wd ovr => Some (docker_exec_argv flags (u_host u) (u_user u) cmd wd ovr)
  | RCp home loc rem => Some (docker_cp_argv flags (u_host u) home loc rem false)
  | RAny => None
  end.

Definition argv_verdict (fx : fixes) (c : acase) : nat :=
  match c with
  | AC raw k env nz params out valid timeout recs =>
      let nf := nz_fun nz in
      let out' := match out with inr u => inr (with_params u params) | inl e => inl e end in
      let corr :=
          result_eqb (parse nf fx raw k env) out
          && match out' with
             | inr u =>
                 Bool.eqb (url_valid fx u) valid
                 && forallb (fun r : arec =>
                               let '(rk, _, args) := r in
                               match predicted timeout u rk with
                               | Some a => strs_eqb a args
                               | None => true
                               end) recs
             | inl _ => true
             end in
      let prop := check_C36 out' valid (map (fun r : arec => let '(_, t, args) := r in (t, args)) recs) in
      (if corr then 0 else 1) + (if prop then 0 else 2)
  end%nat.

Fixpoint argv_failures_fx (fx : fixes) (i : nat) (cs : list acase) : list (nat * nat) :=
  match cs with
  | [] => []
  | c :: t => match argv_verdict fx c with
              | O => argv_failures_fx fx (S i) t
              | v => (i, v) :: argv_failures_fx fx (S i) t
              end
  end.

Definition argv_failures := argv_failures_fx (fx_of false false).
Definition argv_failures_38 := argv_failures_fx (fx_of true false).
Definition argv_failures_36 := argv_failures_fx (fx_of false true).
Definition argv_failures_3638 := argv_failures_fx (fx_of true true).
