(* Correspondence harness for C27, evaluated inside Coq by vm_compute.

   A case is what the Go harness observed of ONE run of the real
   filesystem.WriteFileAtomic / encoding.MarshalAndSaveProtobuf in a child
   process under strace fault/crash injection:

     (TemporaryNamePrefix as compiled into the code, target name, permission
      bits, new data, directory before, the primitives the child issued on the
      directory with their status (ok / failed / killed there), how the child
      ended (0 nil, 1 error, 2 killed inside the write, 3 killed after it), directory after, names core.Scan shows)

   The model is run with the oracle read off the observed statuses and the
   random suffixes read off the observed temporary names (re-prefixed by the
   model). Verdict bits: 1 = the model's result, primitive sequence or final
   directory differs from the observation, or the prefix constant differs;
   2 = the observation fails check_C27; 8 = ill-formed case. *)
From Coq Require Import List Arith NArith String Bool.
Import ListNotations.
From Mv Require Import Common.Bytes Model.AtomicWrite.

Definition acase :=
  (string * string * nat * list N * dir * list event * nat * dir * list string)%type.

(* byte lists are printed by the Go harness with the scope key %N; everything
   else in a case is a nat or a string *)
Definition AC (pfx target : string) (perm : nat) (data : list N) (before : dir)
           (tr : list event) (code : nat) (after : dir) (scanned : list string) : acase :=
  (pfx, target, perm, data, before, tr, code, after, scanned).

(* short aliases printed by the Go harness *)
Definition o : status := SOk.
Definition f : status := SFail.
Definition k : status := SKill.
Definition Cr (n : string) (s : status) : event := (PCreate n, s).
Definition Wr (len : nat) (s : status) : event := (PWrite len, s).
Definition Cl (s : status) : event := (PClose, s).
Definition Ch (n : string) (p : nat) (s : status) : event := (PChmod n p, s).
Definition Rn (a b : string) (s : status) : event := (PRename a b, s).
Definition Ul (n : string) (s : status) : event := (PUnlink n, s).
Definition Rd (n : string) (s : status) : event := (PRmdir n, s).
Definition Ot (w : string) (s : status) : event := (POther w, s).
Definition Fi (n : string) (p : nat) (c : list N) : name * file := (n, (p, c)).

Definition is_create (e : option event) : bool :=
  match e with Some (PCreate _, _) => true | _ => false end.

(* the oracle the observation amounts to: strace kills on entry to the call
   (before it takes effect) and a failed call has no effect; a failed create
   that is followed by another create was an EEXIST *)
Definition oracle_of (tr : list event) : oracle :=
  fun i =>
    match nth_error tr i with
    | Some (_, SOk) => Ok
    | Some (p, SFail) =>
      Fail (is_create (Some (p, SFail)) && is_create (nth_error tr (S i))) 0
    | Some (_, SKill) => Crash false 0
    | None => Ok
    end.

Definition suffix_of (n : string) : string :=
  substring (String.length atomic_prefix) (String.length n - String.length atomic_prefix) n.

Fixpoint sufs_of (tr : list event) : list string :=
  match tr with
  | [] => []
  | (PCreate n, _) :: t => suffix_of n :: sufs_of t
  | _ :: t => sufs_of t
  end.

Definition status_eqb (a b : status) : bool :=
  match a, b with SOk, SOk | SFail, SFail | SKill, SKill => true | _, _ => false end.

Definition prim_eqb (a b : prim) : bool :=
  match a, b with
  | PCreate x, PCreate y => String.eqb x y
  | PWrite x, PWrite y => Nat.eqb x y
  | PClose, PClose => true
  | PChmod x p, PChmod y q => String.eqb x y && Nat.eqb p q
  | PRename x1 x2, PRename y1 y2 => String.eqb x1 y1 && String.eqb x2 y2
  | PUnlink x, PUnlink y => String.eqb x y
  | PRmdir x, PRmdir y => String.eqb x y
  | _, _ => false
  end.

Fixpoint trace_eqb (a b : list event) : bool :=
  match a, b with
  | [], [] => true
  | (p, s) :: a', (q, t) :: b' => prim_eqb p q && status_eqb s t && trace_eqb a' b'
  | _, _ => false
  end.

Definition file_eqb (a b : file) : bool :=
  Nat.eqb (fst a) (fst b) && bytes_eqb (snd a) (snd b).

Definition ofile_eqb (a b : option file) : bool :=
  match a, b with
  | None, None => true
  | Some x, Some y => file_eqb x y
  | _, _ => false
  end.

Definition dir_sub (a b : dir) : bool :=
  forallb (fun n => ofile_eqb (lookup n a) (lookup n b)) (map fst a).

Definition dir_equiv (a b : dir) : bool := dir_sub a b && dir_sub b a.

Fixpoint nodup_names (l : list string) : bool :=
  match l with
  | [] => true
  | x :: t => negb (existsb (String.eqb x) t) && nodup_names t
  end.

Definition result_code (r : result) : nat :=
  match r with RNil => 0 | RErr => 1 | RCrashed => 2 end.

Definition atomic_verdict (c : acase) : nat :=
  let '(pfx, target, perm, data, before, tr, code, after, scanned) := c in
  if negb (nodup_names (map fst before) && nodup_names (map fst after)) then 8 else
  let m := write_file_atomic (oracle_of tr) (sufs_of tr) target data perm before in
  (if String.eqb pfx temporary_name_prefix
      && (Nat.eqb (result_code (r_result m)) code
          (* 3: killed at exit_group, after WriteFileAtomic had returned *)
          || (Nat.eqb code 3 && negb (Nat.eqb (result_code (r_result m)) 2)))
      && trace_eqb (r_trace m) tr
      && dir_equiv (r_dir m) after
   then 0 else 1)
  + (if check_C27 target data before after scanned then 0 else 2).

Fixpoint atomic_failures (i : nat) (cs : list acase) : list (nat * nat) :=
  match cs with
  | [] => []
  | c :: t => match atomic_verdict c with
              | O => atomic_failures (S i) t
              | v => (i, v) :: atomic_failures (S i) t
              end
  end.
