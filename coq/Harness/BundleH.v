(* Correspondence harness for C46, evaluated inside Coq by vm_compute.
   A case is (fixed, input, outcome observed on agent.ExecutableForPlatform),
   where [fixed] says which of the two loops of Model/Bundle.v the harness
   was told to expect (default false = the code as it is; true = with the
   repair). Verdict bits: 1 = run fixed input <> observed outcome;
   2 = check_C46 input observed = false (a concrete failing input). *)
From Coq Require Import List String Bool.
Import ListNotations.
From Mv Require Import Common.Bytes Model.Bundle.

Definition bcase := (bool * input * outcome)%type.

(* short aliases printed by the Go harness *)
Definition In_ (b : bool) (e l : slot) (os arch : string) (pre : option string) : input :=
  {| in_bin := b; exe_slot := e; lib_slot := l; goos := os; goarch := arch; out_pre := pre |}.
Definition SA := SAbsent.
Definition SE := SOpenErr.
Definition SD := SNotFile.
Definition SG := SFile FNotGzip.
Definition ST := SFile FBadTar.
Definition SB (a : archive) := SFile (FArchive a).
Definition Er (n : nat) : outcome :=
  OErr (match n with 1 => EOpen | 2 => ENotFile | 3 => ENotFound | 4 => EDecompress
                | 5 => EHeader | 6 => EUnsupported | _ => EOther end).
Definition Ok (b : string) (x : bool) : outcome := OOk b x.

Definition bundle_verdict (c : bcase) : nat :=
  let '(fixed, i, o) := c in
  (if outcome_eqb (run fixed i) o then 0 else 1) + (if check_C46 i o then 0 else 2).

Fixpoint bundle_failures (i : nat) (cs : list bcase) : list (nat * nat) :=
  match cs with
  | [] => []
  | c :: t => match bundle_verdict c with
              | O => bundle_failures (S i) t
              | v => (i, v) :: bundle_failures (S i) t
              end
  end.
