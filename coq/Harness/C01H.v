(* C01 harness: verdict bit 1 = model plan <> implementation plan (both
   canonically sorted), bit 2 = check_c01 rejects the implementation's plan,
   bit 8 = ill-formed input. Depends on Model/ only. *)
From Coq Require Import List Bool Arith String.
Import ListNotations.
From Mv Require Import Common.Bytes Model.Entry Model.Reconcile Model.CheckC01 Harness.ReconcileH.

Definition c01_failures := failures_with check_c01.
