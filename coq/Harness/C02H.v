(* C02 harness. A case is either a reconcile case (mode, ancestor, alpha, beta,
   plan of the implementation) or an observation of a real local endpoint.
   Verdict bits: 1 = model <> implementation (plan, resp. which requests the
   endpoint refused), 2 = the checker rejects the implementation's output
   (check_c02 on the plan, resp. guard_ok on the observation), 8 = ill-formed
   input. Depends on Model/ only. *)
From Coq Require Import List Bool Arith String.
Import ListNotations.
From Mv Require Import Common.Bytes Model.Entry Model.Reconcile Model.CheckC01 Model.CheckC02
  Harness.ReconcileH.

Inductive c02case :=
| RC (c : rcase)
| GC (o : guard_obs).

Definition mkobs := Build_guard_obs.

Definition c02_verdict (c : c02case) : nat :=
  match c with
  | RC c => if inputs_wf c then corr_bit c + (if check_c02 c then 0 else 2) else 8
  | GC o => (if guard_corr o then 0 else 1) + (if guard_ok o then 0 else 2)
  end.

Fixpoint c02_failures (i : nat) (cs : list c02case) : list (nat * nat) :=
  match cs with
  | [] => []
  | c :: t =>
    match c02_verdict c with
    | O => c02_failures (S i) t
    | v => (i, v) :: c02_failures (S i) t
    end
  end.
