(* C03 harness: verdict bit 1 = model plan <> implementation plan,
   bit 2 = check_c03 rejects the implementation's plan. Depends on Model/ only. *)
From Coq Require Import List Bool Arith String.
Import ListNotations.
From Mv Require Import Common.Bytes Model.Entry Model.Reconcile Model.CheckC06 Model.CheckC03 Harness.ReconcileH.

Definition c03_failures := failures_with check_c03.
