(* Harness for C04, evaluated by vm_compute. Depends on Model/ only.
   A case is (mode, anc, a, b, plan1, anc', a', b', plan2), everything after
   the first four components being what the implementation returned:
   plan1 = core.Reconcile, the three trees = core.Apply of plan1 (ancestor:
   ancestor changes ++ ideal transition results, as controller.go builds the
   list), plan2 = core.Reconcile on the applied trees.
   Verdict bits: 1 = the model disagrees with one of the five outputs,
   2 = check_c04 rejects the implementation's outputs, 8 = ill-formed input. *)
From Coq Require Import List Bool Arith String.
Import ListNotations.
From Mv Require Import Common.Bytes Model.Entry Model.Reconcile Model.C04Cycle Harness.ReconcileH.

Definition c04case :=
  (mode * oentry * oentry * oentry * plan * apply_full * apply_full * apply_full * plan)%type.

(* short aliases printed by the Go harness *)
Definition Ok (e : oentry) : apply_full := FOk e.
Definition ErrP : apply_full := FErrParent.

Definition c04_split (c : c04case) : c04_in * c04_out :=
  let '(m, anc, a, b, pl1, ranc, ra, rb, pl2) := c in
  ({| i_mode := m; i_anc := anc; i_a := a; i_b := b |},
   {| o_plan1 := pl1; o_anc := ranc; o_a := ra; o_b := rb; o_plan2 := pl2 |}).

Definition c04_verdict (c : c04case) : nat :=
  let '(i, o) := c04_split c in
  if wf_c04 i then
    (if corr_c04 i o then 0 else 1) + (if check_c04 i o then 0 else 2)
  else 8.

Fixpoint c04_failures (i : nat) (cs : list c04case) : list (nat * nat) :=
  match cs with
  | [] => []
  | c :: t => match c04_verdict c with
              | O => c04_failures (S i) t
              | v => (i, v) :: c04_failures (S i) t
              end
  end.
