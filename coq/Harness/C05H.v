(* Correspondence harness for C05, evaluated by vm_compute. Depends on Model/
   only. A case is (mode, ancestor, alpha, beta, plan returned by
   core.Reconcile, result changes of alpha and of beta, what core.Apply
   returned for ancestorChanges ++ results, whether EnsureValid(true) passed).
   Verdict bits:
   1 = the model disagrees with the implementation (reconcile plan, both
       canonically sorted; or Apply/EnsureValid replayed on the same lists),
   2 = check_C05 fails on the implementation's output,
   8 = inputs outside the domain (invalid trees, phantom directories after
       reification, or results not drawn from the outcome set): harness bug. *)
From Coq Require Import List Bool Arith String.
Import ListNotations.
From Mv Require Import Common.Bytes Model.Entry Model.Reconcile Model.Outcomes.

Definition acase :=
  (mode * oentry * oentry * oentry * plan * list change * list change * apply_full * bool)%type.

Definition mkplan (anc al be : list change) (cs : list conflict) : plan :=
  {| anc_changes := anc; alpha_ch := al; beta_ch := be; conflicts := cs |}.

Definition out_eqb (x y : c05_out) : bool :=
  match c_applied x, c_applied y with
  | FOk a, FOk b => oentry_eqb a b
  | FErrParent, FErrParent | FPanic, FPanic | FMalformed, FMalformed => true
  | _, _ => false
  end && Bool.eqb (c_valid x) (c_valid y).

Definition averdict (c : acase) : nat :=
  let '(m, anc, al, be, pl, ra, rb, ap, v) := c in
  let i := {| c_anc := anc; c_plan := pl; c_ra := ra; c_rb := rb |} in
  let o := {| c_applied := ap; c_valid := v |} in
  if inputs_ok anc al be && results_in_outcome_set i then
    (if plan_eqb (canon (reconcile m anc al be)) (canon pl) && out_eqb (model_C05 i) o then 0 else 1)
    + (if check_C05 i o then 0 else 2)
  else 8.

Fixpoint anc_failures (k : nat) (cs : list acase) : list (nat * nat) :=
  match cs with
  | [] => []
  | c :: t => match averdict c with
              | O => anc_failures (S k) t
              | v => (k, v) :: anc_failures (S k) t
              end
  end.
