(* C06 harness. Depends on Model/ only.
   A case is (rcase, reported) where reported = Slim() of every conflict of
   the plan core.Reconcile returned, in the plan's order.
   bit 1 = model plan <> implementation plan, or the model's slim form of the
          implementation's conflicts <> the implementation's Slim();
   bit 2 = check_c06_reported rejects the implementation's plan or its
          reported conflicts;
   bit 8 = input outside the well-formedness domain. *)
From Coq Require Import List Bool Arith String.
Import ListNotations.
From Mv Require Import Common.Bytes Model.Entry Model.Reconcile Model.CheckC06 Harness.ReconcileH.

(* plan-only form (kept for harness runs without -slim) *)
Definition c06_failures := failures_with check_c06.

Definition rscase := (rcase * list conflict)%type.

Definition slim_corr_bit (c : rscase) : nat :=
  let '((m, anc, a, b, pl), ss) := c in
  if conflicts_eqb (map slim_conflict (conflicts pl)) ss then 0 else 1.

Fixpoint c06s_failures (i : nat) (cs : list rscase) : list (nat * nat) :=
  match cs with
  | [] => []
  | c :: t =>
    let v := (if inputs_wf (fst c)
              then Nat.max (corr_bit (fst c)) (slim_corr_bit c)
                   + (if check_c06_reported c then 0 else 2)
              else 8) in
    match v with
    | O => c06s_failures (S i) t
    | _ => (i, v) :: c06s_failures (S i) t
    end
  end.
