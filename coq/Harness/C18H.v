(* Harness for C18, evaluated by vm_compute. Depends on Model/ only.
   A case is (mode, N is alpha?, anc, P, N, N1, plan): N1 =
   core.PropagateExecutability(anc, P, N) and plan = core.Reconcile on
   (anc, alpha, beta) with N replaced by N1, both returned by the
   implementation. Verdict bits: 1 = the model disagrees with N1 or the plan,
   2 = check_c18 rejects the implementation's outputs (a bit on P would be
   changed where the file exists on both sides, or a bit of N1 is not taken
   from matching content), 4 = (only with 2) the input lies in the
   known-finding class known_C18, 8 = ill-formed input. *)
From Coq Require Import List Bool Arith String.
Import ListNotations.
From Mv Require Import Common.Bytes Model.Entry Model.Reconcile Model.C04Cycle Model.Exec
  Harness.ReconcileH.

Definition c18case := (mode * bool * oentry * oentry * oentry * oentry * plan)%type.

Definition c18_split (c : c18case) : c18_in * c18_out :=
  let '(m, na, anc, p, n, n1, pl) := c in
  ({| x_mode := m; x_n_alpha := na; x_anc := anc; x_p := p; x_n := n |},
   {| y_n1 := n1; y_plan := pl |}).

Definition c18_verdict (c : c18case) : nat :=
  let '(i, o) := c18_split c in
  if wf_c18 i then
    (if corr_c18 i o then 0 else 1)
    + (if check_c18 i o then 0 else 2 + (if known_C18 i then 4 else 0))
  else 8.

Fixpoint c18_failures (i : nat) (cs : list c18case) : list (nat * nat) :=
  match cs with
  | [] => []
  | c :: t => match c18_verdict c with
              | O => c18_failures (S i) t
              | v => (i, v) :: c18_failures (S i) t
              end
  end.

(* diagnostic variant used while establishing the class: also reports cases
   that are in the class but pass the checker (verdict 16) *)
Definition c18_verdict_diag (c : c18case) : nat :=
  let '(i, o) := c18_split c in
  c18_verdict c + (if check_c18 i o then (if known_C18 i then 16 else 0) else 0).

Fixpoint c18_failures_diag (i : nat) (cs : list c18case) : list (nat * nat) :=
  match cs with
  | [] => []
  | c :: t => match c18_verdict_diag c with
              | O => c18_failures_diag (S i) t
              | v => (i, v) :: c18_failures_diag (S i) t
              end
  end.
