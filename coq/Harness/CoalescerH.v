(* Trace-validation harness for C31, evaluated inside Coq by vm_compute.
   A case is (window, slack, listening consumer?, timed history recorded from
   the real Coalescer), all times in microseconds.  Verdict per case = the
   monitor's code for the first event it rejects: 0 accepted; 1 = not a
   history of the model (a signal produced after Terminate returned);
   2 = the property is violated (a burst not followed by a signal within window
   + slack, more signals than bursts, the channel empty after the deadline). *)
From Coq Require Import List Arith NArith.
Import ListNotations.
From Mv Require Import Model.Coalescer.

Definition ccase := (N * N * bool * list cevent)%type.

Definition S (c r : N) : cevent := ES c r.
Definition G (g : N) : cevent := EG g.
Definition P (t : N) : cevent := EP t.
Definition Tc (c : N) : cevent := ETc c.
Definition Tr (r : N) : cevent := ETr r.
Definition E (t : N) : cevent := EEnd t.

Definition coalescer_verdict (c : ccase) : nat :=
  let '(w, sl, listen, evs) := c in check_C31_code w sl listen evs.

Fixpoint coalescer_failures (i : nat) (cs : list ccase) : list (nat * nat) :=
  match cs with
  | [] => []
  | c :: t => match coalescer_verdict c with
              | O => coalescer_failures (Datatypes.S i) t
              | v => (i, v) :: coalescer_failures (Datatypes.S i) t
              end
  end.
