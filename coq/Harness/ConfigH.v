(* Correspondence harness for C37, evaluated inside Coq by vm_compute.
   Case kinds:
     KTable  one enumeration's behaviour printed from the real code: for raw
             values 0..n+1 the MarshalText result, the support status and
             UnmarshalText of that text; and UnmarshalText of a pool of texts
     KConst  a named numeric constant of the real code
     KValid  Configuration.EnsureValid(endpointSpecific) on one configuration
     KMerge  MergeConfigurations(lower, higher)
     KFile / KDir  core.EnsureDefault{File,Directory}ModeValid
     KOwner  filesystem.ParseOwnershipIdentifier(spec) valid?
     KCreate the real creation path (service Server.Create -> Manager.Create,
             paused, then a reload of the session by a new Manager) and what the
             real endpoint checks did with the real merged configurations (the
             local endpoint is only created for accepted combinations: created
             with a configuration that creation refuses it may panic later in
             its watching goroutine, which would take the harness down)
   Verdict bits: 1 = the model disagrees with the implementation;
   2 = check_C37 fails on what the implementation did (KCreate), or a supported
       value of the real enumeration does not survive MarshalText/UnmarshalText
       (KTable);
   8 = the case is outside the harness's stated domain. *)
From Coq Require Import List String Bool NArith.
Import ListNotations.
From Mv Require Import Common.Bytes Model.Config.
Local Open Scope string_scope.
Local Open Scope list_scope.
Local Open Scope N_scope.

Definition Cf := Build_config.
Definition Ob := Build_endpoint_obs.
Definition C0 := empty_config.
(* Case files do not open N_scope (the failure list must print as plain
   numerals): numerals reach N through the argument scopes of the constructors
   below; inside the lists of KTable they carry an explicit %N. *)

Inductive ccase :=
| KTable (name : string) (count : N)
         (rws : list (N * option string * N * option N))   (* value, marshal, status, unmarshal(marshal) *)
         (texts : list (string * option N))
| KConst (name : string) (v : N)
| KValid (es : bool) (c : config) (r : N)
| KMerge (lo hi r : config)
| KFile (pm m r : N)
| KDir (pm m r : N)
| KOwner (s : string) (valid : bool)
| KCreate (fixed : bool) (c a b : config) (code : N) (reload : bool) (oa ob : endpoint_obs).

Fixpoint find_enum (n : string) (l : list enum) : option enum :=
  match l with
  | [] => None
  | e :: t => if String.eqb (ename e) n then Some e else find_enum n t
  end.

Definition opt_string_eqb (a b : option string) : bool :=
  match a, b with
  | Some x, Some y => String.eqb x y
  | None, None => true
  | _, _ => false
  end.

Definition opt_N_eqb (a b : option N) : bool :=
  match a, b with
  | Some x, Some y => N.eqb x y
  | None, None => true
  | _, _ => false
  end.

Definition table_row_ok (e : enum) (r : N * option string * N * option N) : bool :=
  let '(v, m, s, u) := r in
  opt_string_eqb (marshal e v) m && N.eqb (support_status e v) s
  && opt_N_eqb (match marshal e v with Some t => unmarshal e t | None => None end) u.

(* the real enumeration declares [count] values (0 .. count-1), the model's
   table must know exactly the non-default ones *)
Definition table_ok (name : string) (count : N) rws texts : bool :=
  match find_enum name all_enums with
  | None => false
  | Some e =>
      N.eqb (N.of_nat (List.length (rows e)) + 1) count
      && forallb (table_row_ok e) rws
      && N.leb (count + 2) (N.of_nat (List.length rws))
      && forallb (fun '(t, u) => opt_N_eqb (unmarshal e t) u) texts
  end.

Definition const_ok (name : string) (v : N) : bool :=
  if String.eqb name "ModePermissionsMask" then N.eqb v mode_permissions_mask
  else if String.eqb name "ExecutableBits" then N.eqb v mode_exec_bits
  else if String.eqb name "DefaultVersion.DefaultPermissionsMode" then N.eqb v default_version_permissions_mode
  else if String.eqb name "DefaultVersion.DefaultFileMode" then N.eqb v default_file_mode_v1
  else if String.eqb name "PermissionsModePortable" then N.eqb v perm_portable
  else if String.eqb name "PermissionsModeManual" then N.eqb v perm_manual
  else if String.eqb name "EnumerationCount" then N.eqb v (N.of_nat (List.length all_enums))
  else false.

(* the property itself on the real code's rows: a supported value, written as
   text, is read back as the same value *)
Definition table_row_roundtrips (r : N * option string * N * option N) : bool :=
  let '(v, m, s, u) := r in
  if N.eqb s 2 then match m with Some _ => opt_N_eqb u (Some v) | None => false end else true.

Definition obs_eqb (x y : endpoint_obs) : bool :=
  config_eqb (o_merged x) (o_merged y) && N.eqb (o_remote x) (o_remote y)
  && (if N.eqb (o_local y) 3 then true      (* 3 = local endpoint not run (creation refused) *)
      else N.eqb (o_local x) (o_local y)
           && (if N.eqb (o_local y) 0
               then N.eqb (o_perm x) (o_perm y) && N.eqb (o_file_mode x) (o_file_mode y)
               else true)).

Definition config_verdict (k : ccase) : nat :=
  match k with
  | KTable n cnt rws texts =>
      ((if table_ok n cnt rws texts then 0 else 1)
       + (if forallb table_row_roundtrips rws then 0 else 2))%nat
  | KConst n v => if const_ok n v then 0 else 1
  | KValid es c r => if N.eqb (ensure_valid es c) r then 0 else 1
  | KMerge lo hi r => if config_eqb (merge lo hi) r then 0 else 1
  | KFile pm m r => if N.eqb (ensure_file_mode_valid pm m) r then 0 else 1
  | KDir pm m r => if N.eqb (ensure_dir_mode_valid pm m) r then 0 else 1
  | KOwner s v => if Bool.eqb (ownership_syntax_ok s) v then 0 else 1
  | KCreate fixed c a b code reload oa ob =>
      ((if N.eqb (creation_check fixed c a b) code
           && Bool.eqb reload (N.eqb code 0)
           && obs_eqb (model_obs (merge c a)) oa && obs_eqb (model_obs (merge c b)) ob
        then 0 else 1)
       + (if check_C37 c a b (N.eqb code 0) oa ob then 0 else 2))%nat
  end.

Fixpoint config_failures (i : nat) (cs : list ccase) : list (nat * nat) :=
  match cs with
  | [] => []
  | c :: t => match config_verdict c with
              | O => config_failures (S i) t
              | v => (i, v) :: config_failures (S i) t
              end
  end.
