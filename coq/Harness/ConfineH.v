(* Correspondence harness for C17, evaluated inside Coq by vm_compute.

   A case is what the Go harness observed of one run of the real code on a
   root that contains symbolic links to a canary directory outside the root:

     (root path, staging path, canary untouched and no data from it supplied?,
      which operation ran,
      the path-taking system calls of that operation as strace printed them)

   Two kinds of cases: in-process canary runs (no system-call list: OpNone,
   only the canary bit is decided) and child-process runs under
   strace -f -e trace=%file,getdents64,close, where the operation is one the
   model transcribes.

   Verdict bits:
     1 = the model's program for that operation does not accept the observed
         call sequence (replayed with the observed answers; data-dependent
         decisions of the code are tried both ways);
     2 = check_C17 rejects the observation: the canary changed, or some call is
         not a confined primitive (descriptor-relative with one valid name and
         O_NOFOLLOW / AT_SYMLINK_NOFOLLOW semantics, the descriptor obtained
         from the root that way; or an allowed absolute path);
     8 = ill-formed case (root not absolute or its base name not a proper
         name). *)
From Coq Require Import List Arith String Ascii Bool.
Import ListNotations.
From Mv Require Import Common.Bytes Model.Confine.

Local Open Scope string_scope.

Inductive opdesc :=
| OpNone
| OpOpener (paths : list string)
| OpTransmit (paths : list string)
| OpScan (fuel : nat)
| OpTransition (ownership links_ignored : bool) (rnds : list (list nat)) (cs : list change).

Definition ccase := (string * string * bool * opdesc * list obs)%type.

(* short aliases printed by the Go harness *)
Definition CC (root staging : string) (canary : bool) (op : opdesc) (o : list obs) : ccase :=
  (root, staging, canary, op, o).
Definition N_ : option nat := None.
Definition F (fd : nat) : option nat := Some fd.
Definition kD : kind := KDir.
Definition kF : kind := KFile.
Definition kL : kind := KLink.
Definition kX : kind := KOther.
(* one-path calls: sys fd path flags ret err kind target *)
Definition C1 (sys : string) (fd : option nat) (p : string) (flags : list string)
           (ret : nat) (err : string) (k : kind) (target : string) : obs :=
  OCall sys fd p None "" flags ret err k target.
(* two-path calls (renameat, renameat2): sys fd1 p1 fd2 p2 flags err *)
Definition C2 (sys : string) (fd1 : option nat) (p1 : string) (fd2 : option nat) (p2 : string)
           (flags : list string) (err : string) : obs :=
  OCall sys fd1 p1 fd2 p2 flags 0 err KOther "".
Definition Ls (fd : nat) (names : list string) : obs := OList fd names.
Definition Cl (fd : nat) : obs := OClose fd.

Fixpoint handle_eqb (a b : handle) : bool :=
  match a, b with
  | HRoot, HRoot => true
  | HRootParent, HRootParent => true
  | HChild x n, HChild y m => handle_eqb x y && (n =? m)
  | _, _ => false
  end.

Definition prim_eqb (a b : prim) : bool :=
  match a, b with
  | POpenAt h n d, POpenAt h' n' d' => handle_eqb h h' && (n =? n') && Bool.eqb d d'
  | PCreateAt h n, PCreateAt h' n' => handle_eqb h h' && (n =? n')
  | PStatAt h n, PStatAt h' n' => handle_eqb h h' && (n =? n')
  | PReadlinkAt h n, PReadlinkAt h' n' => handle_eqb h h' && (n =? n')
  | PMkdirAt h n, PMkdirAt h' n' => handle_eqb h h' && (n =? n')
  | PSymlinkAt h n, PSymlinkAt h' n' => handle_eqb h h' && (n =? n')
  | PUnlinkAt h n d, PUnlinkAt h' n' d' => handle_eqb h h' && (n =? n') && Bool.eqb d d'
  | PChownAt h n, PChownAt h' n' => handle_eqb h h' && (n =? n')
  | PRenameAt h1 n1 h2 n2 r, PRenameAt h1' n1' h2' n2' r' =>
    handle_eqb h1 h1' && (n1 =? n1') && handle_eqb h2 h2' && (n2 =? n2') && Bool.eqb r r'
  | PListDir h, PListDir h' => handle_eqb h h'
  | PAbsOpen p f, PAbsOpen p' f' => (p =? p') && Bool.eqb f f'
  | PAbsChown p, PAbsChown p' => p =? p'
  | PAbsChmod p, PAbsChmod p' => p =? p'
  | PAbsRenameAt p h n r, PAbsRenameAt p' h' n' r' =>
    (p =? p') && handle_eqb h h' && (n =? n') && Bool.eqb r r'
  | PAbsRead p, PAbsRead p' => p =? p'
  | PAbsRemove p, PAbsRemove p' => p =? p'
  | PAbsLstat p, PAbsLstat p' => p =? p'
  | PAbsMkdir p, PAbsMkdir p' => p =? p'
  | PAbsCreateTemp p, PAbsCreateTemp p' => p =? p'
  | PAbsRename p q, PAbsRename p' q' => (p =? p') && (q =? q')
  | _, _ => false
  end.

(* Does the program accept the observed sequence?  A PChoice consumes no
   observation and is tried both ways; every other node must be the next
   observed primitive and continues with the observed answer. *)
Fixpoint accepts {A : Type} (m : prog A) (tr : list (prim * answer)) : bool :=
  match m with
  | Ret _ => match tr with [] => true | _ => false end
  | Do p k =>
    match p with
    | PChoice _ => accepts (k (ABool true)) tr || accepts (k (ABool false)) tr
    | _ =>
      match tr with
      | (q, a) :: rest => prim_eqb p q && accepts (k a) rest
      | [] => false
      end
    end
  end.

Definition replay_ok (root staging : string) (op : opdesc) (tr : list (prim * answer)) : bool :=
  match op with
  | OpNone => true
  | OpOpener paths => accepts (opener_open_files root new_opener paths) tr
  | OpTransmit paths => accepts (transmit root paths) tr
  | OpScan fuel => accepts (scan root fuel) tr
  | OpTransition ownership li rnds cs => accepts (transition root staging ownership li rnds cs) tr
  end.

Definition confine_verdict (c : ccase) : nat :=
  let '(root, staging, canary, op, observed) := c in
  if negb (prefix "/" root && valid_name (root_base root) && negb (root_base root =? "")) then 8 else
  (if replay_ok root staging op (abstract root [] observed) then 0 else 1)
  + (if check_C17 root staging canary observed then 0 else 2).

Fixpoint confine_failures (i : nat) (cs : list ccase) : list (nat * nat) :=
  match cs with
  | [] => []
  | c :: t => match confine_verdict c with
              | O => confine_failures (S i) t
              | v => (i, v) :: confine_failures (S i) t
              end
  end.
