(* Trace validation for the controller model (C11, C29), evaluated by
   vm_compute. Depends on Model/ only.

   A case is one recorded history of the real synchronization.Manager: the
   session's mode, whether both endpoints are in no-watch mode, and the list of
   observable events in the order of the harness journal.

   Correspondence (verdict bit 1): [replay] looks for a schedule of the model
   (Model/Controller.v) whose observable trace is the recorded history. It
   walks the history; for every event it searches, by iterative deepening over
   the model's silent actions (internal loop steps, lock acquisition, joins,
   flush hand-offs), for the shortest silent prefix after which the model can
   emit that event. The search only ever applies [step], so a history that
   replays IS a trace of the model; a history that does not replay is reported
   with the index of the first event the model could not take. *)
From Coq Require Import List Bool Arith String.
Import ListNotations.
From Mv Require Import Common.Bytes Model.Entry Model.Reconcile Model.Safety Model.Controller.
Local Open Scope list_scope.

Definition cmd_eqb (a b : cmd) : bool :=
  match a, b with
  | CCreate x, CCreate y => Bool.eqb x y
  | CPause, CPause | CShutdown, CShutdown | CTerminate, CTerminate | CResume, CResume | CReset, CReset => true
  | CFlush x, CFlush y => Bool.eqb x y
  | _, _ => false
  end.
Definition meth_eqb (a b : meth) : bool :=
  match a, b with
  | MPoll, MPoll | MStage, MStage | MSupply, MSupply | MShutdown, MShutdown => true
  | _, _ => false
  end.
Definition edit_eqb (a b : edit_kind) : bool :=
  match a, b with
  | EdWrite, EdWrite | EdRemove, EdRemove | EdDelRoot, EdDelRoot | EdFileRoot, EdFileRoot
  | EdEmptyRoot, EdEmptyRoot | EdMkRoot, EdMkRoot => true
  | _, _ => false
  end.
Definition obool_eqb (a b : option bool) : bool :=
  match a, b with
  | None, None => true
  | Some x, Some y => Bool.eqb x y
  | _, _ => false
  end.
Definition oarch_eqb (a b : option oentry) : bool :=
  match a, b with
  | None, None => true
  | Some x, Some y => oentry_eqb x y
  | _, _ => false
  end.

(* does the event the model emitted match the recorded one? Transition lists
   are compared as sets of changes (Go's order is map-iteration order);
   observations that raced with other journal records (clean = false) and
   unavailable statuses match anything; archive stamps are identities, not
   compared with the model's write counter. *)
Definition ev_match (recorded emitted : event) : bool :=
  match recorded, emitted with
  | Ca t c, Ca t' c' => Nat.eqb t t' && cmd_eqb c c'
  | Rt t c ok, Rt t' c' ok' => Nat.eqb t t' && cmd_eqb c c' && Bool.eqb ok ok'
  | Cn s ok, Cn s' ok' => side_eqb s s' && Bool.eqb ok ok'
  | En s m, En s' m' => side_eqb s s' && meth_eqb m m'
  | Ex s m ok, Ex s' m' ok' => side_eqb s s' && meth_eqb m m' && Bool.eqb ok ok'
  | Sn s f a, Sn s' f' a' => side_eqb s s' && Bool.eqb f f' && oentry_eqb a a'
  | Sx s ok r c, Sx s' ok' r' c' => side_eqb s s' && Bool.eqb ok ok' && Bool.eqb r r' && oentry_eqb c c'
  | Tn s cs, Tn s' cs' => side_eqb s s' && changes_eqb (sort_changes cs) (sort_changes cs')
  | Tx s ok cs, Tx s' ok' cs' => side_eqb s s' && Bool.eqb ok ok' && changes_eqb cs cs'
  | ObS c x, ObS _ x' => negb c || obool_eqb x x'
  | ObA c x _, ObA _ x' _ => negb c || oarch_eqb x x'
  | ObT c x, ObT _ x' =>
    negb c || match x, x' with
              | None, _ => true
              | Some a, Some b => Nat.eqb a b
              | Some _, None => false
              end
  | Ed s k, Ed s' k' => side_eqb s s' && edit_eqb k k'
  | Nm l, Nm l' => Bool.eqb l l'
  | _, _ => false
  end.

Definition mkres (ok retry : bool) (c : oentry) (chs : list change) : callres :=
  {| r_ok := ok; r_retry := retry; r_content := c; r_changes := chs |}.

(* the actions that can emit the recorded event *)
Definition goal_actions (st : cstate) (ev : event) : list action :=
  match ev with
  | Ca t c => [ACall t c]
  | Rt t _ _ => [AReturn t]
  | Cn _ ok => ALoop (LaConnect ok) :: map (fun th => AConn (th_id th) ok) (threads st)
  | En s _ => [ALoop (LaEnter s); ALoop LaTau]
  | Ex s _ ok => [ALoop (LaExit s (mkres ok false None [])); ALoop LaTau]
  | Sn s _ _ => [ALoop (LaEnter s)]
  | Sx s ok r c => [ALoop (LaExit s (mkres ok r c []))]
  | Tn s _ => [ALoop (LaEnter s)]
  | Tx s ok cs => [ALoop (LaExit s (mkres ok false None cs))]
  | ObS _ _ => [AObserveS]
  | ObA _ _ _ => [AObserveA]
  | ObT _ _ => [AObserveT]
  | Ed s k => [AEdit s k]
  | Nm _ => [ANewManager]
  | _ => []
  end.

Fixpoint first_some {A B : Type} (f : A -> option B) (l : list A) : option B :=
  match l with
  | [] => None
  | x :: t => match f x with Some y => Some y | None => first_some f t end
  end.

(* all states the model can be in after emitting the recorded event from st *)
Definition goal (ev : event) (st : cstate) : list cstate :=
  flat_map (fun a =>
    match step st a with
    | Some (st', evs) =>
      match obs_of evs with
      | [e] => if ev_match ev e then [st'] else []
      | _ => []
      end
    | None => []
    end) (goal_actions st ev).

Definition thread_silent_actions (th : thread) : list action :=
  let t := th_id th in
  match th_pc th with
  | TCalled => [ASelect t]
  | TStart => [AAcquire t]
  | TJoin => [AJoin t]
  | TResetArch | TResetResume => [AResetStep t]
  | TFlushSend _ _ => [AFlushSend t FSend; AFlushSend t FDefault; AFlushSend t FFailed; AFlushSend t FCtx]
  | TFlushWait _ _ => [AFlushRecv t FAnswered; AFlushRecv t FFailed; AFlushRecv t FCtx]
  | _ => []
  end.

Definition silent_actions (st : cstate) : list action :=
  ALoop LaTau :: flat_map thread_silent_actions (threads st)
  ++ [ALoop (LaTrigger TrFlush); ALoop (LaTrigger TrPoll); ALoop (LaTrigger TrCancel);
      ALoop (LaChoice false); ALoop (LaChoice true); ALoop LaTimeout; ALoop LaFail].

Definition silent (evs : list event) : bool :=
  match obs_of evs with [] => true | _ => false end.

Definition silent_succ (st : cstate) : list cstate :=
  flat_map (fun a =>
    match step st a with
    | Some (st', evs) => if silent evs then [st'] else []
    | None => []
    end) (silent_actions st).

(* ---- a fingerprint of the control part of a state, to merge candidates ---- *)
Definition code_pstat (p : pstat) : nat := match p with PIdle => 0 | PRun => 1 | PDone => 2 end.
Definition code_obool (o : option bool) : nat := match o with None => 0 | Some false => 1 | Some true => 2 end.
Definition code_onat (o : option nat) : nat := match o with None => 0 | Some n => S n end.
Definition code_bool (b : bool) : nat := if b then 1 else 0.
Definition code_side (s : side) : nat := match s with Alpha => 0 | Beta => 1 end.
Definition code_trig (t : option trigger) : nat :=
  match t with None => 0 | Some TrPoll => 1 | Some TrFlush => 2 | Some TrCancel => 3 end.
Definition code_sres (r : scanres) : nat :=
  match r with SRNone => 0 | SROk _ => 1 | SRRetry => 2 | SRFatal => 3 end.
Definition code_lpc (p : lpc) : list nat :=
  match p with
  | LConnA => [0] | LConnA2 => [1] | LConnChk => [2] | LConnB => [3] | LConnB2 => [4] | LConnEnd => [5]
  | LConnWait => [6] | LSyncInit => [7] | LTop => [8]
  | LPoll a b t e r => [9; code_pstat a; code_pstat b; code_trig t; code_bool e; code_bool r]
  | LScan a b ra rb => [10; code_pstat a; code_pstat b; code_sres ra; code_sres rb]
  | LRescanWait => [11]
  | LReconcile _ _ => [12]
  | LStage s k _ => [13; code_side s; k]
  | LTrans _ a b oa ob _ _ => [14; code_pstat a; code_pstat b; code_bool oa; code_bool ob]
  | LSave _ oa ob _ _ => [15; code_bool oa; code_bool ob]
  | LRespond => [16]
  | LEnd h k => [17; code_bool (is_some h); k]
  | LHalted => [18] | LFailed => [19] | LFailWait => [20]
  | LExit k => [21; k]
  end.
Definition code_tpc (p : tpc) : list nat :=
  match p with
  | TCalled => [0] | TStart => [1] | TJoin => [2] | TResetArch => [7] | TResetResume => [8]
  | TConn s a => [3; code_side s; code_bool a]
  | TFlushSend g e => [4; g; e] | TFlushWait g e => [5; g; e]
  | TRet ok => [6; code_bool ok]
  end.
Definition code_loop (l : option loopst) : list nat :=
  match l with
  | None => [0]
  | Some l => [1; lgen l; code_bool (lcancel l); code_onat (lslot l); code_bool (lca l); code_bool (lcb l);
               code_bool (lsync l); lepoch l; code_onat (lfreq l); code_bool (lskip l); code_bool (lskip_scan l);
               code_bool (lskip_miss l); code_bool (lfailed l)] ++ code_lpc (lp l)
  end.
Definition fingerprint (st : cstate) : list nat :=
  [code_bool (created st); code_bool (present st); code_bool (mgr_up st); code_bool (disabled st);
   code_obool (sess_file st); arch_ver st; code_bool (is_some (arch_file st)); status st;
   List.length (answered st); next_gen st; tid_bound st]
  ++ code_loop (loop st)
  ++ flat_map (fun th => th_id th :: code_tpc (th_pc th)) (threads st).

Fixpoint natlist_eqb (a b : list nat) : bool :=
  match a, b with
  | [], [] => true
  | x :: a', y :: b' => Nat.eqb x y && natlist_eqb a' b'
  | _, _ => false
  end.

Fixpoint dedupe (seen : list (list nat)) (l : list cstate) : list cstate :=
  match l with
  | [] => []
  | st :: rest =>
    let f := fingerprint st in
    if existsb (natlist_eqb f) seen then dedupe seen rest else st :: dedupe (f :: seen) rest
  end.

Definition max_depth := 9.
Definition extra_depth := 2.

(* Breadth-first search over silent steps, one level per step, states merged by
   fingerprint: the states after the recorded event at the smallest depth that
   has any, and at the [extra_depth] next depths (an internal step that is not
   yet needed may already have happened). [found]: None = not found yet,
   Some k = k more levels to look at. *)
Fixpoint bfs (n : nat) (ev : event) (frontier : list cstate) (seen : list (list nat)) (found : option nat)
  : list cstate :=
  match n with
  | O => []
  | S n' =>
    let res := flat_map (goal ev) frontier in
    let found' := match found with
                  | None => match res with [] => None | _ => Some extra_depth end
                  | Some k => Some (pred k)
                  end in
    match found' with
    | Some O => res
    | _ =>
      match frontier with
      | [] => res
      | _ =>
        let next := dedupe seen (flat_map silent_succ frontier) in
        res ++ bfs n' ev next (map fingerprint next ++ seen) found'
      end
    end
  end.

Definition replay_event (st : cstate) (ev : event) : list cstate :=
  bfs (S max_depth) ev [st] [fingerprint st] None.

Definition beam := 40.

(* A command takes its first internal steps (selection of the controller, the
   lifecycle lock, the flush hand-off) at an unknown time after its call
   record. The search above delays silent steps until an event needs them;
   after a call record the candidates in which the new thread has already
   taken 1..3 of those steps are kept as well. *)
Definition thread_next (st : cstate) (t : tid) : list cstate :=
  match find_thread t (threads st) with
  | Some th =>
    flat_map (fun a =>
      match step st a with
      | Some (st', evs) => if silent evs then [st'] else []
      | None => []
      end) (match th_pc th with
            | TFlushSend _ _ => [AFlushSend t FSend]
            | _ => thread_silent_actions th
            end)
  | None => []
  end.

Definition eager_variants (ev : event) (st : cstate) : list cstate :=
  match ev with
  | Ca t _ =>
    let l1 := thread_next st t in
    let l2 := flat_map (fun s => thread_next s t) l1 in
    let l3 := flat_map (fun s => thread_next s t) l2 in
    st :: l1 ++ l2 ++ l3
  | _ => [st]
  end.

Definition replay_all (cands : list cstate) (ev : event) : list cstate :=
  firstn beam (dedupe [] (flat_map (fun st => flat_map (eager_variants ev) (replay_event st ev)) cands)).

(* index of the first event no candidate run of the model can take, or None *)
Fixpoint replay (i : nat) (cands : list cstate) (evs : list event) : option nat :=
  match evs with
  | [] => None
  | ev :: rest =>
    match replay_all cands ev with
    | [] => Some i
    | cands' => replay (S i) cands' rest
    end
  end.

Record hist := { h_mode : mode; h_manual : bool; h_events : list event }.

Definition replay_hist (h : hist) : option nat :=
  replay 0 [init_state (h_mode h) (h_manual h)] (h_events h).

(* ------------------------------------------------------------------ *)
(* verdicts *)
From Mv Require Import Model.ControllerCheck.

Definition check_c29 (h : hist) : bool := check_c29_events (h_mode h) (h_events h).
Definition check_c11 (h : hist) : bool := check_c11_events (h_mode h) (h_events h).

Definition corr_bit (h : hist) : nat := match replay_hist h with None => 0 | Some _ => 1 end.

Fixpoint collect {A : Type} (verdict : A -> nat) (i : nat) (cs : list A) : list (nat * nat) :=
  match cs with
  | [] => []
  | c :: t => match verdict c with
              | O => collect verdict (S i) t
              | v => (i, v) :: collect verdict (S i) t
              end
  end.

(* 1 = the history is not a trace of the model; 2 = a C29 monitor rejects the
   history (the terminate monitor in its strict form: since controller.reset
   refuses a disabled controller there is no known class any more) *)
Definition c29_verdict (h : hist) : nat :=
  corr_bit h + (if check_c29 h then 0 else 2).
Definition c29_failures := collect c29_verdict.

Inductive c11case :=
| CPred (p : pred_case)
| CHist (h : hist).

Definition c11_verdict (c : c11case) : nat :=
  match c with
  | CPred p => (if pred_agrees p then 0 else 1) + (if check_pred p then 0 else 2)
  | CHist h => corr_bit h + (if check_c11 h then 0 else 2)
  end.
Definition c11_failures := collect c11_verdict.
