(* Trace-validation harness for C28, evaluated inside Coq by vm_compute.
   A case is (kinds of the racing processes, merged witness log in file order).
   Verdict bits: 1 = some process's records do not follow the program of
   Model/DaemonLock.v (wrong order, an error class the model cannot produce,
   descriptors of the lock file left after a release, a dead bracket without a
   kill); 2 = check_C28 fails: two processes held the lock at once, or an
   attempt was refused although nobody else could have had the lock;
   8 = a record names a process that does not exist. *)
From Coq Require Import List Arith Bool.
Import ListNotations.
From Mv Require Import Model.DaemonLock.

Definition lcase := (list kind * wlog)%type.

Definition P0 : pid := 0. Definition P1 : pid := 1. Definition P2 : pid := 2.
Definition P3 : pid := 3. Definition P4 : pid := 4. Definition P5 : pid := 5.
Definition P6 : pid := 6. Definition P7 : pid := 7.
Definition AC := LAcqCall.
Definition AO := LAcqOk.
Definition AFa := LAcqFail EAgain.
Definition AFh := LAcqFail EHeld.
Definition AFo := LAcqFail EBadF.
Definition RC := LRelCall.
Definition RR := LRelRet.
Definition RR0 := LRelRet 0.
Definition RR1 := LRelRet 1.
Definition KC := LKillCall.
Definition DD := LDead.

Definition lock_verdict (c : lcase) : nat :=
  let '(ks, l) := c in
  (if replay_ok ks l then 0 else 1)
  + (if check_C28 l then 0 else 2)
  + (if forallb (fun x => fst x <? length ks) l then 0 else 8).

Fixpoint lock_failures (i : nat) (cs : list lcase) : list (nat * nat) :=
  match cs with
  | [] => []
  | c :: t => match lock_verdict c with
              | O => lock_failures (S i) t
              | v => (i, v) :: lock_failures (S i) t
              end
  end.
