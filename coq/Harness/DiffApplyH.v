(* Correspondence harness for C07, evaluated by vm_compute. Depends on Model/
   only. A case is (inputs, outputs observed on the Go code, heap part).  The
   heap part is a sequence of mutations applied to the cells of the original
   [a] (cells numbered as Model/Heap.v alloc_tree numbers them) after copying
   it, and the four copies (Deep, DeepPreservingLeaves, Shallow, Slim) read
   after the mutations; the heap model must predict each reading exactly, i.e.
   which mutations are visible through which copy.  Verdict bits:
   1 = the model's outputs differ from the implementation's (value model or
       heap model),
   2 = check_C07 fails on the implementation's outputs,
   8 = an input is not a valid tree (harness bug). *)
From Coq Require Import List Bool Arith String.
Import ListNotations.
From Mv Require Import Common.Bytes Model.Entry Model.DiffApply Model.Heap.

Definition dcase := (c07_in * c07_out * (list mutation * list oentry))%type.

(* short constructors printed by the Go harness *)
Definition mk (p : path) (o n : oentry) : change := {| cpath := p; cold := o; cnew := n |}.
Definition In7 (a b : oentry) (p : path) : c07_in := {| i_a := a; i_b := b; i_p := p |}.
Definition Out7 (d : list change) (ap : apply_full) (ds pd : list change) (s : oentry)
                (n : nat) (cs : list (oentry * oentry)) (ap2 : apply_full)
                (a' b' : oentry) : c07_out :=
  {| o_diff := d; o_applied := ap; o_diff_self := ds; o_pdiff := pd;
     o_sync := s; o_count := n; o_copies := cs;
     o_applied2 := ap2; o_a_after := a'; o_b_after := b' |}.

Definition dverdict (c : dcase) : nat :=
  let '(i, o, (ms, seen)) := c in
  if wf_C07 i then
    (if corr_C07 i o && heap_check (i_a i) ms seen then 0 else 1)
    + (if check_C07 i o then 0 else 2)
  else 8.

Fixpoint da_failures (k : nat) (cs : list dcase) : list (nat * nat) :=
  match cs with
  | [] => []
  | c :: t => match dverdict c with
              | O => da_failures (S k) t
              | v => (k, v) :: da_failures (S k) t
              end
  end.
