(* Trace-validation harness for C33, evaluated inside Coq by vm_compute.
   A case is one run of controller.forward with k forwarded connections: per
   connection the scenario, the recorded call/return trace of the two wrapped
   connections and what the two far ends sent and received; plus the
   controller's counters read mid-run and at quiescence.
   Verdict bits: 1 = the model (Model/Forward.v) does not accept a trace, does
   not end quiescent on a complete one, or predicts other counters;
   2 = check_C33 rejects what the implementation did;
   8 = a recorded Write reports more bytes than it was given (harness bug). *)
From Coq Require Import List Arith Bool.
Import ListNotations.
From Mv Require Import Model.Forward.

Definition Sc (a b : endk) (f : bool) (k : cank) : scen :=
  {| s_endC := a; s_endS := b; s_faults := f; s_cancel := k |}.
Definition Po (s r : bytes) (e : bool) : peer_obs := {| sent := s; recv := r; eof := e |}.
Definition CC (sc : scen) (complete stuck : bool) (tr : list ev) (c s : peer_obs) : conn_case :=
  {| cc_scen := sc; cc_complete := complete; cc_stuck := stuck; cc_tr := tr; cc_c := c; cc_s := s |}.
Definition Cn (o t i u : nat) : cnt := {| c_open := o; c_total := t; c_in := i; c_out := u |}.
Definition R := ERd.
Definition W := EWr.
Definition T := true.
Definition N := false.

Definition model_conn_ok (x : conn_case) : bool :=
  match run init (cc_tr x) with
  | Some s => implb (cc_complete x) (quiescent s)
  | None => false
  end.

Definition cnt_eqb (a b : cnt) : bool :=
  (c_open a =? c_open b) && (c_total a =? c_total b) && (c_in a =? c_in b) && (c_out a =? c_out b).

Definition model_counters_ok (cs : list conn_case) (fin : cnt) : bool :=
  match srun sst0 (seq_sched 0 (map cc_tr cs)) with
  | Some s => cnt_eqb (cn s) fin
  | None => false
  end.

Definition forward_verdict (x : session_case) : nat :=
  let '(cs, mid, fin) := x in
  (if forallb model_conn_ok cs && model_counters_ok cs fin then 0 else 1)
  + (if check_C33 x then 0 else 2)
  + (if forallb (fun c => wf_trace (cc_tr c)) cs then 0 else 8).

Fixpoint forward_failures (i : nat) (cs : list session_case) : list (nat * nat) :=
  match cs with
  | [] => []
  | c :: t => match forward_verdict c with
              | O => forward_failures (S i) t
              | v => (i, v) :: forward_failures (S i) t
              end
  end.
