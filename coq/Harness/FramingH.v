(* Correspondence harness for C22, evaluated inside Coq by vm_compute.
   Cases come from goharness/cmd/framing, which runs the real
   encoding.ProtobufEncoder / ProtobufDecoder, the real compression algorithms,
   bufio and stream.NewMultiFlusher wired as remote/client.go and server.go wire
   them (order and buffer sizes read from those files on every run), over an
   in-memory transport whose reads are fragmented randomly.

   Byte strings are printed compactly as chunk lists: literal bytes, n copies
   of a byte, or n bytes of a 16-bit LFSR (the Go harness generates payloads
   that way and recognises them in the implementation's outputs byte for byte).

   Verdict bits: 1 = the model (Model/Framing.v, including its constants)
   disagrees with the implementation; 2 = the implementation's output fails
   check_pipe / check_raw, or the real endpoint did not deliver a flushed
   message; 8 = malformed case (fragment lengths do not add up). *)
From Coq Require Import List NArith Bool Strings.Byte.
Import ListNotations.
From Mv Require Import Model.Varint Model.Framing.
Local Open Scope N_scope.

(* ---- compact byte strings ------------------------------------------------- *)
Inductive chunk :=
| L (l : list N)          (* literal bytes *)
| G (seed len : N)        (* len bytes of the LFSR started at seed *)
| Z (b len : N).          (* len copies of b *)
Definition bs := list chunk.

Definition byte_of (n : N) : byte :=
  match Byte.of_N (N.land n 255) with Some b => b | None => x00 end.

(* Galois LFSR, taps 0xB400 *)
Definition lfsr (x : N) : N :=
  if N.odd x then N.lxor (N.div2 x) 46080 else N.div2 x.

Definition gen_rev (seed len : N) (acc : list byte) : list byte :=
  snd (N.iter len (fun st : N * list byte =>
                     let x' := lfsr (fst st) in (x', byte_of x' :: snd st)) (seed, acc)).

Fixpoint expand_rev (cs : bs) (acc : list byte) : list byte :=
  match cs with
  | [] => acc
  | L l :: t => expand_rev t (fold_left (fun a n => byte_of n :: a) l acc)
  | G s n :: t => expand_rev t (gen_rev s n acc)
  | Z b n :: t => expand_rev t (N.iter n (cons (byte_of b)) acc)
  end.
Definition expand (cs : bs) : list byte := rev' (expand_rev cs []).

Definition expand_msgs (ms : list bs) : list msg := map expand ms.

(* ---- fragments ----------------------------------------------------------------- *)
Fixpoint cut_acc {A} (lens : list N) (s : list A) (acc : list (list A)) : list (list A) * list A :=
  match lens with
  | [] => (rev' acc, s)
  | n :: t => let (a, b) := split_at n s in cut_acc t b (a :: acc)
  end.
Definition cut {A} (lens : list N) (s : list A) : list (list A) * list A := cut_acc lens s [].

(* fragment lengths are printed run-length encoded: (length, how many times) *)
Fixpoint unrle_rev (l : list (N * N)) (acc : list N) : list N :=
  match l with
  | [] => acc
  | (n, k) :: t => unrle_rev t (N.iter k (cons n) acc)
  end.
Definition unrle (l : list (N * N)) : list N := rev' (unrle_rev l []).

(* "the same bytes as the encoder wrote" / "the same messages as were written
   in this segment": printed by the Go harness after comparing byte for byte *)
Inductive sref := Same | Other (b : bs).
Inductive dref := DSame | DOther (ms : list bs).

(* ---- cases ------------------------------------------------------------------------ *)
Inductive fcase :=
(* pipeline run: limit of the real decoder; algorithm; messages written before
   each flush; bytes the real encoder wrote; bytes the decompressor handed to
   the decoder's buffer, their fragment lengths, fragments consumed per flush;
   per flush the messages the real decoder returned and its code *)
| FPipe (lim alg : N) (segs : list (list bs)) (enc : bs)
        (stream : sref) (lens : list (N * N)) (marks : list N) (dec : list (dref * N))
(* raw decoder run on a crafted stream until the first error: decoded
   messages, final code, bytes consumed, and whether the failing Decode
   allocated less than 1 MiB *)
| FRaw (lim : N) (stream : bs) (lens : list (N * N)) (dec : list bs) (code consumed : N)
       (alloc_small : bool)
(* the wiring read from remote/client.go (side 0) or server.go (side 1): the
   NewMultiFlusher arguments as layers (0 outbound, 1 compressor,
   2 compressedOutbound, 9 not recognised) and the two buffer sizes *)
| FWireSrc (side : N) (order : list N) (n1 n2 : N)
(* the real remote.NewEndpoint against a peer played by the harness: did the
   initialize request arrive after its Flush, without further data *)
| FWireRun (alg : N) (delivered : bool)
(* one message whose body has exactly [size] bytes (at or just above the real
   limit) through the real encoder and decoder: the decoder's code, and whether
   the decoded message equals the one sent (compared by the Go harness; such a
   message cannot be materialised inside Coq) *)
| FEdge (lim size code : N) (intact : bool).

Definition layer_of (n : N) : option layer :=
  if n =? 0 then Some LOuter else if n =? 1 then Some LComp
  else if n =? 2 then Some LInner else None.
Fixpoint order_matches (o : list N) (m : list layer) : bool :=
  match o, m with
  | [], [] => true
  | n :: o', l :: m' => match layer_of n with
                        | Some l' => layer_eqb l l' && order_matches o' m'
                        | None => false
                        end
  | _, _ => false
  end.

Fixpoint pipe_out_eqb (a b : pipe_out) : bool :=
  match a, b with
  | [], [] => true
  | (m1, c1) :: a', (m2, c2) :: b' => msgs_eqb m1 m2 && (c1 =? c2) && pipe_out_eqb a' b'
  | _, _ => false
  end.

Definition b2n (b : bool) (v : N) : N := if b then 0 else v.

Fixpoint resolve_dec (segs : list (list msg)) (dec : list (dref * N)) : pipe_out :=
  match dec with
  | [] => []
  | (d, code) :: t =>
      let seg := match segs with [] => [] | s :: _ => s end in
      (match d with DSame => seg | DOther ms => expand_msgs ms end, code)
      :: resolve_dec (match segs with [] => [] | _ :: r => r end) t
  end.

Definition framing_verdict (c : fcase) : N :=
  match c with
  | FPipe lim alg segs enc stream lens marks dec =>
      let segs' := map expand_msgs segs in
      let dec' := resolve_dec segs' dec in
      let e := expand enc in
      let s := match stream with Same => e | Other b => expand b end in
      let (frags, rest) := cut (unrle lens) s in
      let (segfrags, restf) := cut marks frags in
      let wf := match rest, restf with [], [] => true | _, _ => false end in
      let corr :=
        (lim =? go_max_message_size)
        && bytes_eqb (encode_all_fast (concat segs')) e
        && pipe_out_eqb (model_pipe go_dconf go_d_init segfrags) dec' in
      b2n corr 1 + b2n (check_pipe segs' dec') 2 + b2n wf 8
  | FRaw lim stream lens dec code consumed alloc_small =>
      let s := expand stream in
      let dec' := expand_msgs dec in
      let (frags, rest) := cut (unrle lens) s in
      let wf := match rest with [] => true | _ => false end in
      let (st', ms) := feed_all go_dconf go_d_init frags in
      let mcode := dend_code (finish st') in
      let corr :=
        (lim =? go_max_message_size)
        && msgs_eqb ms dec' && (mcode =? code) && (Model.Framing.consumed st' =? consumed)
        && (if mcode =? 4 then alloc_small else true) in
      b2n corr 1 + b2n (check_raw lim s (dec', code)) 2 + b2n wf 8
  | FWireSrc side order n1 n2 =>
      b2n (order_matches order go_flush_order
           && (n1 =? go_control_stream_buffer) && (n2 =? go_control_stream_buffer)) 1
  | FWireRun alg delivered => b2n delivered 2
  | FEdge lim size code intact =>
      (* c22_fragmentation / c22_limit: within the limit delivered intact,
         above it rejected with "message size too large" *)
      let good := if size <=? lim then (code =? 0) && intact else (code =? 4) in
      let mgood := if size <=? go_max_message_size then (code =? 0) && intact else (code =? 4) in
      b2n ((lim =? go_max_message_size) && mgood) 1 + b2n good 2
  end.

(* Index and verdict are printed as N: the case files keep N_scope open, and
   the driver reads plain "(index, verdict)" pairs. *)
Fixpoint framing_failures (i : N) (cs : list fcase) : list (N * N) :=
  match cs with
  | [] => []
  | c :: t => let v := framing_verdict c in
              if v =? 0 then framing_failures (N.succ i) t
              else (i, v) :: framing_failures (N.succ i) t
  end.
