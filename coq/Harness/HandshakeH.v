(* Correspondence harness for C34, evaluated inside Coq by vm_compute.
   Cases come from goharness/cmd/handshake, which runs the real
   agent.ClientHandshake / ServerHandshake and mutagen.ClientVersionHandshake /
   ServerVersionHandshake (a) against a byte-level peer played by the harness
   and (b) against each other through a relay that alters one byte or cuts a
   direction.  Every case carries the constants the real code uses (magic
   numbers as sent by the real functions, mutagen.VersionMajor/Minor/Patch).

   Verdict bits: 1 = the model (Model/Handshake.v, including its constants)
   disagrees with the implementation; 2 = the implementation's result fails the
   property checker (check_side / check_joint, computed from the constants of
   the case, not from the model's). *)
From Coq Require Import List NArith Bool Strings.Byte.
Import ListNotations.
From Mv Require Import Model.Varint Model.Handshake.
Local Open Scope N_scope.

(* constants as printed by the Go harness: server magic, client magic, version *)
Definition hconsts := (list N * list N * (N * N * N))%type.

Inductive hcase :=
| HSide (k : hconsts) (side : N) (inp : list N) (sent : list N) (res : N)
| HJoint (k : hconsts) (fsc fcs : fault) (rc rs : N).

(* short aliases used in the case files *)
Definition NF : fault := NoFault.
Definition AL (p v : N) : fault := Alter (N.to_nat p) (b8 v).
Definition TR (p : N) : fault := Trunc (N.to_nat p).

Definition bytes_of (l : list N) : list byte := map b8 l.

Definition conf_of (k : hconsts) : conf :=
  let '(sm, cm, v) := k in
  {| c_smagic := bytes_of sm; c_cmagic := bytes_of cm; c_ver := v |}.

Definition consts_match (k : hconsts) : bool :=
  let c := conf_of k in
  bytes_eqb (c_smagic c) go_server_magic && bytes_eqb (c_cmagic c) go_client_magic
  && version_eqb (c_ver c) go_version.

(* result codes of the Go harness: 0 nil, 1 unable to receive magic, 2 magic
   incorrect, 3 unable to receive version, 4 version mismatch, 5 anything else *)
Definition code_of (r : hres) : N :=
  match r with
  | HOk => 0 | HRecvMagic => 1 | HBadMagic => 2 | HRecvVersion => 3 | HVersionMismatch => 4
  end.
(* for the checker only acceptance matters *)
Definition res_of (n : N) : hres := if n =? 0 then HOk else HVersionMismatch.

Definition handshake_verdict (c : hcase) : N :=
  match c with
  | HSide k side inp sent res =>
      let i := bytes_of inp in
      let (msent, mres) := if side =? 0 then client go_conf i else server go_conf i in
      let expects := if side =? 0 then client_expects (conf_of k) else server_expects (conf_of k) in
      (if consts_match k && bytes_eqb msent (bytes_of sent) && (code_of mres =? res)
       then 0 else 1)
      + (if check_side expects i (res_of res) then 0 else 2)
  | HJoint k fsc fcs rc rs =>
      let (mc, ms) := joint go_conf go_conf fsc fcs in
      (if consts_match k && (code_of mc =? rc) && (code_of ms =? rs) then 0 else 1)
      + (if check_joint (conf_of k) fsc fcs (res_of rc, res_of rs) then 0 else 2)
  end.

(* Index and verdict are printed as N: the case files keep N_scope open, and
   the driver reads plain "(index, verdict)" pairs. *)
Fixpoint handshake_failures (i : N) (cs : list hcase) : list (N * N) :=
  match cs with
  | [] => []
  | c :: t => let v := handshake_verdict c in
              if v =? 0 then handshake_failures (N.succ i) t
              else (i, v) :: handshake_failures (N.succ i) t
  end.
