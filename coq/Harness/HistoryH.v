(* History harness (goharness/cmd/history), evaluated by vm_compute. Depends
   on Model/ only. A case is one recorded history of a real session (see
   Model/CheckHistory.v). One failure function per property; verdict bits:
   1 = the recorded cycles disagree with the model of one iteration of
       controller.synchronize (the ancestor handed to Scan is not the state
       the archive should hold, a halting cycle reached Transition, or the
       transitions an endpoint received are not the plan's),
   2 = the property's history check fails,
   4 = (C18 only, with 2) every failing cycle lies in the known class
       known_C18 of Model/Exec.v,
   8 = ill-formed record (harness bug). *)
From Coq Require Import List Bool Arith String.
Import ListNotations.
From Mv Require Import Common.Bytes Model.Entry Model.Reconcile Model.Outcomes Model.C04Cycle
  Model.Exec Model.Safety Model.CheckHistory.

Definition mkcyc (anc sa sb : oentry) (pa pb stage : bool) (ta tb ra rb : option (list change))
  (ok : bool) (disk wa0 wb0 wa wb : oentry) : cyc :=
  {| k_anc := anc; k_sa := sa; k_sb := sb; k_pa := pa; k_pb := pb; k_stage := stage;
     k_ta := ta; k_tb := tb; k_ra := ra; k_rb := rb; k_ok := ok; k_disk := disk;
     k_wa0 := wa0; k_wb0 := wb0; k_wa := wa; k_wb := wb |}.

Definition mkhist (m : mode) (docker : bool) (n : option bool) (cs : list cyc) : hist :=
  {| h_mode := m; h_docker := docker; h_n := n; h_cycles := cs |}.

Definition corr_bit (h : hist) : nat := if corr_hist h then 0 else 1.

Definition c05_verdict (h : hist) : nat :=
  if wf_hist h && plain_hist h then corr_bit h + (if check_hist_c05 h then 0 else 2) else 8.

Definition c01_verdict (h : hist) : nat :=
  if wf_hist h && plain_hist h then corr_bit h + (if check_hist_c01 h then 0 else 2) else 8.

Definition c04_verdict (h : hist) : nat :=
  if wf_hist h then (if check_hist_c04 h then 0 else 2) else 8.

Definition c18_verdict (h : hist) : nat :=
  if wf_hist h && is_some (h_n h) then c18_hist_verdict h else 8.

Definition failures_with (verdict : hist -> nat) :=
  fix go (i : nat) (cs : list hist) : list (nat * nat) :=
    match cs with
    | [] => []
    | c :: t => match verdict c with
                | O => go (S i) t
                | v => (i, v) :: go (S i) t
                end
    end.

Definition hist_failures_c01 := failures_with c01_verdict.
Definition hist_failures_c04 := failures_with c04_verdict.
Definition hist_failures_c05 := failures_with c05_verdict.
Definition hist_failures_c18 := failures_with c18_verdict.

(* diagnostic: all four verdicts, the number of cycles and of quiescent steps *)
Definition hist_verdicts (h : hist) :=
  (c01_verdict h, c04_verdict h, c05_verdict h, c18_verdict h,
   List.length (h_cycles h), quiet_steps (h_cycles h)).

(* diagnostic: per cycle (correspondence, disk = expected, C01 check) *)
Definition hist_cycle_report (h : hist) :=
  map (fun ac => (corr_cycle (h_mode h) (fst ac) (snd ac), c05_cycle (h_mode h) (fst ac) (snd ac),
                  c01_cycle (fst ac) (snd ac)))
      (track (h_mode h) None (h_cycles h)).
