(* Correspondence harness for C43, evaluated inside Coq by vm_compute.
   HConst: the three thresholds of the real code (nanoseconds).
   HRun: one run of the real Housekeep() on a scratch data directory: the
   children of agents/, caches/, staging/ before the call (each with its age
   bracketed by clock readings taken before and after the call), the names
   present afterwards, and whether everything else (canary directory that
   symbolic links point to, other data-directory content, inner content of the
   survivors) is intact.
   Verdict bits: 1 = the model's decision differs from what the code did (or a
   threshold differs); 2 = check_C43 fails (a concrete failing input);
   8 = the case is outside the harness's domain (duplicate names, lo > hi). *)
From Coq Require Import List String Bool ZArith.
Import ListNotations.
From Mv Require Import Common.Bytes Model.Housekeep.
Local Open Scope string_scope.
Local Open Scope list_scope.

Inductive hcase :=
| HConst (agent cache stage : Z)
| HRun (o : observation).

(* child whose stat succeeded: name, age by the earlier / later clock,
   removable, proper; child whose stat failed *)
Definition Oc (n : string) (l h : Z) (r p : bool) : ochild :=
  {| oname := n; lo := Some l; hi := Some h; oremovable := r; proper := p |}.
Definition On (n : string) (r p : bool) : ochild :=
  {| oname := n; lo := None; hi := None; oremovable := r; proper := p |}.
Definition Obs := Build_observation.

Definition housekeep_verdict (c : hcase) : nat :=
  match c with
  | HConst a c s =>
      if Z.eqb a maximum_agent_idle_period && Z.eqb c maximum_cache_age
         && Z.eqb s maximum_staging_root_age then 0 else 1
  | HRun o =>
      if domain_C43 o
      then (if corr_C43 o then 0 else 1) + (if check_C43 o then 0 else 2)
      else 8
  end.

Fixpoint housekeep_failures (i : nat) (cs : list hcase) : list (nat * nat) :=
  match cs with
  | [] => []
  | c :: t => match housekeep_verdict c with
              | O => housekeep_failures (S i) t
              | v => (i, v) :: housekeep_failures (S i) t
              end
  end.
