(* Correspondence harness for C39, evaluated inside Coq by vm_compute.
   Verdict bits: 1 = model output differs from the implementation's (for IEnc
   cases: the base-x encoder does not meet its specification [basex_spec],
   i.e. the hypothesis of the C39 theorems is invalid);
   2 = the implementation's output fails [check_c39];
   8 = input outside the model's domain (bytes >= 256, non-ASCII name). *)
From Coq Require Import List Arith NArith String Ascii.
Import ListNotations.
From Mv Require Import Model.Identifier.

Definition Ok (id : list nat) : idres := IdOk id.
Definition rp (n b : nat) : list nat := repeat b n.
(* compact forms printed by the Go harness (the case files are parsed much
   faster): a printable ASCII string as a string literal, a byte string as
   its length and its big-endian value in hexadecimal *)
Definition sb (s : string) : list nat := map nat_of_ascii (list_ascii_of_string s).
Fixpoint hb_aux (len : nat) (n : N) (acc : list nat) : list nat :=
  match len with
  | O => acc
  | S l => hb_aux l (n / 256)%N (N.to_nat (n mod 256)%N :: acc)
  end.
Definition hb (len : nat) (n : N) : list nat := hb_aux len n [].

Definition identifier_verdict (c : icase) : nat :=
  (if model_agrees_c39 c then 0 else 1)
  + (if check_c39 c then 0 else 2)
  + (if in_domain_c39 c then 0 else 8).

Fixpoint identifier_failures (i : nat) (cs : list icase) : list (nat * nat) :=
  match cs with
  | [] => []
  | c :: t => match identifier_verdict c with
              | O => identifier_failures (S i) t
              | v => (i, v) :: identifier_failures (S i) t
              end
  end.
