(* Correspondence harness for C15, evaluated inside Coq by vm_compute.
   Depends on Model/ only. Verdict bits per case:
     1  the model disagrees with the implementation (MatchesOrParentMatches,
        MatchesForMutagen, the scanned snapshot, or ReifyPhantomDirectories);
     2  the reified snapshot of the implementation departs from Docker's
        build-context semantics ([check_C15]);
     4  (only with 2, never with 1) every departure lies in the class
        [known_C15] AND the implementation's outputs are exactly what the model
        predicts - so the departure is the known one and nothing else;
     8  the harness fed an ill-formed input. *)
From Coq Require Import List Bool Arith String Ascii.
Import ListNotations.
From Mv Require Import Common.Bytes Model.Entry Model.IgnoreScan Model.IgnoreDocker.
Open Scope list_scope.

Inductive dcase :=
(* one path against one pattern list: MatchesOrParentMatches(path) and
   MatchesForMutagen(path, dir) of the real matcher *)
| DQuery (pats : list dpat) (path : string) (dir : bool) (mopm_res : bool)
         (mfm_res : status * bool)
(* core.Scan of a real tree with docker.NewIgnorer, then
   ReifyPhantomDirectories(anc, snapshot, beta) with beta = nil or a copy of
   the snapshot: raw snapshot, reified alpha, directory counts *)
| DScan (pats : list dpat) (tree : fnode) (anc : oentry) (beta_same : bool)
        (snap : oentry) (reified_snap : oentry) (ca cb : nat).

(* aliases printed by the Go harness; hits arrive as path strings *)
Definition Dp (e : bool) (t : string) (hits : list string) : dpat :=
  {| dexcl := e; dtext := t; dhits := map rp_of hits |}.
Definition Dq := DQuery.
Definition Ds := DScan.

Definition bit (b : bool) (v : nat) : nat := if b then v else 0.

Definition wf_rp (q : rpath) : bool :=
  match q with [] => false | _ => forallb name_valid q end.

Definition dverdict (c : dcase) : nat :=
  match c with
  | DQuery pats path dir mo mf =>
    let q := rp_of path in
    if negb (wf_rp q) then 8 else
    let mo' := mopm dexcl dmatch pats q in
    let mf' := mfm dexcl dtext dmatch pats q dir in
    bit (negb (Bool.eqb mo mo' && status_eqb (fst mf) (fst mf') && Bool.eqb (snd mf) (snd mf'))) 1
  | DScan pats tree anc beta_same snap rsnap ca cb =>
    if negb (wf_fnode tree && wf true anc) then 8 else
    match snap, rsnap with
    | Some s, Some rs =>
      let s' := snapshot (dock_ignorer dexcl dtext dmatch pats) tree in
      let r := reify anc (Some s') (if beta_same then Some s' else None) in
      let bad := negb (check_C15 pats tree anc rs) in
      let agrees := entry_eqb s' s && oentry_eqb (r_a r) (Some rs)
                    && Nat.eqb (r_ca r) ca && Nat.eqb (r_cb r) cb && negb (r_oof r) in
      bit (negb agrees) 1
      + bit bad 2
      + bit (bad && agrees && c15_all_known pats tree anc rs) 4
    | _, _ => 1
    end
  end.

Fixpoint ignd_failures (i : nat) (cs : list dcase) : list (nat * nat) :=
  match cs with
  | [] => []
  | c :: t => match dverdict c with
              | O => ignd_failures (S i) t
              | v => (i, v) :: ignd_failures (S i) t
              end
  end.
