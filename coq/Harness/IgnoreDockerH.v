(* Correspondence harness for C15, evaluated inside Coq by vm_compute.
   Depends on Model/ only. Verdict bits per case:
     1  the model disagrees with the implementation (pattern preprocessing,
        MatchesOrParentMatches, MatchesForMutagen, the scanned snapshot, or
        ReifyPhantomDirectories);
     2  the reified snapshot of the implementation departs from Docker's
        build-context semantics ([check_C15], with the reference patterns
        obtained from the user's texts by Docker's own reading [docker_prep]),
        or an accepted pattern is read differently from Docker;
     4  (only with 2, never with 1) every departure lies in the class
        [known_C15] AND the implementation's outputs are exactly what the model
        predicts - so the departure is the known one and nothing else;
     8  the harness fed an ill-formed input. *)
From Coq Require Import List Bool Arith String Ascii.
Import ListNotations.
From Mv Require Import Common.Bytes Model.Entry Model.IgnoreScan Model.IgnoreMutagen Model.IgnoreDocker.
Open Scope list_scope.

(* One pattern as the harness reports it: the user's text, what the real
   preprocessing made of it (Pattern.Exclusion, Pattern.String of the real
   matcher), the reference reading the Go harness used to build the match table
   (must equal [docker_prep], else bit 8), and the paths the reference pattern
   matches by itself according to the real per-pattern matcher. *)
Record rawpat := {
  rw_raw : string;
  rw_impl : bool * string;
  rw_ref : bool * string;
  rw_hits : list rpath
}.
Definition Dr (raw : string) (ie : bool) (it : string) (re : bool) (rt : string)
  (hits : list string) : rawpat :=
  {| rw_raw := raw; rw_impl := (ie, it); rw_ref := (re, rt); rw_hits := map rp_of hits |}.

Definition prep_eqb (a : option (bool * str)) (b : option (bool * string)) : bool :=
  match a, b with
  | None, None => true
  | Some (e, t), Some (e', t') => Bool.eqb e e' && String.eqb (string_of_list_ascii t) t'
  | _, _ => false
  end.

(* the reference pattern: Docker's reading of the user's text *)
Definition to_dpat (r : rawpat) : option dpat :=
  match docker_prep (str_of (rw_raw r)) with
  | Some (e, t) => Some {| dexcl := e; dtext := string_of_list_ascii t; dhits := rw_hits r |}
  | None => None
  end.
Definition ref_consistent (r : rawpat) : bool :=
  prep_eqb (docker_prep (str_of (rw_raw r))) (Some (rw_ref r)).
Definition impl_prep_ok (r : rawpat) : bool :=
  prep_eqb (mutagen_prep (str_of (rw_raw r))) (Some (rw_impl r)).

Inductive dcase :=
(* one path against one pattern list: MatchesOrParentMatches(path) and
   MatchesForMutagen(path, dir) of the real matcher *)
| DQuery (pats : list rawpat) (path : string) (dir : bool) (mopm_res : bool)
         (mfm_res : status * bool)
(* core.Scan of a real tree with docker.NewIgnorer, then
   ReifyPhantomDirectories(anc, snapshot, beta) with beta = nil or a copy of
   the snapshot: raw snapshot, reified alpha, directory counts *)
| DScan (pats : list rawpat) (tree : fnode) (anc : oentry) (beta_same : bool)
        (snap : oentry) (reified_snap : oentry) (ca cb : nat)
(* the real preprocessing of one user pattern: None = rejected *)
| DPrep (raw : string) (impl : option (bool * string)).

Definition Dq := DQuery.
Definition Ds := DScan.
Definition Dpp := DPrep.

Definition bit (b : bool) (v : nat) : nat := if b then v else 0.

Definition wf_rp (q : rpath) : bool :=
  match q with [] => false | _ => forallb name_valid q end.

Definition dverdict (c : dcase) : nat :=
  match c with
  | DQuery rs path dir mo mf =>
    let q := rp_of path in
    match all_some (map to_dpat rs) with
    | None => 8
    | Some pats =>
      if negb (wf_rp q && forallb ref_consistent rs) then 8 else
      let mo' := mopm dexcl dmatch pats q in
      let mf' := mfm dexcl dtext dmatch pats q dir in
      bit (negb (Bool.eqb mo mo' && status_eqb (fst mf) (fst mf') && Bool.eqb (snd mf) (snd mf')
                 && forallb impl_prep_ok rs)) 1
    end
  | DScan rs tree anc beta_same snap rsnap ca cb =>
    match all_some (map to_dpat rs) with
    | None => 8
    | Some pats =>
      if negb (wf_fnode tree && wf true anc && forallb ref_consistent rs) then 8 else
      match snap, rsnap with
      | Some s, Some rs' =>
        let s' := snapshot (dock_ignorer dexcl dtext dmatch pats) tree in
        let r := reify anc (Some s') (if beta_same then Some s' else None) in
        let bad := negb (check_C15 pats tree anc rs') in
        let agrees := entry_eqb s' s && oentry_eqb (r_a r) (Some rs')
                      && Nat.eqb (r_ca r) ca && Nat.eqb (r_cb r) cb && negb (r_oof r)
                      && forallb impl_prep_ok rs in
        bit (negb agrees) 1
        + bit bad 2
        + bit (bad && agrees && c15_all_known pats tree anc rs') 4
      | _, _ => 1
      end
    end
  | DPrep raw impl =>
    let m := mutagen_prep (str_of raw) in
    let d := docker_prep (str_of raw) in
    bit (negb (prep_eqb m impl)) 1
    + bit (match impl, d with
           | Some _, Some _ => negb (prep_eqb d impl)   (* accepted, but read differently from Docker *)
           | _, _ => false
           end) 2
  end.

Fixpoint ignd_failures (i : nat) (cs : list dcase) : list (nat * nat) :=
  match cs with
  | [] => []
  | c :: t => match dverdict c with
              | O => ignd_failures (S i) t
              | v => (i, v) :: ignd_failures (S i) t
              end
  end.
