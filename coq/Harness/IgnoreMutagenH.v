(* Correspondence harness for C14, evaluated inside Coq by vm_compute.
   Depends on Model/ only. Verdict bits per case:
     1  the model (doublestar reading, [strict = false]) disagrees with the
        implementation's output;
     2  the implementation's output fails the property checker (documented glob
        meaning + last match wins + pruning);
     4  (only with 2, never with 1) the known-finding class [known_C14]: some
        pattern of the case has a bracket class that admits '/', AND the
        implementation's output is exactly what the doublestar reading of the
        model predicts - so the departure from the documented meaning is the
        known one and nothing else;
     8  the harness fed an input outside the model's grammar. *)
From Coq Require Import List Bool Arith String Ascii.
Import ListNotations.
From Mv Require Import Common.Bytes Model.Entry Model.IgnoreScan Model.IgnoreMutagen.
Open Scope list_scope.

Inductive mcase :=
(* doublestar.Match(pat, name): Some b, or None for ErrBadPattern *)
| KGlob (pat name : string) (res : option bool)
(* newIgnorePattern(raw): negated, directoryOnly, matchLeaf, pattern; None = error *)
| KParse (raw : string) (res : option (bool * bool * bool * string))
(* NewIgnorer(raws) (wrapped by IgnoreVCS when vcs) then Ignore(path, dir) *)
| KIgnore (vcs : bool) (raws : list string) (path : string) (dir : bool)
          (res : option (status * bool))
(* core.Scan of a real tree with that ignorer: snapshot content and the
   (path, directory) pairs the ignorer was consulted on *)
| KScan (vcs : bool) (raws : list string) (tree : fnode) (snap : oentry)
        (consulted : list (string * bool))
(* the real vcsDirectoryNames table, sorted *)
| KVcs (names : list string).

(* short aliases printed by the Go harness *)
Definition G := KGlob.
Definition Pp := KParse.
Definition Ig := KIgnore.
Definition Sc := KScan.
Definition Vc := KVcs.

Definition obool_eqb (a b : option bool) : bool :=
  match a, b with
  | None, None => true
  | Some x, Some y => Bool.eqb x y
  | _, _ => false
  end.

Definition ores_eqb (a b : option (status * bool)) : bool :=
  match a, b with
  | None, None => true
  | Some (s, c), Some (s', c') => status_eqb s s' && Bool.eqb c c'
  | _, _ => false
  end.

Fixpoint strs_eqb (a b : list string) : bool :=
  match a, b with
  | [], [] => true
  | x :: a', y :: b' => String.eqb x y && strs_eqb a' b'
  | _, _ => false
  end.

Definition bit (b : bool) (v : nat) : nat := if b then v else 0.

Definition mverdict (c : mcase) : nat :=
  match c with
  | KGlob pat name res =>
    let parsed := parse_glob (str_of pat) in
    if negb (in_grammar (str_of pat) && wf_path (str_of name)
             && match parsed with Some cs => class_star_free cs | None => true end) then 8 else
    let run (strict : bool) := option_map (fun cs => glob_match strict cs (str_of name)) parsed in
    let bad := negb (obool_eqb res (run true)) in
    let agrees := obool_eqb res (run false) in
    bit (negb agrees) 1
    + bit bad 2
    + bit (bad && agrees
           && match parsed with Some cs => existsb comp_admits_slash cs | None => false end) 4
  | KParse raw res =>
    if negb (in_grammar (str_of raw)) then 8 else
    let model := option_map (fun p => (negated p, dir_only p, match_leaf p,
                                       string_of_list_ascii (text p)))
                            (parse_pattern (str_of raw)) in
    bit (negb (match model, res with
               | None, None => true
               | Some (a, b, c, t), Some (a', b', c', t') =>
                 Bool.eqb a a' && Bool.eqb b b' && Bool.eqb c c' && String.eqb t t'
               | _, _ => false
               end)) 1
  | KIgnore vcs raws path dir res =>
    if negb (forallb (fun r => in_grammar (str_of r)) raws && wf_path (str_of path)) then 8 else
    match parse_all (map str_of raws) with
    | None => bit (match res with None => false | Some _ => true end) 1
    | Some pats =>
      if negb (forallb (fun p => class_star_free (comps p)) pats) then 8 else
      let q := rp_of path in
      let model := mut_ignorer false vcs pats q dir in
      let spec := mut_ignorer true vcs pats q dir in
      match res with
      | None => 1
      | Some out =>
        let bad := negb (ores_eqb (Some out) (Some spec)) in
        let agrees := ores_eqb (Some out) (Some model) in
        bit (negb agrees) 1 + bit bad 2 + bit (bad && agrees && known_C14 pats) 4
      end
    end
  | KScan vcs raws tree snap consulted =>
    if negb (forallb (fun r => in_grammar (str_of r)) raws && wf_fnode tree) then 8 else
    match parse_all (map str_of raws), snap with
    | Some pats, Some s =>
      if negb (forallb (fun p => class_star_free (comps p)) pats) then 8 else
      let '(e, log) := scan (mut_ignorer false vcs pats) tree in
      let impl_log := map (fun pd => EvIgnore (rp_of (fst pd)) (snd pd)) consulted in
      let bad := negb (check_C14_scan vcs pats tree s) in
      let agrees := entry_eqb e s && same_events (consults log) impl_log in
      bit (negb agrees) 1 + bit bad 2 + bit (bad && agrees && known_C14 pats) 4
    | _, _ => 1
    end
  | KVcs names => bit (negb (strs_eqb names vcs_names)) 1
  end.

Fixpoint ignm_failures (i : nat) (cs : list mcase) : list (nat * nat) :=
  match cs with
  | [] => []
  | c :: t => match mverdict c with
              | O => ignm_failures (S i) t
              | v => (i, v) :: ignm_failures (S i) t
              end
  end.
