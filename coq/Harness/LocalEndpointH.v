(* Correspondence harness for C41, evaluated inside Coq by vm_compute.
   A case is (fixed, readOnly, maximumEntryCount, initial root, history), the
   history being the calls made on a real local endpoint together with what
   it returned. Contents and digests are short identifiers (the Go harness
   renames them injectively), so the hash function is the identity here.
   Verdict bits: 1 = Model/LocalEndpoint.v (step fixed) returns something
   else than the endpoint did; 2 = check_op rejects what the endpoint
   returned (a concrete failing history); 8 = ill-formed case.
   Depends on Model/ only. *)
From Coq Require Import List Bool Arith NArith String.
Import ListNotations.
From Mv Require Import Common.Bytes Model.Entry Model.Staging Model.LocalEndpoint.
Local Open Scope string_scope.
Local Open Scope list_scope.

Definition Hid (b : bytes) : digest := b.

Inductive hop :=
| HScan (obs : scan_res)
| HStage (ps : list Staging.path) (ds : list digest) (obs : stage_res)
| HSupply (cs : list bytes)
| HTrans (chs : list change) (env : tenv) (obs : trans_res)
| HEdit (d : disk)
| HRestart.   (* the endpoint is shut down and a new instance created over the same staging root *)

(* maximumEntryCount: None = the default 2^64-1; all numerals in case files are nat *)
Definition lcase := (bool * bool * option nat * disk * list hop)%type.

(* short aliases printed by the Go harness *)
Definition Dk (n : nat) (fs : files) : disk := {| dcount := N.of_nat n; dfiles := fs |}.
Definition SOk (n : nat) : scan_res := ScOk (N.of_nat n).
Definition SEx (n : nat) : scan_res := ScExceeded (N.of_nat n).
Definition Env (d : disk) (rs : list oentry) (np : nat) (m : bool) : tenv :=
  {| tpost := d; tresults := rs; tnproblems := np; tmiss := m |}.
Definition TD (rs : list oentry) (np : nat) (m : bool) : trans_res := TrDone rs np m.
Definition mk (p : Entry.path) (o n : oentry) : change := {| cpath := p; cold := o; cnew := n |}.

(* The reverse lookup of Stage picks one of several root files with the
   requested digest (Go map order). The choice is resolved from the observed
   result: an item the endpoint still needs is given a source that fails
   verification if there is one, an item it omitted a source that passes. *)
Fixpoint find_pick (f : Staging.path -> bool) (cs : list Staging.path) (i : nat) : nat :=
  match cs with
  | [] => 0
  | q :: t => if f q then i else find_pick f t (S i)
  end.

Fixpoint guide (mx : N) (root : files) (s : store) (c : list (Staging.path * digest))
         (req : list (Staging.path * digest)) (obs : list Staging.path) : list nat :=
  match req with
  | [] => []
  | (p, d) :: t =>
      if String.eqb d "" then []
      else if contains s p d then 0 :: guide mx root s c t obs
      else
        let want_keep := match obs with f :: _ => String.eqb f p | [] => false end in
        let k := find_pick (fun q => Bool.eqb (snd (stage_from_root Hid mx root s (Some q) p d))
                                              (negb want_keep)) (candidates c d) 0 in
        let '(s1, ok) := stage_from_root Hid mx root s (pick_src c d k) p d in
        k :: guide mx root s1 c t (if ok then obs else tl obs)
  end.

Definition to_op (e : ep) (h : hop) : op * res :=
  match h with
  | HScan obs => (OScan (match obs with ScErr => false | _ => true end), RScan obs)
  | HStage ps ds obs =>
      let picks := match obs with
                   | StOk needed => guide (mxsize e) (dfiles (dsk e)) (sto e) (cache e) (combine ps ds) needed
                   | StErr _ => []
                   end in
      (OStage ps ds picks, RStage obs)
  | HSupply cs => (OSupply cs, RSupply)
  | HTrans chs env obs => (OTransition chs env, RTransition obs)
  | HEdit d => (OEdit d, REdit)
  | HRestart => (OEdit (dsk e), REdit)   (* not used: see walk *)
  end.

(* "files that still need data": a path handed back as needed although every
   request item for that path is already in the store (as the model tracks
   it: staged by an earlier round and not yet consumed by a Transition) *)
Definition staged_omitted (e : ep) (o : op) (obs : res) : bool :=
  match o, obs with
  | OStage ps ds _, RStage (StOk needed) =>
      forallb (fun p =>
                 negb (forallb (fun pd => negb (String.eqb (fst pd) p)
                                          || contains (sto e) (fst pd) (snd pd))
                               (combine ps ds)))
              needed
  | _, _ => true
  end.

(* a new endpoint instance: flags and counts start afresh, the staging store
   (on disk) persists *)
Definition restart (e : ep) : ep :=
  set_stage (new_ep (ro e) (maxc e) (mxsize e) (dsk e)) false (sto e) [].

(* (model disagrees, checker rejects) over a history *)
Fixpoint walk (fixed : bool) (e : ep) (hs : list hop) : bool * bool :=
  match hs with
  | [] => (false, false)
  | HRestart :: t => walk fixed (restart e) t
  | h :: t =>
      let '(o, obs) := to_op e h in
      let '(e', r) := step Hid fixed e o in
      let '(b1, b2) := walk fixed e' t in
      (negb (res_eqb r obs) || b1,
       negb (check_op Hid e o obs) || negb (staged_omitted e o obs) || b2)
  end.

Fixpoint nodup_paths (l : list Staging.path) : bool :=
  match l with
  | [] => true
  | x :: t => negb (existsb (String.eqb x) t) && nodup_paths t
  end.

Definition wf_disk (d : disk) : bool :=
  (dcount d <? two64)%N && nodup_paths (map fst (dfiles d))
  && forallb (fun pc => negb (String.eqb (snd pc) "")) (dfiles d).

Definition wf_hop (h : hop) : bool :=
  match h with
  | HEdit d => wf_disk d
  | HTrans _ env _ => wf_disk (tpost env)
  | _ => true
  end.

Definition lep_verdict (c : lcase) : nat :=
  let '(fixed, readonly, omx, d0, hs) := c in
  let mx := match omx with None => (two64 - 1)%N | Some n => N.of_nat n end in
  if negb ((0 <? mx)%N && (mx <? two64)%N && wf_disk d0 && forallb wf_hop hs) then 8
  else
    let '(b1, b2) := walk fixed (new_ep readonly mx (two64 - 1) d0) hs in
    (if b1 then 1 else 0) + (if b2 then 2 else 0).

Fixpoint lep_failures (i : nat) (cs : list lcase) : list (nat * nat) :=
  match cs with
  | [] => []
  | c :: t => match lep_verdict c with
              | O => lep_failures (S i) t
              | v => (i, v) :: lep_failures (S i) t
              end
  end.
