(* Correspondence harness for C44, evaluated inside Coq by vm_compute.
   A case is an [lcase]: the logger's level, the chain of Sublogger names, the
   action (one log call, or a byte stream relayed through Logger.Writer in
   several writes) and the records observed on the real logger's sink.
   Verdict bits: 1 = the model's records differ from the implementation's
   (up to the timestamp of "now", compared by its fixed layout);
   2 = the implementation's records fail the property checker [check_c44]. *)
From Coq Require Import List Arith ZArith NArith.
Import ListNotations.
From Mv Require Import Model.Stream Model.Logging.

(* the placeholder for the timestamp of "now": "0000-00-00 00:00:00.000000" *)
Definition TS : list nat :=
  [48;48;48;48;45;48;48;45;48;48;32;48;48;58;48;48;58;48;48;46;48;48;48;48;48;48].

(* short constructors printed by the Go harness *)
Definition RR (n : N) (e : err) (recs : list record) : rres := (N.to_nat n, e, recs).
Definition LC (lv : nat) (names : list (list nat)) (a : action) (o : observed) : lcase :=
  {| c_lvl := lv; c_names := names; c_act := a; c_obs := o |}.
Definition rp (n : N) (b : nat) : list nat := repeat b (N.to_nat n).

Definition logging_verdict (c : lcase) : nat :=
  (if model_agrees_c44 TS c then 0 else 1) + (if check_c44 TS c then 0 else 2).

Fixpoint logging_failures (i : nat) (cs : list lcase) : list (nat * nat) :=
  match cs with
  | [] => []
  | c :: t => match logging_verdict c with
              | O => logging_failures (S i) t
              | v => (i, v) :: logging_failures (S i) t
              end
  end.
