(* Correspondence harness for C45, evaluated inside Coq by vm_compute.
   A case is (capacity, operations, results observed on the Go cache).
   The list model is itself the specification ("the obvious model"), so the
   two verdict bits coincide: 3 = the implementation differs from the model,
   which is a concrete failing input for the property. *)
From Coq Require Import List Arith.
Import ListNotations.
From Mv Require Import Model.Lru.

Definition lcase := (nat * list (op nat nat) * list (res nat nat))%type.

Definition A (k v : nat) : op nat nat := OAdd k v.
Definition G (k : nat) : op nat nat := OGet nat k.
Definition Rm (k : nat) : op nat nat := ORemove nat k.
Definition Ln : op nat nat := OLen nat nat.

Definition Ra (ev : list (nat * nat)) : res nat nat := RAdd ev.
Definition Rg (v : option nat) : res nat nat := RGet nat v.
Definition Rr (ev : list (nat * nat)) : res nat nat := RRemove ev.
Definition Rl (n : nat) : res nat nat := RLen nat nat n.

Definition lru_verdict (c : lcase) : nat :=
  let '(cap0, ops, rs) := c in
  if results_eqb Nat.eqb Nat.eqb (run Nat.eqb (new_cache nat nat cap0) ops) rs then 0 else 3.

Fixpoint lru_failures (i : nat) (cs : list lcase) : list (nat * nat) :=
  match cs with
  | [] => []
  | c :: t => match lru_verdict c with
              | O => lru_failures (S i) t
              | v => (i, v) :: lru_failures (S i) t
              end
  end.
