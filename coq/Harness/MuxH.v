(* Harness side for C23/C24/C25 (depends on Model/ only), evaluated by
   vm_compute on what goharness/cmd/mux recorded from real multiplexers.

   Case kinds:
   - KKinds l      : the messageKind constants compiled into the package;
   - KCodec bs fs  : bytes a real multiplexer wrote, and the frames the Go
                     decoder saw in them: the model's decoder must agree;
   - KInject ...   : ONE real multiplexer (side SB) fed hand-made frames,
                     interleaved with local calls: the reader's verdict must
                     be [deliver]'s (check-for-check tie of the validation);
   - KTrace t      : TWO real multiplexers under a concurrent workload.
   Verdict bits: 1 model <> implementation, 2 the property's checker fails
   on the implementation's output, 8 malformed case. *)
From Coq Require Import List NArith Bool Arith.
From Coq Require Import Strings.Byte.
From Mv Require Import Model.Mux Model.MuxCodec Model.MuxMon.
Import ListNotations.
Local Open Scope N_scope.

(* bytes are printed as small numbers *)
Definition B (l : list N) : list byte := map nb l.

(* ---- inject cases ---- *)
Inductive iop :=
| IFrame (m : msg)        (* peer frame written to the carrier, reader idle again *)
| IOpen                   (* OpenStream started; its open frame is on the wire *)
| IAccept (n : N)         (* AcceptStream returned stream n (0: it returned none); pending
                             streams the peer had already closed are skipped as stale *)
| IRead (i k : N)         (* Read with a k-byte buffer and a short deadline *)
| IClose (i : N).         (* Stream.Close returned *)

Definition R : side := SB.

Definition acts_after_frame (st : state) (m : msg) : list action :=
  match m with
  | MAccept i _ => [AOpenReturn R i]
  | MClose i =>
    match get i (streams (ep st R)) with
    | Some x => match ph x with
                | POpening _ => [AOpenAbort R i; ACTakeW R i; ACTakeR R i; ACPost R i; ACDereg R i]
                | _ => []
                end
    | None => []
    end
  | _ => []
  end.

(* AcceptStream: pending identifiers are taken in order; one whose stream the
   peer already closed may be skipped as stale (the code's select picks either
   way, the harness reports which stream came back) *)
Fixpoint accept_actions (n : N) (bl : list N) : list action :=
  match bl with
  | [] => []
  | h :: t =>
    if N.eqb h n then [AAcceptPop R; AAcceptSend R h]
    else [AAcceptPop R; AAcceptAbort R h; ACTakeW R h; ACTakeR R h; ACPost R h; ACDereg R h]
         ++ accept_actions n t
  end.

Definition iop_actions (fx : fixes) (st : state) (o : iop) : list action :=
  match o with
  | IFrame m => ADeliver R :: acts_after_frame st m
  | IOpen => [AOpenAlloc R; AOpenSend R (nextOut (ep st R))]
  | IAccept n => accept_actions n (backlog (ep st R))
  | IRead i k => [ARead R i k; ARConsume R i; ARPost R i; AREof R i; AREnd R i]
  | IClose i => [AClose R i; ACTakeW R i; ACTakeR R i; ACPost R i; ACDereg R i]
  end.

(* first protocol error code the model's reader reports (0 = none) *)
Fixpoint inject_run (fx : fixes) (st : state) (ops : list iop) : N :=
  match ops with
  | [] => 0
  | o :: rest =>
    let st1 := match o with
               | IFrame m => set_wire_to st R [m]
               | _ => st
               end in
    match run fx (iop_actions fx st1 o) st1 with
    | ProtocolError _ p => perr_code p
    | Running st2 => inject_run fx st2 rest
    end
  end.

Inductive mcase :=
| KKinds (l : list N)
| KCodec (bytes : list N) (frames : list msg)
| KInject (fx : fixes) (wR : N) (backlogR : nat) (ops : list iop) (impl : N)
| KTrace (t : tcase).

Definition msg_eqb (a b : msg) : bool :=
  match a, b with
  | MOpen i w, MOpen j v | MAccept i w, MAccept j v | MIncr i w, MIncr j v => (i =? j) && (w =? v)
  | MData i d, MData j e => (i =? j) && list_eqN (map bn d) (map bn e)
  | MCloseWrite i, MCloseWrite j | MClose i, MClose j => i =? j
  | MHeartbeat, MHeartbeat => true
  | _, _ => false
  end.
Fixpoint msgs_eqb (a b : list msg) : bool :=
  match a, b with
  | [], [] => true
  | x :: a', y :: b' => msg_eqb x y && msgs_eqb a' b'
  | _, _ => false
  end.

(* bits 1 and 8 common to the three properties *)
Definition base_verdict (c : mcase) : nat :=
  match c with
  | KKinds l => if list_eqN l kind_table then 0 else 1
  | KCodec bs fs =>
    if negb (forallb (fun x => x <=? 255) bs) then 8 else
    match decode_all (S (length bs)) (B bs) with
    | Some ms => if msgs_eqb ms fs && list_eqN (map bn (encode_all fs)) bs then 0 else 1
    | None => 1
    end
  | KInject fx w bl ops impl =>
    let c := {| cW := w; cBacklog := bl |} in
    if inject_run fx (init c c) ops =? impl then 0 else 1
  | KTrace t => if trace_agrees t then 0 else 1
  end.

Definition verdict (chk : tcase -> bool) (c : mcase) : nat :=
  (base_verdict c + match c with
                    | KTrace t => if chk t then 0 else 2
                    | _ => 0
                    end)%nat.

Fixpoint failures (chk : tcase -> bool) (i : nat) (cs : list mcase) : list (nat * nat) :=
  match cs with
  | [] => []
  | c :: t => match verdict chk c with
              | O => failures chk (S i) t
              | v => (i, v) :: failures chk (S i) t
              end
  end.

Definition mux_failures_c23 := failures check_C23.
Definition mux_failures_c24 := failures check_C24.
Definition mux_failures_c25 := failures check_C25.

(* ---- short constructor aliases printed by the Go harness ---- *)
Definition FXu := unfixed.
Definition FXf := all_fixed.
Definition Fx (z o : bool) : fixes := {| fix_zero_incr := z; fix_open_order := o |}.
Definition O_ := MOpen. Definition A_ := MAccept. Definition I_ := MIncr.
Definition D_ (i : N) (d : list N) := MData i (B d).
Definition W_ := MCloseWrite. Definition C_ := MClose. Definition H_ := MHeartbeat.
Definition fo := FOpen. Definition fa := FAccept. Definition fd := FData. Definition fi := FIncr.
Definition fw := FCW. Definition fc := FClose. Definition fh := FHb.
Definition a (f : frame) : side * frame := (SA, f).
Definition b (f : frame) : side * frame := (SB, f).
Definition SS (id : N) (w : side) (wl rl rck wck : N) (small : option (list N * list N))
           (eof pc dr : bool) : ssum :=
  {| ss_id := id; ss_writer := w; ss_wlen := wl; ss_rlen := rl; ss_rck := rck; ss_wck := wck;
     ss_small := small; ss_eof := eof; ss_peer_closed := pc; ss_drained := dr |}.
Definition T (fx : fixes) (wa wb : N) (ex : bool) (fr : list (side * frame)) (ea eb : ierr)
           (ss : list ssum) (calls : list (N * N)) (bl : option (N * N * N * N)) : mcase :=
  KTrace {| t_fx := fx; t_wA := wa; t_wB := wb; t_explicit := ex; t_frames := fr;
            t_errA := ea; t_errB := eb; t_streams := ss; t_calls := calls; t_backlog := bl |}.
