(* Harness for C32, evaluated inside Coq by vm_compute.  Two kinds of cases:
   PT evs   -- a history recorded from the real prompter registry with
               instrumented prompters (API calls/returns and the begin/end of
               every invocation, ordered by a global atomic counter); verdict =
               the monitor's code: 1 = not a history of the model (an
               invocation nobody asked for, success without invocation or an
               error with one), 2 = the property is violated (a prompter
               invoked concurrently with itself, or after its unregistration
               returned), 8 = ill-formed log;
   PE sufs prompt mode -- echoedPromptSuffixes and determineResponseMode(prompt)
               as printed by the real code (through the verif hook); verdict
               1 = the list or the mode differs from the model's, 2 = the mode
               is echo for a prompt without one of the literal suffixes, or not
               echo for one with. *)
From Coq Require Import List Arith Bool.
Import ListNotations.
From Mv Require Import Model.Prompting.

Inductive pcase :=
| PT (evs : list pevent)
| PE (sufs : list (list nat)) (prompt : list nat) (mode : nat).

Definition Cl (t : nat) (o : pop) : pevent := PCall t o.
Definition Rt (t : nat) (o : pop) (r : rres) : pevent := PRet t o r.
Definition Bg (t id : nat) : pevent := PBegin t id.
Definition En (t id : nat) : pevent := PEnd t id.
Definition Rg (id : nat) : pop := ORegister id.
Definition Ur (id : nat) : pop := OUnregister id.
Definition Iv (id : nat) : pop := OInvoke id.
Definition Ok : rres := ROk.
Definition Nf : rres := RNotFound.
Definition Cd : rres := RClosed.

Definition prompting_verdict (c : pcase) : nat :=
  match c with
  | PT evs => check_C32_trace_code evs
  | PE sufs prompt mode =>
      (if lists_eqb sufs echo_suffixes && Nat.eqb mode (determine_mode prompt) then 0 else 1)
      + (if check_C32_echo prompt mode then 0 else 2)
  end.

Fixpoint prompting_failures (i : nat) (cs : list pcase) : list (nat * nat) :=
  match cs with
  | [] => []
  | c :: t => match prompting_verdict c with
              | O => prompting_failures (S i) t
              | v => (i, v) :: prompting_failures (S i) t
              end
  end.
