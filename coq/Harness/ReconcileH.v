(* Correspondence harness for the reconcile family, evaluated by vm_compute.
   A case is (mode, ancestor, alpha, beta, plan returned by core.Reconcile).
   Depends on Model/ only. The per-property failure functions combine
   bit 1 (model plan <> implementation plan, both canonically sorted) with
   bit 2 (the property's checker from Model/ReconcileCheck.v applied to the
   implementation's plan). *)
From Coq Require Import List Bool Arith String.
Import ListNotations.
From Mv Require Import Common.Bytes Model.Entry Model.Reconcile.

Definition rcase := (mode * oentry * oentry * oentry * plan)%type.

Definition mkplan (anc al be : list change) (cs : list conflict) : plan :=
  {| anc_changes := anc; alpha_ch := al; beta_ch := be; conflicts := cs |}.

Definition inputs_wf (c : rcase) : bool :=
  let '(m, anc, a, b, pl) := c in wf true anc && wf false a && wf false b.

Definition corr_bit (c : rcase) : nat :=
  let '(m, anc, a, b, pl) := c in
  if plan_eqb (canon (reconcile m anc a b)) (canon pl) then 0 else 1.

Definition failures_with (check : rcase -> bool) :=
  fix go (i : nat) (cs : list rcase) : list (nat * nat) :=
    match cs with
    | [] => []
    | c :: t =>
      let v := (if inputs_wf c then corr_bit c + (if check c then 0 else 2) else 8) in
      match v with
      | O => go (S i) t
      | _ => (i, v) :: go (S i) t
      end
    end.

(* correspondence only *)
Definition rc_failures := failures_with (fun _ => true).
