(* Correspondence harness for C21, evaluated inside Coq by vm_compute.
   Depends on Model/ only.

   A case is either
     CSeq ro tbl obs : one session. [tbl] is the table of snapshots occurring in
       it (referred to by index and compared BY VALUE here), [obs] the list of
       operations with, for each: what the endpoint used directly returned
       (loc), what the endpoint behind client/server returned (rem) and what
       crossed the wire, decoded by the Go harness from a tap on the pipe.
       [ro] says that the endpoints are read-only (alpha of a one-way session);
     CStageEV / CTransEV / CScanEV : one response handed to the real
       ensureValid, described by the facts ensureValid may depend on.

   Verdict bits:
     1  the model disagrees with the implementation: the baseline the model's
        client would use is not the one whose signature is in the request; the
        flag, the response the model's server would send (compaction, error,
        which signature the delta was computed against, wrapped results) is not
        the one on the wire; the model's client result is not the real
        client's; the model's ensureValid is not the real one;
     2  the endpoint behind the protocol did not return the same outcome as the
        endpoint used directly (check_c21 = false): the property fails on this
        input;
     4  (with 2) every failing operation of the case lies in the known class
        [known_obs] (= Model's known_c21 for the unrepaired code);
     8  the case is not in the model's domain (dangling table index, operation
        after the session ended).

   Instantiation of the model's abstract parts for a session: the bytes of a
   serialised snapshot are represented by the snapshot itself, the signature
   of such bytes by the same snapshot, a delta by the pair (target, the
   signature it was computed against); the Go harness identifies the real
   signature and delta on the wire with table entries by recomputing them with
   the real rsync engine. This instantiation satisfies the hypotheses of the
   theorems (round trips), so the model's run is the one the theorems are
   about. *)
From Coq Require Import List Bool Arith String NArith.
Import ListNotations.
From Mv Require Import Common.Bytes Model.Entry Model.Remote.
Open Scope string_scope.

(* ---------- snapshots by value (all seven fields of core.Snapshot) ----------
   The four counters are carried as canonical decimal numerals (strings): they
   are only compared, and number literals of type N or nat are expensive to
   elaborate. *)
Record snap := mkS {
  s_content : oentry; s_pe : bool; s_du : bool;
  s_dirs : string; s_files : string; s_links : string; s_size : string }.

Definition snap_eqb (a b : snap) : bool :=
  oentry_eqb (s_content a) (s_content b)
  && Bool.eqb (s_pe a) (s_pe b) && Bool.eqb (s_du a) (s_du b)
  && String.eqb (s_dirs a) (s_dirs b) && String.eqb (s_files a) (s_files b)
  && String.eqb (s_links a) (s_links b) && String.eqb (s_size a) (s_size b).

(* Strings: the Go harness replaces every string of three or more characters
   and every string that is not printable ASCII (names, paths, digests,
   serialised signatures, file contents, messages) -- injectively within a
   case -- by a three-character token; this file only ever compares the
   strings of a case with each other and with the empty string. *)

Definition zero_snap : snap := mkS None false false "0" "0" "0" "0".

(* ---------- the symbolic instantiation ---------- *)
Definition hdelta := option (snap * snap).          (* None = no operations *)
Definition h_marshal (s : snap) : option snap := Some s.
Definition h_unmarshal (b : snap) : option snap := Some b.
Definition h_sig (b : snap) : snap := b.
Definition h_deltify (target sg : snap) : hdelta := Some (target, sg).
Definition h_patch (base sg : snap) (d : hdelta) : option snap :=
  match d with
  | None => Some zero_snap      (* no operations reconstruct no bytes *)
  | Some (t, sg') => if snap_eqb sg sg' then Some t else None
  end.
Definition h_of_ancestor (a : oentry) : snap := mkS a true false "0" "0" "0" "0".
Definition h_content_nil (s : snap) : bool :=
  match s_content s with None => true | Some _ => false end.
Definition h_snap_valid (s : snap) : bool := wf false (s_content s).
Definition h_delta_valid (d : hdelta) : bool := true.
Definition h_delta_empty (d : hdelta) : bool := match d with None => true | Some _ => false end.

Definition hproblem := (string * string)%type.      (* path, error *)
Definition hres := res snap string string oentry hproblem.

Definition h_fsig_valid (s : string) : bool := negb (String.eqb s "<nil>").
Definition h_result_valid (r : oentry) : bool := wf true r.
Definition h_problem_valid (p : hproblem) : bool := nonempty (snd p).
Definition problem_eqb (a b : hproblem) : bool :=
  String.eqb (fst a) (fst b) && String.eqb (snd a) (snd b).

(* The order in which a local endpoint reports the problems of one transition
   is not deterministic (Go map iteration in core.Transition; the controller
   sorts them): problem lists are compared as sorted lists. *)
Definition problem_leb (a b : hproblem) : bool :=
  match String.compare (fst a) (fst b) with
  | Lt => true
  | Gt => false
  | Eq => negb (String.ltb (snd b) (snd a))
  end.
Fixpoint insert_problem (p : hproblem) (l : list hproblem) : list hproblem :=
  match l with
  | [] => [p]
  | q :: t => if problem_leb p q then p :: l else q :: insert_problem p t
  end.
Definition sort_problems (l : list hproblem) : list hproblem := fold_right insert_problem [] l.

Definition canon (r : hres) : hres :=
  match r with
  | ResTrans (Remote.TOk rs ps m) => ResTrans (Remote.TOk rs (sort_problems ps) m)
  | _ => r
  end.

Definition h_same (loc rem : hres) : bool :=
  same_outcome snap_eqb String.eqb String.eqb oentry_eqb problem_eqb (canon loc) (canon rem).

(* ---------- observations ---------- *)
Inductive scan_out := SOk (i : nat) | SErr (e : cerr) (try_again : bool).
Inductive wire_scan :=
| WDelta (target against : option nat)   (* table indices, None = not identified *)
| WErr (msg : string) (try_again : bool).
Inductive stage_out := GOk' (paths sigs : list string) | GErr' (e : cerr).
Inductive trans_out :=
| TOk' (results : list oentry) (problems : list hproblem) (missing : bool)
| TErr' (e : cerr).
Notation GOk := GOk'. Notation GErr := GErr'. Notation TOk := TOk'. Notation TErr := TErr'.

Definition supply_out := (list (string * string) * bool)%type.

Inductive obs :=
| OScan (anc : nat) (full : bool) (loc rem : scan_out)
        (w_base : option nat) (w_full : bool) (w_resp : wire_scan)
| OStage (paths digests : list string) (loc rem : stage_out)
         (w_resp : option (list string * list string * string))
| OTrans (n : nat) (loc rem : trans_out)
         (w_resp : option (list oentry * list hproblem * bool * string))
| OSupply (loc rem : supply_out).

Inductive rcase :=
| CSeq (read_only : bool) (tbl : list snap) (os : list obs)
| CStageEV (nreq npaths : nat) (sigs_valid : list bool) (err : bool) (accepted : bool)
| CTransEV (expected : nat) (results_valid problems_valid : list bool) (accepted : bool)
| CScanEV (ops_valid : list bool) (err : bool) (accepted : bool).

(* ---------- errors ----------
   The Go harness prints the error of the directly used endpoint as
   [ELocal message] and classifies the text of a client error into the model's
   constructors by its fixed prefix ("remote error: " ++ m is [ERemote m]). *)
Definition cerr_eqb (a b : cerr) : bool :=
  match a, b with
  | ERemote m, ERemote m' | ELocal m, ELocal m' => String.eqb m m'
  | EMarshalAncestor, EMarshalAncestor | EInvalidResponse, EInvalidResponse
  | EPatch, EPatch | EUnmarshal, EUnmarshal | EInvalidSnapshot, EInvalidSnapshot
  | ETransport, ETransport => true
  | _, _ => false
  end.

(* the message of an endpoint's own error *)
Definition msg_of (e : cerr) : string :=
  match e with ELocal m | ERemote m => m | _ => "?" end.

(* ---------- one session ---------- *)
Record acc := {
  a_last : option snap;     (* the model client's lastSnapshotBytes *)
  a_alive : bool;           (* the model server's loop still runs   *)
  a_corr : bool;            (* no bit 1 so far *)
  a_prop : bool;            (* no bit 2 so far *)
  a_unknown : bool;         (* a property failure outside the known class *)
  a_wf : bool }.            (* no bit 8 so far *)

Definition upd (a : acc) (last : option snap) (alive corr prop known wf_ : bool) : acc :=
  {| a_last := last; a_alive := alive; a_corr := a_corr a && corr;
     a_prop := a_prop a && prop;
     a_unknown := a_unknown a || (negb prop && negb known);
     a_wf := a_wf a && wf_ |}.

Definition opt_snap_is (tbl : list snap) (i : option nat) (s : snap) : bool :=
  match i with
  | Some k => match nth_error tbl k with Some x => snap_eqb x s | None => false end
  | None => false
  end.

Fixpoint strs_eqb (x y : list string) : bool :=
  match x, y with
  | [], [] => true
  | a :: x', b :: y' => String.eqb a b && strs_eqb x' y'
  | _, _ => false
  end.
Fixpoint oentries_eqb (x y : list oentry) : bool :=
  match x, y with
  | [], [] => true
  | a :: x', b :: y' => oentry_eqb a b && oentries_eqb x' y'
  | _, _ => false
  end.
Fixpoint problems_eqb (x y : list hproblem) : bool :=
  match x, y with
  | [], [] => true
  | a :: x', b :: y' => problem_eqb a b && problems_eqb x' y'
  | _, _ => false
  end.

(* the known-finding class: Stage with no paths and no digests on a read-only
   endpoint (the local endpoint refuses, the client answers "nothing to
   stage" without asking the server) *)
Definition known_obs (ro : bool) (o : obs) : bool :=
  match o with
  | OStage [] [] _ _ _ => ro
  | _ => false
  end.

Definition scan_res_of (tbl : list snap) (o : scan_out) : option hres :=
  match o with
  | SOk i => match nth_error tbl i with Some s => Some (ResScan (ROk s)) | None => None end
  | SErr e t => Some (ResScan (RErr e t))
  end.

Definition step (ro : bool) (tbl : list snap) (a : acc) (o : obs) : acc :=
  match o with
  | OScan anc full loc rem w_base w_full w_resp =>
    match nth_error tbl anc, scan_res_of tbl loc, scan_res_of tbl rem with
    | Some anc_snap, Some rl, Some rr =>
      (* the endpoint's answer is what the directly used endpoint returned *)
      let answer : scan_answer snap :=
          match loc with
          | SOk i => SAOk (nth i tbl zero_snap)
          | SErr e t => SAErr (msg_of e) t
          end in
      let prop := h_same rl rr in
      match client_baseline h_marshal h_of_ancestor (a_last a) (s_content anc_snap) with
      | None => upd a (a_last a) (a_alive a) false prop false true
      | Some base =>
        let rq := client_scan_request h_sig base full in
        let rs := server_scan h_marshal h_deltify None (fun _ => answer) rq in
        let '(last', mr) := client_scan_finish h_unmarshal h_sig h_patch h_content_nil
                                               h_snap_valid h_delta_valid h_delta_empty
                                               (a_last a) base rs in
        let c_base := opt_snap_is tbl w_base base in
        let c_full := Bool.eqb w_full (rq_full rq) in
        let c_resp :=
            match w_resp, rs_delta rs with
            | WErr m t, None => String.eqb m (rs_error rs) && Bool.eqb t (rs_try rs) && nonempty m
            | WDelta t ag, Some (mt, mag) =>
              negb (nonempty (rs_error rs)) && opt_snap_is tbl t mt && opt_snap_is tbl ag mag
            | _, _ => false
            end in
        let c_res :=
            match mr, rem with
            | ROk s, SOk i => opt_snap_is tbl (Some i) s
            | RErr e t, SErr e' t' => cerr_eqb e e' && Bool.eqb t t'
            | _, _ => false
            end in
        upd a last' (a_alive a) (c_base && c_full && c_resp && c_res) prop false (a_alive a)
      end
    | _, _, _ => upd a (a_last a) (a_alive a) true true false false
    end
  | OStage paths digests loc rem w_resp =>
    let answer : stage_answer string string :=
        match loc with GOk ps ss => GAOk ps ss | GErr e => GAErr (msg_of e) end in
    let rl : hres := ResStage (lift_stage answer) in
    let rr : hres := ResStage (match rem with GOk ps ss => Remote.GOk ps ss
                                         | GErr e => Remote.GErr e end) in
    let prop := h_same rl rr in
    let known := known_obs ro o in
    let res_matches (mr : stage_result string string) :=
        match mr, rem with
        | Remote.GOk ps ss, GOk ps' ss' => strs_eqb ps ps' && strs_eqb ss ss'
        | Remote.GErr e, GErr e' => cerr_eqb e e'
        | _, _ => false
        end in
    match client_stage_precheck (fsig := string) paths digests with
    | Some mr =>
      let c := res_matches mr && match w_resp with None => true | Some _ => false end in
      upd a (a_last a) (a_alive a) c prop known true
    | None =>
      let '(rs, alive') := server_stage paths answer in
      let c_resp :=
          match w_resp with
          | Some (wp, ws, we) =>
            strs_eqb wp (sg_paths rs) && strs_eqb ws (sg_sigs rs) && String.eqb we (sg_error rs)
          | None => false
          end in
      let mr := client_stage_finish h_fsig_valid paths rs in
      upd a (a_last a) alive' (c_resp && res_matches mr) prop known
          (a_alive a && stage_request_valid paths digests)
    end
  | OTrans n loc rem w_resp =>
    let answer : trans_answer oentry hproblem :=
        match loc with TOk rs ps m => TAOk rs ps m | TErr e => TAErr (msg_of e) end in
    let rl : hres := ResTrans (lift_trans answer) in
    let rr : hres := ResTrans (match rem with TOk rs ps m => Remote.TOk rs ps m
                                         | TErr e => Remote.TErr e end) in
    let prop := h_same rl rr in
    let tr := server_transition answer in
    let c_resp :=
        match w_resp with
        | Some (wr, wp, wm, we) =>
          oentries_eqb wr (map ar_content (tr_results tr))
          && problems_eqb (sort_problems wp) (sort_problems (tr_problems tr))
          && Bool.eqb wm (tr_missing tr) && String.eqb we (tr_error tr)
          (* the client hands on the problems in the order they had on the wire *)
          && match rem with TOk _ ps' _ => problems_eqb wp ps' | TErr _ => true end
        | None => false
        end in
    let mr := client_transition_finish h_result_valid h_problem_valid n tr in
    let c_res :=
        match mr, rem with
        | Remote.TOk rs ps m, TOk rs' ps' m' =>
          oentries_eqb rs rs' && problems_eqb (sort_problems ps) (sort_problems ps')
          && Bool.eqb m m'
        | Remote.TErr e, TErr e' => cerr_eqb e e'
        | _, _ => false
        end in
    upd a (a_last a) (a_alive a) (c_resp && c_res) prop false (a_alive a)
  | OSupply (fl, el) (fr, er) =>
    let files_eqb :=
        (fix go (x y : list (string * string)) : bool :=
           match x, y with
           | [], [] => true
           | (p, c) :: x', (q, d) :: y' => String.eqb p q && String.eqb c d && go x' y'
           | _, _ => false
           end) in
    upd a (a_last a) (a_alive a) true (files_eqb fl fr && Bool.eqb el er) false (a_alive a)
  end.

Definition verdict_of (a : acc) : nat :=
  (if a_corr a then 0 else 1)
  + (if a_prop a then 0 else 2)
  + (if negb (a_prop a) && negb (a_unknown a) then 4 else 0)
  + (if a_wf a then 0 else 8).

Definition remote_verdict (c : rcase) : nat :=
  match c with
  | CSeq ro tbl os =>
    verdict_of (fold_left (step ro tbl) os
                          {| a_last := None; a_alive := true; a_corr := true; a_prop := true;
                             a_unknown := false; a_wf := true |})
  | CStageEV nreq np sv err accepted =>
    let r : stage_response unit bool :=
        {| sg_paths := repeat tt np; sg_sigs := sv; sg_error := if err then "e" else "" |} in
    if Bool.eqb (stage_response_valid (fun b => b) nreq r) accepted then 0 else 1
  | CTransEV expected rv pv accepted =>
    let r : trans_response bool bool :=
        {| tr_results := map (fun b => {| ar_content := b |}) rv; tr_problems := pv;
           tr_missing := false; tr_error := "" |} in
    if Bool.eqb (trans_response_valid (fun b => b) (fun b => b) expected r) accepted then 0 else 1
  | CScanEV ov err accepted =>
    let r : scan_response (list bool) :=
        {| rs_delta := ov; rs_error := if err then "e" else ""; rs_try := false |} in
    if Bool.eqb (scan_response_valid (forallb (fun b => b))
                                     (fun d => match d with [] => true | _ => false end) r) accepted
    then 0 else 1
  end.

Fixpoint remote_failures (i : nat) (cs : list rcase) : list (nat * nat) :=
  match cs with
  | [] => []
  | c :: t => match remote_verdict c with
              | O => remote_failures (S i) t
              | v => (i, v) :: remote_failures (S i) t
              end
  end.
