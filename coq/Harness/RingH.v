(* Correspondence harness for C26, evaluated inside Coq by vm_compute.
   A case is (capacity, operations, results observed on the Go buffer).
   Verdict per case: 0 = agrees with the concrete model and passes the FIFO
   checker; +1 = concrete model disagrees with the implementation;
   +2 = the implementation's results fail the bounded-FIFO specification. *)
From Coq Require Import List Arith.
Import ListNotations.
From Mv Require Import Model.Ring.

Definition rcase := (nat * list (op nat) * list (res nat))%type.

(* monomorphic aliases printed by the Go harness *)
Definition W (d : list nat) : op nat := OWrite d.
Definition WB (x : nat) : op nat := OWriteByte x.
Definition R (n : nat) : op nat := ORead nat n.
Definition RB : op nat := OReadByte nat.
Definition RS : op nat := OReset nat.
Definition RN (src : list nat) (s : list (nat * err)) (n : nat) : op nat := OReadNFrom src s n.
Definition WT (s : list (nat * err)) : op nat := OWriteTo nat s.
Definition ST : op nat := OStat nat.

Definition Rc (n : nat) (e : err) : res nat := RCount nat n e.
Definition Re (e : err) : res nat := RErr nat e.
Definition Rd (d : list nat) (e : err) : res nat := RData d e.
Definition Rb (x : option nat) (e : err) : res nat := RByte x e.
Definition Ru : res nat := RUnit nat.
Definition Rn (n : nat) (e : err) (c : list nat) (l : list (nat * nat * err)) : res nat := RReadN n e c l.
Definition Rw (n : nat) (e : err) (s : list nat) (l : list (nat * nat * err)) : res nat := RWriteTo n e s l.
Definition Rs (a b c : nat) : res nat := RStat nat a b c.

Definition ring_verdict (c : rcase) : nat :=
  let '(cap0, ops, rs) := c in
  (if results_eqb Nat.eqb (run (new_buffer 0 cap0) ops) rs then 0 else 1)
  + (if spec_check_all Nat.eqb {| cap := cap0; q := [] |} ops rs then 0 else 2).

Fixpoint ring_failures (i : nat) (cs : list rcase) : list (nat * nat) :=
  match cs with
  | [] => []
  | c :: t => match ring_verdict c with
              | O => ring_failures (S i) t
              | v => (i, v) :: ring_failures (S i) t
              end
  end.
