(* Correspondence harness for C19 and C20 (rsync engine), evaluated inside Coq
   by vm_compute.  Depends on Model/Rsync.v only.

   The strong hash is instantiated with the identity on the block bytes: it has
   no collisions, so the model takes exactly the match decisions the Go engine
   takes with SHA-1 unless SHA-1 collides on the blocks/windows of a case.

   Verdict bits: 1 = the model disagrees with the implementation
   (operation lists / call logs / signature summary / patched bytes),
   2 = the implementation's output fails the property checker,
   8 = the harness fed a case outside the model's domain (block size 0). *)
From Coq Require Import List Arith ZArith Bool.
From Coq Require Import Init.Byte.
From Coq Require Strings.Byte.
From Coq Require Import Strings.String.
Import ListNotations.
From Mv Require Import Model.Rsync.

Definition Hid (x : list byte) : list byte := x.
Definition sv_true (_ : list byte) : bool := true.

Definition hsig := sig (list byte).
Definition hsignature (base : list byte) (blk : nat) : option hsig := signature Hid base blk.

(* ---- short monomorphic constructor aliases printed by the Go harness ----
   Byte strings made of printable ASCII are printed as Coq string literals
   (parsed by the primitive string notation, far cheaper to elaborate than a
   list of constructors); anything else as a list [x00; xff; ...]. *)
Definition sb (s : string) : list byte := list_byte_of_string s.
Definition Dt (s : string) : op := mkop (sb s) 0 0.              (* data operation *)
Definition Dl (d : list byte) : op := mkop d 0 0.                (* data operation, raw bytes *)
Definition Bk (s c : nat) : op := mkop [] s c.                   (* block operation *)
Definition Op (d : list byte) (s c : nat) : op := mkop d s c.    (* anything else *)
Definition Ps (s : string) : option (list byte) := Some (sb s).  (* patched bytes *)
Definition Pl (d : list byte) : option (list byte) := Some d.
Definition PN : option (list byte) := None.

(* ================================================================== *)
(* C19                                                                *)

(* what the Go harness saw of engine.BytesSignature: BlockSize, LastBlockSize,
   the weak hashes, and whether EnsureValid() returned nil *)
Definition sigsum := (nat * nat * list Z * bool)%type.
(* one DeltifyBytes/PatchBytes run: maxDataOpSize, operations, patched bytes (None = error) *)
Definition c19run := (nat * list op * option (list byte))%type.
(* base, target, block size, signature summary, runs *)
Definition c19case := (list byte * list byte * nat * sigsum * list c19run)%type.

Definition SS (b l : nat) (ws : list Z) (valid : bool) : sigsum := (b, l, ws, valid).
Definition Rn (m : nat) (ops : list op) (p : option (list byte)) : c19run := (m, ops, p).
Definition Cs (base target : string) (blk : nat) (ss : sigsum) (runs : list c19run) : c19case :=
  (sb base, sb target, blk, ss, runs).
Definition Cl (base target : list byte) (blk : nat) (ss : sigsum) (runs : list c19run) : c19case :=
  (base, target, blk, ss, runs).

Fixpoint zlist_eqb (x y : list Z) : bool :=
  match x, y with
  | [], [] => true
  | a :: x', b :: y' => (a =? b)%Z && zlist_eqb x' y'
  | _, _ => false
  end.

Definition sigsum_matches (s : hsig) (ss : sigsum) : bool :=
  let '(b, l, ws, _) := ss in
  (sblk s =? b) && (slast s =? l) && zlist_eqb (map (@bweak _) (shashes s)) ws.

Definition c19_run_verdict (base target : list byte) (blk : nat) (s : hsig) (r : c19run) : nat :=
  let '(maxop, ops, patched) := r in
  let corr :=
    match deltify Hid list_eqb target s maxop with
    | Some mops => ops_eqb mops ops
    | None => false
    end
    && olist_eqb (patch base s ops) patched in
  let prop := check_C19 Hid sv_true base target blk maxop ops
              && olist_eqb patched (Some target) in
  (if corr then 0 else 1) + (if prop then 0 else 2).

Definition nat_lor (a b : nat) : nat := N.to_nat (N.lor (N.of_nat a) (N.of_nat b)).

Definition c19_verdict (c : c19case) : nat :=
  let '(base, target, blk, ss, runs) := c in
  if blk =? 0 then 8 else
  match hsignature base blk with
  | None => 1
  | Some s =>
    let v0 := (if sigsum_matches s ss then 0 else 1)
              + (if snd ss then 0 else 2) in
    fold_left (fun acc r => nat_lor acc (c19_run_verdict base target blk s r)) runs v0
  end.

Fixpoint c19_failures (i : nat) (cs : list c19case) : list (nat * nat) :=
  match cs with
  | [] => []
  | c :: t => match c19_verdict c with
              | O => c19_failures (S i) t
              | v => (i, v) :: c19_failures (S i) t
              end
  end.

(* ================================================================== *)
(* C20                                                                *)

(* fault patterns of the transmitter / receiver *)
Inductive fpat := FN | FO (k : nat) | FF (k : nat).   (* never / call k once / every call >= k *)

Definition oracle (p : fpat) : nat -> bool :=
  match p with
  | FN => fun _ => true
  | FO k => fun i => negb (i =? k)
  | FF k => fun i => i <? k
  end.

Definition TO (size : nat) (o : op) : tmsg := TOp size o.
Definition TD (e : bool) : tmsg := TDone e.

Inductive c20case :=
(* Engine.Deltify: base, target, block size, maxDataOpSize, pattern,
   returned-an-error, transmitter call log *)
| CD (base target : list byte) (blk maxop : nat) (p : fpat) (err : bool) (log : tlog)
(* rsync.Transmit: files (base, target or None = cannot be opened, block size),
   pattern on receiver.Receive, returned-an-error, receiver call log,
   what the real receiver staged per file (None = nothing staged) *)
| CT (files : list (list byte * option (list byte) * nat)) (p : fpat) (err : bool)
     (rl : list (tmsg * bool)) (staged : list (option (list byte))).

(* string forms *)
Definition CDs (base target : string) := CD (sb base) (sb target).
Definition Lg (o : op) (ok : bool) : op * bool := (o, ok).
Definition Rg (m : tmsg) (ok : bool) : tmsg * bool := (m, ok).
Definition Fl (base : list byte) (tgt : option (list byte)) (blk : nat)
  : list byte * option (list byte) * nat := (base, tgt, blk).
Definition Fs (base : string) (tgt : option (list byte)) (blk : nat)
  : list byte * option (list byte) * nat := (sb base, tgt, blk).

Fixpoint log_eqb (x y : tlog) : bool :=
  match x, y with
  | [], [] => true
  | (a, oa) :: x', (b, ob) :: y' => op_eqb a b && Bool.eqb oa ob && log_eqb x' y'
  | _, _ => false
  end.

Definition tmsg_eqb (a b : tmsg) : bool :=
  match a, b with
  | TOp sa oa, TOp sb ob => (sa =? sb) && op_eqb oa ob
  | TDone ea, TDone eb => Bool.eqb ea eb
  | _, _ => false
  end.

Fixpoint rlog_eqb (x y : list (tmsg * bool)) : bool :=
  match x, y with
  | [], [] => true
  | (a, oa) :: x', (b, ob) :: y' => tmsg_eqb a b && Bool.eqb oa ob && rlog_eqb x' y'
  | _, _ => false
  end.

Definition is_terr (r : tres) : bool := match r with TOk => false | _ => true end.

(* model files from harness files; None when a signature runs out of fuel *)
Fixpoint mk_tfiles (fs : list (list byte * option (list byte) * nat)) : option (list (tfile (list byte))) :=
  match fs with
  | [] => Some []
  | (base, tgt, blk) :: rest =>
    match hsignature base blk, mk_tfiles rest with
    | Some s, Some r => Some ((tgt, s) :: r)
    | _, _ => None
    end
  end.

(* the staged content must be the target for every file whose stream ended
   without an error flag (what the REAL receiver wrote, not only the model's patch) *)
Fixpoint staged_ok (fs : list (list byte * option (list byte) * nat))
         (got : list (list op * bool)) (staged : list (option (list byte))) : bool :=
  match fs, got, staged with
  | [], [], [] => true
  | (_, tgt, _) :: fr, (_, e) :: gr, st :: sr =>
    (if e then true else olist_eqb st tgt) && staged_ok fr gr sr
  | _, _, _ => false
  end.

Definition blk_zero (fs : list (list byte * option (list byte) * nat)) : bool :=
  existsb (fun f => snd f =? 0) fs.

Definition c20_verdict (fixed : bool) (c : c20case) : nat :=
  match c with
  | CD base target blk maxop p err log =>
    if blk =? 0 then 8 else
    match hsignature base blk with
    | None => 1
    | Some s =>
      let '(r, t) := deltify_tx Hid list_eqb fixed (oracle p) target s maxop in
      let corr := Bool.eqb (negb (dres_eqb r DOk)) err && log_eqb t log
                  && match r with DOk | DErr => true | _ => false end in
      let prop := check_C20 Hid base target blk err log in
      (if corr then 0 else 1) + (if prop then 0 else 2)
    end
  | CT files p err rl staged =>
    if blk_zero files then 8 else
    match mk_tfiles files with
    | None => 1
    | Some tfs =>
      let '(r, res) := transmit_files Hid list_eqb fixed (oracle p) tfs in
      let corr := Bool.eqb (is_terr res) err && rlog_eqb r rl in
      let prop := check_C20_transmit Hid files err rl
                  && (if err then true
                      else staged_ok files (split_files (delivered rl) []) staged) in
      (if corr then 0 else 1) + (if prop then 0 else 2)
    end
  end.

Fixpoint c20_failures_gen (fixed : bool) (i : nat) (cs : list c20case) : list (nat * nat) :=
  match cs with
  | [] => []
  | c :: t => match c20_verdict fixed c with
              | O => c20_failures_gen fixed (S i) t
              | v => (i, v) :: c20_failures_gen fixed (S i) t
              end
  end.

(* the model variant that matches the tree: chosen by the harness flag -fixed *)
Definition c20_failures_unfixed := c20_failures_gen false.
Definition c20_failures_fixed := c20_failures_gen true.
