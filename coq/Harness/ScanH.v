(* Correspondence harness for core.Scan (C12, C13), evaluated by vm_compute.
   Depends on Model/ only.

   C12 case: a walked real tree (Model/Fs.v node, None = no root), the digest
   table content -> digest the harness computed, the ignorer's answers as a
   table, and for each configuration the result of the real core.Scan.
   C13 case: a configuration, the tables, the initial tree with the result of
   the real fresh scan, and a list of steps (edited tree, recheck paths,
   result of core.Scan with baseline+recheck+caches of the previous result,
   result of a fresh core.Scan).

   Verdict bits: 1 model <> implementation, 2 the property checker rejects the
   implementation's output, 8 the walked tree is outside the model's
   well-formedness domain. *)
From Coq Require Import List Bool Arith String NArith.
Import ListNotations.
From Mv Require Import Common.Bytes Model.Entry Model.Fs Model.Scan Model.ScanSpec.

(* ---------- short constructors for the case files ---------- *)
Definition M (mode size mtime fid dev : N) : meta :=
  {| m_mode := mode; m_size := size; m_mtime := mtime; m_fid := fid; m_dev := dev |}.
Arguments M (_ _ _ _ _)%N.
Definition D := NDir.
Definition F := NFile.
Definition L := NLink.
Definition X (m : meta) (ty : N) := NOther m ty.
Arguments X _ _%N.
Definition CE (mode mtime size fid : N) (digest : string) : centry :=
  {| ce_mode := mode; ce_mtime := mtime; ce_size := size; ce_fid := fid; ce_digest := digest |}.
Arguments CE (_ _ _ _)%N _.
Definition CFG (s : symmode) (p : permmode) (pres dec fix16 : bool) : config :=
  {| c_sym := s; c_perm := p; c_preserves := pres; c_decomposes := dec; c_fix16 := fix16 |}.
Definition SN (content : oentry) (pres dec : bool) (dirs files links bytes : N) : snapshot :=
  {| s_content := content; s_preserves := pres; s_decomposes := dec;
     s_cnt := {| n_dirs := dirs; n_files := files; n_links := links; n_bytes := bytes |} |}.
Arguments SN _ _ _ (_ _ _ _)%N.
Definition IN := INominal.
Definition II := IIgnored.
Definition IU := IUnignored.

(* the implementation's result: caches as the maps they are *)
Inductive iout := IErr | IOk (s : snapshot) (c : list (path * centry)) (ic : icache).

Definition to_out (o : iout) : scan_out :=
  match o with
  | IErr => SErr
  | IOk s c ic => SOk s (ct_of_list c) ic
  end.

(* ---------- the outside world from tables ---------- *)
Fixpoint slookup (k : string) (t : list (string * string)) : option string :=
  match t with
  | [] => None
  | (a, b) :: r => if String.eqb k a then Some b else slookup k r
  end.

Definition table_H (t : list (string * string)) : string -> string :=
  fun d => match slookup d t with Some x => x | None => "" end.

Definition table_ign (t : icache) : path -> bool -> ival :=
  fun p d => match ic_lookup p d t with Some v => v | None => (INominal, false) end.

Definition nofaults : path -> fop -> outcome := fun _ _ => Ok.

(* ---------- comparison of results ---------- *)
Definition out_eqb (a b : scan_out) : bool :=
  match a, b with
  | SErr, SErr => true
  | SOk sa ca ia, SOk sb cb ib =>
    snapshot_eqb sa sb && cache_eqb ca cb && ic_subset ia ib && ic_subset ib ia
  | _, _ => false
  end.

Definition root_wf (r : option node) : bool :=
  match r with None => true | Some x => scan_wf x end.

(* ---------- C12 ---------- *)
Definition c12case :=
  (option node * list (string * string) * icache * list (config * iout))%type.

Definition c12_verdict (c : c12case) : nat :=
  let '(root, ht, it, runs) := c in
  if negb (root_wf root) then 8 else
  let H := table_H ht in
  let ign := table_ign it in
  let b1 := existsb (fun r => negb (out_eqb (scan_full H ign nofaults (fst r) root) (to_out (snd r)))) runs in
  let b2 := existsb (fun r => match snd r with
                              | IOk s _ _ => negb (check_C12 H ign nofaults (fst r) root s)
                              | IErr => false
                              end) runs in
  (if b1 then 1 else 0) + (if b2 then 2 else 0).

Fixpoint c12_failures (i : nat) (cs : list c12case) : list (nat * nat) :=
  match cs with
  | [] => []
  | c :: t => match c12_verdict c with
              | O => c12_failures (S i) t
              | v => (i, v) :: c12_failures (S i) t
              end
  end.

(* ---------- C13 ---------- *)
Definition c13step := (option node * list path * iout * iout)%type.
Definition c13case :=
  (config * list (string * string) * icache * option node * iout * list c13step)%type.

(* returns (bit1, bit2, ill-formed) accumulated over the steps *)
Fixpoint c13_steps (H : string -> string) (ign : path -> bool -> ival) (cfg : config)
         (prev : iout) (steps : list c13step) : bool * bool * bool :=
  match steps with
  | [] => (false, false, false)
  | (root, recheck, acc, full) :: rest =>
    if negb (root_wf root) then (false, false, true) else
    let m_full := scan_full H ign nofaults cfg root in
    let m_acc :=
      match prev with
      | IOk s c ic => scan_accel H ign nofaults cfg s recheck (ct_of_list c) ic root
      | IErr => m_full
      end in
    let b1 := negb (out_eqb m_full (to_out full)) || negb (out_eqb m_acc (to_out acc)) in
    let b2 := negb (check_C13 (to_out acc) (to_out full)) in
    let '(r1, r2, r8) := match acc with
                         | IOk _ _ _ => c13_steps H ign cfg acc rest
                         | IErr => (false, false, false)
                         end in
    (b1 || r1, b2 || r2, r8)
  end.

Definition c13_verdict (c : c13case) : nat :=
  let '(cfg, ht, it, root0, impl0, steps) := c in
  if negb (root_wf root0) then 8 else
  let H := table_H ht in
  let ign := table_ign it in
  let b0 := negb (out_eqb (scan_full H ign nofaults cfg root0) (to_out impl0)) in
  let '(b1, b2, b8) := c13_steps H ign cfg impl0 steps in
  if b8 then 8 else
  (if b0 || b1 then 1 else 0) + (if b2 then 2 else 0).

Fixpoint c13_failures (i : nat) (cs : list c13case) : list (nat * nat) :=
  match cs with
  | [] => []
  | c :: t => match c13_verdict c with
              | O => c13_failures (S i) t
              | v => (i, v) :: c13_failures (S i) t
              end
  end.
