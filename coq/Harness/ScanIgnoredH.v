(* Harness for the C03 scan premise (goharness/cmd/ignoredocker -prop C03 and
   goharness/cmd/ignoremutagen -prop C03), evaluated by vm_compute. Depends on
   Model/ only. A case is a real tree, the table of the REAL ignorer's answers
   for every path of the tree, and the snapshot core.Scan returned. Bits:
     1  the walk model, driven by that table, disagrees with the snapshot;
     2  the snapshot holds a File, Directory or SymbolicLink at a path whose
        effective verdict is "ignored" ([check_c03_scan]), or the ignorer
        requested traversal continuation for a non-directory;
     8  ill-formed tree (harness bug). *)
From Coq Require Import List Bool Arith String Ascii.
Import ListNotations.
From Mv Require Import Common.Bytes Model.Entry Model.IgnoreScan Model.ScanIgnored.
Open Scope list_scope.

Inductive c3case :=
| CScan3 (tree : fnode) (table : list verdict_row) (snap : oentry).
Definition S3 := CScan3.

Definition c3verdict (c : c3case) : nat :=
  match c with
  | CScan3 tree table snap =>
    if negb (wf_fnode tree) then 8 else
    match snap with
    | None => 1
    | Some s =>
      let ign := table_ignorer table in
      (if entry_eqb (snapshot ign tree) s then 0 else 1)
      + (if check_c03_scan ign s && table_cont_only_dirs table then 0 else 2)
    end
  end.

Fixpoint c03scan_failures (i : nat) (cs : list c3case) : list (nat * nat) :=
  match cs with
  | [] => []
  | c :: t => match c3verdict c with
              | O => c03scan_failures (S i) t
              | v => (i, v) :: c03scan_failures (S i) t
              end
  end.
