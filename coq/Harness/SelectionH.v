(* Correspondence harness for C40, evaluated inside Coq by vm_compute.
   Verdict bits: 1 = model output differs from the implementation's (for
   CMatch cases: the real label selector disagrees with the modelled
   semantics of the selector grammar);
   2 = the implementation's output fails [check_c40];
   8 = input outside the domain (invalid path in a list to be sorted,
       duplicate session identifiers or label keys). *)
From Coq Require Import List Bool Arith String NArith.
Import ListNotations.
From Mv Require Import Common.Bytes Model.Entry Model.Selection.
Open Scope string_scope.

(* short constructors printed by the Go harness *)
Definition S4 (id name : string) (labels : list (string * string)) (t : N) : session :=
  {| sid := id; sname := name; slabels := labels; sctime := t |}.
Definition I (p : string) (tag : nat) : item := (p, tag).

Definition selection_verdict (c : scase) : nat :=
  (if model_agrees_c40 c then 0 else 1)
  + (if check_c40 c then 0 else 2)
  + (if in_domain_c40 c then 0 else 8).

Fixpoint selection_failures (i : nat) (cs : list scase) : list (nat * nat) :=
  match cs with
  | [] => []
  | c :: t => match selection_verdict c with
              | O => selection_failures (S i) t
              | v => (i, v) :: selection_failures (S i) t
              end
  end.
