(* Correspondence harness for C10, evaluated inside Coq by vm_compute.
   A case is (hash table, maximum staging file size, initial root files,
   history): the history is what the Go harness did to a real local endpoint
   (external edits, Stage, every transmission fed to the real rsync receiver,
   its finalization, Transition) with what came back, and the regular files of
   the root re-read independently before and after the Transition.
   The hash function is the finite table of (content, digest) pairs the Go
   harness computed with crypto/sha1 for every content it wrote or found
   (digests renamed injectively to short identifiers); unknown contents hash
   to "?" ++ content.
   Verdict bits: 1 = Model/Staging.v disagrees with the implementation;
   2 = check_C10 rejects the root the implementation left (a concrete failing
   input); 8 = ill-formed case. Depends on Model/ only. *)
From Coq Require Import List Bool Arith NArith String.
Import ListNotations.
From Mv Require Import Common.Bytes Model.Staging.
Local Open Scope string_scope.
Local Open Scope list_scope.

Definition Htab (t : list (bytes * digest)) (c : bytes) : digest :=
  match find (fun e => String.eqb (fst e) c) t with
  | Some e => snd e
  | None => String.append "?" c
  end.

Inductive hop :=
| HEdit (p : path) (c : option bytes)
| HStage (req : list (path * digest)) (srcs : list (option path)) (sigs : list sigt)
         (obs : option (list path))
| HRecv (t : transmission) (obs : recv_res)
| HRecvF (t : transmission) (obs : recv_res)   (* the Commit this Receive performs fails (flush error):
                                                   the receiver moves on, nothing is stored *)
| HFinal
| HTrans (plan : list item) (before after : files) (installed : list bool)
         (missing : bool) (nproblems : nat)
| HTransF (plan : list item) (faults : list fault) (before after : files) (installed : list bool)
          (missing : bool) (nproblems : nat).   (* faults: e.g. the copy across devices was cancelled *)

Definition scase := (list (bytes * digest) * option nat * files * list hop)%type.

(* short aliases printed by the Go harness *)
Definition Sg (b l n : nat) : sigt := {| sblock := N.of_nat b; slast := N.of_nat l; snum := N.of_nat n |}.
Definition Op (d : bytes) (s c : nat) : transmission :=
  TOp {| odata := d; ostart := N.of_nat s; ocount := c |}.
Definition Dn : transmission := TDone.
Definition It (p : path) (d : digest) (o : option digest) : item :=
  {| ipath := p; idigest := d; iold := o |}.

Fixpoint paths_eqb (a b : list path) : bool :=
  match a, b with
  | [], [] => true
  | x :: a', y :: b' => String.eqb x y && paths_eqb a' b'
  | _, _ => false
  end.

Fixpoint bools_eqb (a b : list bool) : bool :=
  match a, b with
  | [], [] => true
  | x :: a', y :: b' => Bool.eqb x y && bools_eqb a' b'
  | _, _ => false
  end.

Definition sub_files (a b : files) : bool :=
  forallb (fun p => opt_bytes_eqb (f_lookup p a) (f_lookup p b)) (map fst a).
Definition same_files (a b : files) : bool := sub_files a b && sub_files b a.

Definition recv_res_eqb (a b : recv_res) : bool :=
  match a, b with
  | RvOk, RvOk | RvUnexpected, RvUnexpected | RvPanic, RvPanic => true
  | _, _ => false
  end.

Section Walk.
Variable H : bytes -> digest.
Variable mx : N.

(* (model disagrees, checker rejects) *)
Fixpoint walk (x : session) (hs : list hop) : bool * bool :=
  match hs with
  | [] => (false, false)
  | h :: t =>
      match h with
      | HEdit p c =>
          walk (fst (sstep H mx x (SEdit p c))) t
      | HStage req srcs sigs obs =>
          let '(x', r) := sstep H mx x (SStage req srcs sigs) in
          let '(b1, b2) := walk x' t in
          (negb (match r, obs with
                 | XStage (Some a), Some b => paths_eqb a b
                 | XStage None, None => true
                 | _, _ => false
                 end) || b1, b2)
      | HRecv tr obs =>
          let '(x', r) := sstep H mx x (SRecv tr true) in
          let '(b1, b2) := walk x' t in
          (negb (match r with XRecv a => recv_res_eqb a obs | _ => false end) || b1, b2)
      | HRecvF tr obs =>
          let '(x', r) := sstep H mx x (SRecv tr true) in
          let x'' := {| sroot := sroot x'; sstore := sstore x; srecv := srecv x' |} in
          let '(b1, b2) := walk x'' t in
          (negb (match r with XRecv a => recv_res_eqb a obs | _ => false end) || b1, b2)
      | HFinal =>
          walk (fst (sstep H mx x SFinal)) t
      | HTrans plan before after installed missing np =>
          let '(x', r) := sstep H mx x (STransition plan []) in
          let '(b1, b2) := walk x' t in
          (negb (same_files (sroot x) before
                 && same_files (sroot x') after
                 && match r with
                    | XTransition oks ms pbs =>
                        bools_eqb oks installed && Bool.eqb ms missing
                        && Nat.eqb (List.length pbs) np
                    | _ => false
                    end) || b1,
           negb (check_C10 H before after plan missing np) || b2)
      | HTransF plan faults before after installed missing np =>
          let '(x', r) := sstep H mx x (STransition plan faults) in
          let '(b1, b2) := walk x' t in
          (negb (same_files (sroot x) before
                 && same_files (sroot x') after
                 && match r with
                    | XTransition oks ms pbs =>
                        bools_eqb oks installed && Bool.eqb ms missing
                        && Nat.eqb (List.length pbs) np
                    | _ => false
                    end) || b1,
           negb (check_C10 H before after plan missing np) || b2)
      end
  end.

End Walk.

Fixpoint nodup_paths (l : list path) : bool :=
  match l with
  | [] => true
  | x :: t => negb (existsb (String.eqb x) t) && nodup_paths t
  end.

Definition wf_hop (h : hop) : bool :=
  match h with
  | HTrans _ before after _ _ _ | HTransF _ _ before after _ _ _ =>
      nodup_paths (map fst before) && nodup_paths (map fst after)
  | _ => true
  end.

Definition staging_verdict (c : scase) : nat :=
  let '(tab, omx, root0, hs) := c in
  if negb (nodup_paths (map fst root0) && nodup_paths (map fst tab) && forallb wf_hop hs) then 8
  else
    let mx := match omx with None => 18446744073709551615%N | Some n => N.of_nat n end in
    let '(b1, b2) := walk (Htab tab) mx {| sroot := root0; sstore := []; srecv := None |} hs in
    (if b1 then 1 else 0) + (if b2 then 2 else 0).

Fixpoint staging_failures (i : nat) (cs : list scase) : list (nat * nat) :=
  match cs with
  | [] => []
  | c :: t => match staging_verdict c with
              | O => staging_failures (S i) t
              | v => (i, v) :: staging_failures (S i) t
              end
  end.
