(* Correspondence harness for C47, evaluated inside Coq by vm_compute.
   A case is a [wcase]: the writer, its parameters, the writes, the downstream
   script and the results observed on the real pkg/stream writer.
   Verdict bits: 1 = the model's output differs from the implementation's;
   2 = the implementation's output fails the property checker [check_c47];
   (for concurrent valve scenarios: 1 = the observed event sequence is not one
   the lock-level transition system can produce, 2 = an underlying Write was
   in flight or began after a Shut had returned);
   8 = a logged downstream call lies outside the oracle's domain (c > len):
       the harness itself is wrong. *)
From Coq Require Import List Arith ZArith NArith.
Import ListNotations.
From Mv Require Import Model.Stream.

(* short constructors printed by the Go harness *)
Definition R (n : nat) (e : err) (cs : list call) : wres := (n, e, cs).
Definition K (d : list nat) (n : nat) (e : err) : call := (d, n, e).
(* events of the concurrent valve scenarios *)
Definition Fb (t : nat) : event := EvFwdBegin t.
Definition Fe (t : nat) : event := EvFwdEnd t.
Definition Sr (t : nat) : event := EvShutRet t.
(* the count is printed as an N literal (writes near 64 KiB) *)
Definition L (n : N) (e : err) (cbs : list (list nat)) : lres := (N.to_nat n, e, cbs).
(* a run of [n] equal bytes (for writes near the 64 KiB default cap) *)
Definition rp (n : N) (b : nat) : list nat := repeat b (N.to_nat n).

Definition stream_verdict (c : wcase) : nat :=
  (if model_agrees c then 0 else 1)
  + (if check_c47 c then 0 else 2)
  + (if in_domain c then 0 else 8).

Fixpoint stream_failures (i : nat) (cs : list wcase) : list (nat * nat) :=
  match cs with
  | [] => []
  | c :: t => match stream_verdict c with
              | O => stream_failures (S i) t
              | v => (i, v) :: stream_failures (S i) t
              end
  end.
