(* Correspondence harness for C16, evaluated inside Coq by vm_compute.
   Depends on Model/ only.

   A case is what the Go harness observed on the real code for one
   (link path, target):
     out     : result of normalizeSymbolicLinkAndEnsurePortable (verif hook)
     base    : names from the sandbox directory down to the synchronization root
     kernel  : where the kernel resolved the link created on disk (names below
               the sandbox directory), if the link was created and asked for
     scan    : the entry core.Scan (portable mode) produced for that link
     created : whether core.Transition (portable mode) created the link
     nested  : what core.Transition did when the link arrives inside a new
               directory, one and two levels deep (created? problem recorded?)
   Verdict bits: 1 = model <> implementation (normalize, scan entry, creation
   decision, or the lexical resolution <> the kernel's); 2 = the
   implementation's outputs fail check_C16 (an accepted link leaves the root,
   or a target of a rejection class is accepted); 8 = malformed case. *)
From Coq Require Import List Bool Arith ZArith String.
From Coq.Strings Require Import Byte.
Import ListNotations.
From Mv Require Import Common.Bytes Common.Str Model.Symlink.

(* what core.Transition (portable mode) did when asked to create a NEW
   DIRECTORY holding the link: one level (dir/k) and two levels (dir/s/k) below
   the directory that holds the case's own link; for each: does the link exist
   afterwards, was a problem recorded for its path *)
Inductive nobs := NN | NO (created1 problem1 created2 problem2 : bool).

Definition scase :=
  (str * str * (sl_err + str) * list str * option (list str)
   * option link_entry * option bool * nobs)%type.

(* Short constructors printed by the Go harness. Literals dominate the time
   Coq needs to read a case file, so repeated strings are abbreviated:
   [Same]/[SLs] = "the implementation returned the target unchanged" (the Go
   side compared the two strings), [KL up rest] = the kernel's location is
   BASE without its last [up] names, followed by [rest]. *)
Definition Bn (l : list nat) : str := list_byte_of_string (bs l).
Definition BASE : list str := [B "o1"; B "o2"; B "o3"; B "root"].
Inductive outc := Same | Ok (t : str) | Er (e : sl_err).
Inductive scanc := NoScan | SLs | SLt (t : str) | PB.
Definition KL (up : nat) (rest : list str) : option (list str) :=
  Some (firstn (List.length BASE - up) BASE ++ rest).
Definition NK : option (list str) := None.
(* [KP up p]: as [KL], the names given as one '/'-joined string (names never
   contain '/'); one literal instead of one per name *)
Definition KP (up : nat) (p : str) : option (list str) := KL up (split_on c_slash p).
Definition C (path target : str) (o : outc) (k : option (list str)) (s : scanc)
           (cr : option bool) (nb : nobs) : scase :=
  (path, target,
   match o with Same => inr target | Ok t => inr t | Er e => inl e end,
   BASE, k,
   match s with NoScan => None | SLs => Some (LESymbolicLink target)
              | SLt t => Some (LESymbolicLink t) | PB => Some LEProblematic end,
   cr, nb).

(* Exhaustive cases carry no literals at all: the target is a token sequence
   ([tn] = a name "n", [td] = ".", [tu] = "..", [te] = the empty component),
   the link sits [d] directories "n" below the root and is named "L" followed
   by one letter per token, and the kernel location is BASE minus [up] names
   plus [cnt] times "n". The Go side builds the same strings and records them
   in the replay form of the case. *)
Inductive tk := tz | tn (t : tk) | td (t : tk) | tu (t : tk) | te (t : tk).
Fixpoint tk_comps (t : tk) : list str :=
  match t with
  | tz => []
  | tn r => B "n" :: tk_comps r
  | td r => B "." :: tk_comps r
  | tu r => B ".." :: tk_comps r
  | te r => [] :: tk_comps r
  end.
Fixpoint tk_letters (t : tk) : str :=
  match t with
  | tz => []
  | tn r => "n"%byte :: tk_letters r
  | td r => "d"%byte :: tk_letters r
  | tu r => "u"%byte :: tk_letters r
  | te r => "e"%byte :: tk_letters r
  end.
Fixpoint join_slash (cs : list str) : str :=
  match cs with
  | [] => []
  | [c] => c
  | c :: r => c ++ c_slash :: join_slash r
  end.
Fixpoint ndirs (d : nat) : str :=
  match d with O => [] | S d' => "n"%byte :: c_slash :: ndirs d' end.
Definition KN (up cnt : nat) : option (list str) := KL up (repeat (B "n") cnt).
Definition X (d : nat) (t : tk) (o : outc) (k : option (list str)) (s : scanc)
           (cr : option bool) (nb : nobs) : scase :=
  C (ndirs d ++ "L"%byte :: tk_letters t) (join_slash (tk_comps t)) o k s cr nb.

(* the directory the nested transitions create next to the case's link "L.."
   ("D.." for one level, "E.." for two), and the nested link paths *)
Definition nest_dir (tag : byte) (path : str) : str :=
  join_slash (link_dirs path ++ [tag :: last (split_on c_slash path) []]).
Definition nest_tree (levels : nat) (target : str) : ctree :=
  match levels with
  | 1%nat => CDir [(B "k", CLink target)]
  | _ => CDir [(B "s", CDir [(B "k", CLink target)])]
  end.

Definition is_nil_l {A : Type} (l : list A) : bool := match l with [] => true | _ => false end.

Definition out_eqb (a b : sl_err + str) : bool :=
  match a, b with
  | inl x, inl y => sl_err_eqb x y
  | inr x, inr y => str_eqb x y
  | _, _ => false
  end.

Definition entry_eqb (a b : link_entry) : bool :=
  match a, b with
  | LESymbolicLink x, LESymbolicLink y => str_eqb x y
  | LEProblematic, LEProblematic => true
  | _, _ => false
  end.

Fixpoint strs_eqb (a b : list str) : bool :=
  match a, b with
  | [], [] => true
  | x :: a', y :: b' => str_eqb x y && strs_eqb a' b'
  | _, _ => false
  end.

Definition symlink_verdict (fixed : bool) (c : scase) : nat :=
  let '(path, target, out, base, kernel, scan, created, nb) := c in
  let bad := negb (wf_path path) in
  let m_out := normalize_portable fixed path target in
  let m_loc := rev (resolve_loc (rev (base ++ link_dirs path)) (split_on c_slash target)) in
  let corr :=
      out_eqb m_out out
      && match kernel with Some loc => strs_eqb m_loc loc | None => true end
      && match scan with Some e => entry_eqb (scan_link fixed true path target) e | None => true end
      && match created with Some b => Bool.eqb (create_allowed fixed SLPortable path target) b | None => true end
      && match nb with
         | NN => true
         | NO c1 p1 c2 p2 =>
             let d1 := nest_dir "D"%byte path in
             let d2 := nest_dir "E"%byte path in
             Bool.eqb (negb (is_nil_l (created_links fixed SLPortable d1 (nest_tree 1 target)))) c1
             && Bool.eqb (negb (is_nil_l (link_problems fixed SLPortable d1 (nest_tree 1 target)))) p1
             && Bool.eqb (negb (is_nil_l (created_links fixed SLPortable d2 (nest_tree 2 target)))) c2
             && Bool.eqb (negb (is_nil_l (link_problems fixed SLPortable d2 (nest_tree 2 target)))) p2
         end in
  let prop :=
      check_C16 path target out
      && check_C16_kernel base out kernel
      && match scan with
         | Some (LESymbolicLink t) =>
             check_C16 path target (inr t) && check_C16_kernel base (inr t) kernel
         | _ => true
         end
      && match created with
         | Some true => check_C16 path target (inr target) && check_C16_kernel base (inr target) kernel
         | _ => true
         end
      (* a link created inside a new directory must be acceptable at its own
         path (depth includes the new directory levels); a link that is not
         created must have a problem recorded *)
      && match nb with
         | NN => true
         | NO c1 p1 c2 p2 =>
             let l1 := join_path (nest_dir "D"%byte path) (B "k") in
             let l2 := join_path (join_path (nest_dir "E"%byte path) (B "s")) (B "k") in
             (if c1 then check_C16 l1 target (inr target) else p1)
             && (if c2 then check_C16 l2 target (inr target) else p2)
         end in
  (if corr then 0 else 1) + (if prop then 0 else 2) + (if bad then 8 else 0).

Fixpoint failures_with (fixed : bool) (i : nat) (cs : list scase) : list (nat * nat) :=
  match cs with
  | [] => []
  | c :: t => match symlink_verdict fixed c with
              | O => failures_with fixed (S i) t
              | v => (i, v) :: failures_with fixed (S i) t
              end
  end.

(* bit 1 against the code as it is in the repository *)
Definition symlink_failures := failures_with false.
(* bit 1 against the repaired code (harness flag -fixed) *)
Definition symlink_failures_fixed := failures_with true.
