(* Harness for the removal step of Terminate under file-system faults
   (goharness/cmd/controller -prop C29T), evaluated by vm_compute. Depends on
   Model/ only. A case is (what is at the archive path, whether the session
   file exists, and what the real Manager did: Terminate returned nil, session
   file afterwards, archive path afterwards, loaded by a new manager).
   Verdict bits: 1 = the model of the removal step disagrees with the
   implementation, 2 = the session's record survived Terminate (the session
   file is still there, or a new manager loaded the session). *)
From Coq Require Import List Bool Arith.
Import ListNotations.
From Mv Require Import Model.TerminateFiles.

Definition tcase := (arch_state * bool * term_out)%type.

Definition mkout (n s a l : bool) : term_out :=
  {| to_nil := n; to_session := s; to_archive := a; to_loaded := l |}.

Definition t_verdict (c : tcase) : nat :=
  let '(a, sess, o) := c in
  (if term_out_eqb (term_model a sess) o then 0 else 1) + (if check_term o then 0 else 2).

Fixpoint c29t_failures (i : nat) (cs : list tcase) : list (nat * nat) :=
  match cs with
  | [] => []
  | c :: t => match t_verdict c with
              | O => c29t_failures (S i) t
              | v => (i, v) :: c29t_failures (S i) t
              end
  end.
