(* Trace-validation harness for C30, evaluated inside Coq by vm_compute.
   A case is (index at the start, latency slack in microseconds, the history
   recorded from the real Tracker / TrackingLock: API call and return events
   with arguments and results, context cancellations, the final quiescence
   observation, each with a timestamp, in the order of a global atomic
   sequence counter).  Verdict per case = the monitor's code for the first
   event it rejects: 0 accepted; 1 = not a history of the model
   (Model/Tracker.v); 2 = the property is violated (stale or missing answer,
   index moved backwards / did not advance, answer not prompt, spurious error);
   8 = the log itself is ill formed (harness bug). *)
From Coq Require Import List Arith NArith.
Import ListNotations.
From Mv Require Import Model.Tracker.

Definition tcase := (N * option N * list event)%type.

(* short aliases printed by the Go harness *)
Definition C (t : nat) (o : op) (tm : N) : event := ECall t o tm.
Definition R (t : nat) (r : res) (tm : N) : event := ERet t r tm.
Definition X (t : nat) (tm : N) : event := ECancel t tm.
Definition Q (tm : N) : event := EQuiesce tm.
Definition Nf : op := ONotify.
Definition Ul : op := OUnlock.
Definition Un : op := OUnlockNN.
Definition Tm : op := OTerminate.
Definition Wt (p : N) : op := OWait p.
Definition U : res := RUnit.
Definition Wo (i : N) : res := RWait i WOk.
Definition Wx (i : N) : res := RWait i WTerminated.
Definition Wc (i : N) : res := RWait i WCancelled.

Definition tracker_verdict (c : tcase) : nat :=
  let '(i0, sl, evs) := c in check_C30_code i0 sl evs.

Fixpoint tracker_failures (i : nat) (cs : list tcase) : list (nat * nat) :=
  match cs with
  | [] => []
  | c :: t => match tracker_verdict c with
              | O => tracker_failures (S i) t
              | v => (i, v) :: tracker_failures (S i) t
              end
  end.
