(* Correspondence harness for core.Transition (C08, C09), evaluated by
   vm_compute.  Depends on Model/ only.

   A case carries what goharness/cmd/transition observed of ONE real
   core.Transition call: the walk of the parent directory of the
   synchronization root before the call (after the harness edited the tree),
   the scan-time cache, the plan, the staging table, the walk afterwards and
   the returned results, problems and missingFiles flag.  Tables stand in for
   the outside world: [t_hash] maps every file content occurring in the case
   to its real digest, [t_norm] maps (path, target) to the result of the real
   normalizeSymbolicLinkAndEnsurePortable.

   Verdict bits: 1 = model output <> implementation output, 2 = the property's
   checker rejects the implementation's output, 4 = (with 2) the case lies in
   the known-finding class, 8 = ill-formed input. *)
From Coq Require Import List Bool Arith String Ascii NArith.
Import ListNotations.
From Mv Require Import Common.Bytes Model.Entry Model.Fs Model.FsExt Model.Transition
     Model.TransitionCheck.
Open Scope string_scope.

(* ---------- short constructors for case files ---------- *)
Definition mt (mode size mtime fid : N) : meta :=
  {| m_mode := mode; m_size := size; m_mtime := mtime; m_fid := fid; m_dev := 1 |}.
Definition D (mode mtime fid : N) (c : list (name * node)) : node := NDir (mt mode 0 mtime fid) c.
Definition F (mode mtime fid : N) (d : string) : node := NFile (mt mode (strlen d) mtime fid) d.
Definition L (mtime fid : N) (t : string) : node := NLink (mt 511 (strlen t) mtime fid) t.
Definition X (mode mtime fid ty : N) : node := NOther (mt mode 0 mtime fid) ty.
Definition mk (p : path) (o n : oentry) : change := {| cpath := p; cold := o; cnew := n |}.
Definition ce (mode mtime size fid : N) (d : string) : centry :=
  {| ce_mode := mode; ce_mtime := mtime; ce_size := size; ce_fid := fid; ce_digest := d |}.
Definition sl (xdev : bool) (o : option sobj) : slot := {| sl_xdev := xdev; sl_obj := o |}.

(* when the context is cancelled *)
Inductive cspec :=
| CNever
| CStart                 (* before core.Transition is called *)
| CProvide (j : nat).    (* inside the j-th Provider.Provide call (0-based) *)

Record tcase := mkT {
  t_rn : name;
  t_slm : slmode;
  t_dfm : N;
  t_ddm : N;
  t_own : bool;
  t_norm : list (path * string * option string);
  t_hash : list (string * string);
  t_pre : node;
  t_cache : cache;
  t_plan : list change;
  t_store : store;
  t_cancel : cspec;
  t_faulted : bool;       (* a system call was failed by strace: model not compared *)
  t_post : node;
  t_results : list oentry;
  t_problems : list problem;
  t_missing : bool
}.

(* ---------- the outside world from the tables ---------- *)
Definition norm_of (tb : list (path * string * option string)) (p : path) (t : string)
  : option string :=
  match find (fun r => path_eqb (fst (fst r)) p && String.eqb (snd (fst r)) t) tb with
  | Some r => snd r
  | None => None
  end.

Definition hash_of (tb : list (string * string)) (d : string) : string :=
  match find (fun r => String.eqb (fst r) d) tb with
  | Some r => snd r
  | None => ""
  end.

Definition all_names_ok (n : name) : bool := true.

Definition menv (o : nat -> outcome) : env :=
  {| oracle := o; clock := fun _ => 0%N; fresh_id := fun _ => 0%N; temp_tag := fun _ => "0" |}.

Definition cancel_from (k : nat) : nat -> outcome :=
  fun j => if Nat.eqb j k then Cancelled else Ok.

(* ---------- comparison up to what the model does not predict ---------- *)
(* same type, permission bits, content, names; mtime / inode / sizes of
   directories are not compared *)
Fixpoint node_sim (a b : node) {struct a} : bool :=
  let fix list_sim (x y : list (name * node)) {struct x} : bool :=
    match x, y with
    | [], [] => true
    | (n, e) :: x', (m, f) :: y' => String.eqb n m && node_sim e f && list_sim x' y'
    | _, _ => false
    end in
  match a, b with
  | NDir m c, NDir m' c' => N.eqb (m_mode m) (m_mode m') && list_sim c c'
  | NFile m d, NFile m' d' => N.eqb (m_mode m) (m_mode m') && String.eqb d d'
  | NLink _ t, NLink _ t' => String.eqb t t'
  | NOther m ty, NOther m' ty' => N.eqb (m_mode m) (m_mode m') && N.eqb ty ty'
  | _, _ => false
  end.

Definition problem_leb (a b : problem) : bool :=
  if path_ltb (fst a) (fst b) then true
  else if path_ltb (fst b) (fst a) then false
  else Nat.leb (snd a) (snd b).

Fixpoint insert_problem (x : problem) (l : list problem) : list problem :=
  match l with
  | [] => [x]
  | y :: t => if problem_leb x y then x :: l else y :: insert_problem x t
  end.
Definition sort_problems (l : list problem) : list problem := fold_right insert_problem [] l.

Definition problem_eqb (a b : problem) : bool :=
  path_eqb (fst a) (fst b) && Nat.eqb (snd a) (snd b).

Fixpoint list_eqb {A : Type} (eqb : A -> A -> bool) (x y : list A) : bool :=
  match x, y with
  | [], [] => true
  | a :: x', b :: y' => eqb a b && list_eqb eqb x' y'
  | _, _ => false
  end.

Definition run_model (c : tcase) (o : nat -> outcome) : tstate * list oentry :=
  transition (norm_of (t_norm c)) (menv o) (t_rn c) (t_cache c) (t_slm c)
             (t_dfm c) (t_ddm c) (t_own c) (t_pre c) (t_store c) (t_plan c).

Definition agrees (c : tcase) (out : tstate * list oentry) : bool :=
  let '(s, rs) := out in
  node_sim (x_fs (tx s)) (t_post c) &&
  list_eqb oentry_eqb rs (t_results c) &&
  list_eqb problem_eqb (sort_problems (tprobs s)) (sort_problems (t_problems c)) &&
  Bool.eqb (tmiss s) (t_missing c).

(* the largest call index tried when the cancellation point is only known as
   "inside the j-th Provide call" *)
Definition cancel_search : nat := 300.

(* lazy search (the branches of [if] are evaluated on demand by vm_compute) *)
Fixpoint search_from (f : nat -> bool) (k n : nat) : bool :=
  match n with
  | O => false
  | S n' => if f k then true else search_from f (S k) n'
  end.

Definition model_agrees (c : tcase) : bool :=
  match t_cancel c with
  | CNever => agrees c (run_model c no_faults)
  | CStart => agrees c (run_model c (cancel_from 0))
  | CProvide _ => search_from (fun k => agrees c (run_model c (cancel_from k))) 0 cancel_search
  end.

(* ---------- well-formedness of a case ---------- *)
Fixpoint tsorted (x : node) : bool :=
  let fix go (l : list (name * node)) : bool :=
    match l with
    | [] => true
    | (_, y) :: t => tsorted y && go t
    end in
  match x with
  | NDir _ c => sorted_names (map fst c) && go c
  | _ => true
  end.

Definition case_wf (c : tcase) : bool :=
  name_valid (t_rn c) &&
  tsorted (t_pre c) && tsorted (t_post c) &&
  forallb (fun x => wf true (cold x) && wf true (cnew x)) (t_plan c) &&
  paths_disjoint (map cpath (t_plan c)) &&
  match t_pre c with NDir _ _ => true | _ => false end.

(* ---------- the checkers on the implementation's outputs ---------- *)
Definition impl_c08 (c : tcase) : bool :=
  check_c08 (norm_of (t_norm c)) (t_slm c) (t_rn c) (t_cache c) (t_pre c) (t_post c)
            (t_problems c) (t_plan c).

Definition c09_premise (c : tcase) : bool :=
  pre_described (hash_of (t_hash c)) (norm_of (t_norm c)) all_names_ok (t_slm c) (t_rn c)
                (t_pre c) (t_plan c).

Definition impl_c09 (c : tcase) : bool :=
  check_c09 (hash_of (t_hash c)) (norm_of (t_norm c)) all_names_ok (t_slm c) (t_rn c)
            (t_plan c) (t_post c) (t_results c).

(* cancelled before the call: every result is the old entry, nothing moved *)
Definition impl_cancel_start (c : tcase) : bool :=
  match t_cancel c with
  | CStart => list_eqb oentry_eqb (t_results c) (map cold (t_plan c)) &&
              node_eqb (t_post c) (t_pre c)
  | _ => true
  end.

(* a staged file that is missing, reached without any other failure, sets the
   flag: checked through the correspondence bit (the model sets it) *)

Definition corr_bit (c : tcase) : nat :=
  if t_faulted c then 0 else if model_agrees c then 0 else 1.

Definition failures_with (check known : tcase -> bool) :=
  fix go (i : nat) (cs : list tcase) : list (nat * nat) :=
    match cs with
    | [] => []
    | c :: t =>
      let v := if case_wf c then
                 corr_bit c + (if check c then 0 else (if known c then 6 else 2))
               else 8 in
      match v with
      | O => go (S i) t
      | _ => (i, v) :: go (S i) t
      end
    end.

Definition no_known (c : tcase) : bool := false.

Definition c08_failures := failures_with impl_c08 no_known.

(* C09 is claimed for transitions that start from the scanned state *)
Definition c09_check (c : tcase) : bool :=
  (if c09_premise c then impl_c09 c else true) && impl_cancel_start c.

Definition c09_failures := failures_with c09_check no_known.
