(* Correspondence harness for core.Transition (C08, C09), evaluated by
   vm_compute.  Depends on Model/ only.

   A case carries what goharness/cmd/transition observed of ONE real
   core.Transition call: the walk of the parent directory of the
   synchronization root before the call (after the harness edited the tree),
   the scan-time cache, the plan, the staging table, the walk afterwards and
   the returned results, problems and missingFiles flag.  Tables stand in for
   the outside world: [t_hash] maps every file content occurring in the case
   to its real digest, [t_norm] maps (path, target) to the result of the real
   normalizeSymbolicLinkAndEnsurePortable.

   Verdict bits: 1 = model output <> implementation output, 2 = the property's
   checker rejects the implementation's output, 4 = (with 2) the case lies in
   the known-finding class, 8 = ill-formed input. *)
From Coq Require Import List Bool Arith String Ascii NArith.
Import ListNotations.
From Mv Require Import Common.Bytes Model.Entry Model.Fs Model.FsExt Model.Transition
     Model.TransitionCheck.
Open Scope string_scope.


(* ---------- named literals: Coq reads a literal it has not seen in this
   process at about a millisecond per character, an identifier at once; the
   harness prints the strings and numbers below by name ---------- *)
Definition S_a : string := "a".
Definition S_b : string := "b".
Definition S_c : string := "c".
Definition S_d : string := "d".
Definition S_e : string := "e".
Definition S_f : string := "f".
Definition S_g : string := "g".
Definition S_n1 : string := "n1".
Definition S_n2 : string := "n2".
Definition S_n9 : string := "n9".
Definition S_u1 : string := "u1".
Definition S_u2 : string := "u2".
Definition S_zz : string := "zz".
Definition S_q : string := "q".
Definition S_root : string := "root".
Definition S_inner : string := "inner".
Definition S_inside : string := "inside".
Definition S__2emutagen_2dtemporary_2dx : string := ".mutagen-temporary-x".
Definition S_c1 : string := "c1".
Definition S_c22 : string := "c22".
Definition S_c333 : string := "c333".
Definition S_empty : string := "".
Definition S_c4444 : string := "c4444".
Definition S_xy : string := "xy".
Definition S_tmp : string := "tmp".
Definition S_n22 : string := "n22".
Definition S_n333 : string := "n333".
Definition S_s55555 : string := "s55555".
Definition S_unknown : string := "unknown".
Definition S_deep : string := "deep".
Definition S_x : string := "x".
Definition S_was_2da_2ddirectory : string := "was-a-directory".
Definition S_c1_2bgrown : string := "c1+grown".
Definition S_c22_2bgrown : string := "c22+grown".
Definition S_c333_2bgrown : string := "c333+grown".
Definition S__2bgrown : string := "+grown".
Definition S_c4444_2bgrown : string := "c4444+grown".
Definition S_xy_2bgrown : string := "xy+grown".
Definition S_tmp_2bgrown : string := "tmp+grown".
Definition S__23_23 : string := "##".
Definition S__23_23_23 : string := "###".
Definition S__23_23_23_23 : string := "####".
Definition S__23_23_23_23_23 : string := "#####".
Definition S_t : string := "t".
Definition S_a_2fb : string := "a/b".
Definition S__2e_2e_2fout : string := "../out".
Definition S__2fabs : string := "/abs".
Definition S_a_2f_2e_2e_2fb : string := "a/../b".
Definition S_retargeted : string := "retargeted".
Definition S_elsewhere : string := "elsewhere".
Definition S_h1 : string := "h1".
Definition S_h2 : string := "h2".
Definition S_h3 : string := "h3".
Definition S_h4 : string := "h4".
Definition S_h5 : string := "h5".
Definition S_h6 : string := "h6".
Definition S_h7 : string := "h7".
Definition S_h8 : string := "h8".
Definition S_h9 : string := "h9".
Definition S_h10 : string := "h10".
Definition S_h11 : string := "h11".
Definition S_h12 : string := "h12".
Definition S_h13 : string := "h13".
Definition S_h14 : string := "h14".
Definition S_h15 : string := "h15".
Definition S_h16 : string := "h16".
Definition S_h17 : string := "h17".
Definition S_h18 : string := "h18".
Definition S_h19 : string := "h19".
Definition S_h20 : string := "h20".
Definition S_h21 : string := "h21".
Definition S_h22 : string := "h22".
Definition S_h23 : string := "h23".
Definition S_h24 : string := "h24".
Definition S_h25 : string := "h25".
Definition S_h26 : string := "h26".
Definition S_h27 : string := "h27".
Definition S_h28 : string := "h28".
Definition S_h29 : string := "h29".
Definition S_h30 : string := "h30".
Definition S_h31 : string := "h31".
Definition S_h32 : string := "h32".
Definition S_h33 : string := "h33".
Definition S_h34 : string := "h34".
Definition S_h35 : string := "h35".
Definition S_h36 : string := "h36".
Definition S_h37 : string := "h37".
Definition S_h38 : string := "h38".
Definition S_h39 : string := "h39".
Definition S_h40 : string := "h40".
Definition S_h41 : string := "h41".
Definition S_h42 : string := "h42".
Definition S_h43 : string := "h43".
Definition S_h44 : string := "h44".
Definition S_h45 : string := "h45".
Definition S_h46 : string := "h46".
Definition S_h47 : string := "h47".
Definition S_h48 : string := "h48".
Definition S_h49 : string := "h49".
Definition S_h50 : string := "h50".
Definition S_h51 : string := "h51".
Definition S_h52 : string := "h52".
Definition S_h53 : string := "h53".
Definition S_h54 : string := "h54".
Definition S_h55 : string := "h55".
Definition S_h56 : string := "h56".
Definition S_h57 : string := "h57".
Definition S_h58 : string := "h58".
Definition S_h59 : string := "h59".
Definition S_h60 : string := "h60".
Definition S_h61 : string := "h61".
Definition S_h62 : string := "h62".
Definition S_h63 : string := "h63".
Definition S_h64 : string := "h64".
Definition S_h65 : string := "h65".
Definition S_h66 : string := "h66".
Definition S_h67 : string := "h67".
Definition S_h68 : string := "h68".
Definition S_h69 : string := "h69".
Definition S_h70 : string := "h70".
Definition S_h71 : string := "h71".
Definition S_h72 : string := "h72".
Definition S_h73 : string := "h73".
Definition S_h74 : string := "h74".
Definition S_h75 : string := "h75".
Definition S_h76 : string := "h76".
Definition S_h77 : string := "h77".
Definition S_h78 : string := "h78".
Definition S_h79 : string := "h79".
Definition S_h80 : string := "h80".
Definition k0 : N := 0%N.
Definition k1 : N := 1%N.
Definition k2 : N := 2%N.
Definition k3 : N := 3%N.
Definition k4 : N := 4%N.
Definition k5 : N := 5%N.
Definition k6 : N := 6%N.
Definition k7 : N := 7%N.
Definition k8 : N := 8%N.
Definition k9 : N := 9%N.
Definition k10 : N := 10%N.
Definition k11 : N := 11%N.
Definition k12 : N := 12%N.
Definition k13 : N := 13%N.
Definition k14 : N := 14%N.
Definition k15 : N := 15%N.
Definition k16 : N := 16%N.
Definition k17 : N := 17%N.
Definition k18 : N := 18%N.
Definition k19 : N := 19%N.
Definition k20 : N := 20%N.
Definition k21 : N := 21%N.
Definition k22 : N := 22%N.
Definition k23 : N := 23%N.
Definition k24 : N := 24%N.
Definition k25 : N := 25%N.
Definition k26 : N := 26%N.
Definition k27 : N := 27%N.
Definition k28 : N := 28%N.
Definition k29 : N := 29%N.
Definition k30 : N := 30%N.
Definition k31 : N := 31%N.
Definition k32 : N := 32%N.
Definition k33 : N := 33%N.
Definition k34 : N := 34%N.
Definition k35 : N := 35%N.
Definition k36 : N := 36%N.
Definition k37 : N := 37%N.
Definition k38 : N := 38%N.
Definition k39 : N := 39%N.
Definition k40 : N := 40%N.
Definition k41 : N := 41%N.
Definition k42 : N := 42%N.
Definition k43 : N := 43%N.
Definition k44 : N := 44%N.
Definition k45 : N := 45%N.
Definition k46 : N := 46%N.
Definition k47 : N := 47%N.
Definition k48 : N := 48%N.
Definition k49 : N := 49%N.
Definition k50 : N := 50%N.
Definition k51 : N := 51%N.
Definition k52 : N := 52%N.
Definition k53 : N := 53%N.
Definition k54 : N := 54%N.
Definition k55 : N := 55%N.
Definition k56 : N := 56%N.
Definition k57 : N := 57%N.
Definition k58 : N := 58%N.
Definition k59 : N := 59%N.
Definition k60 : N := 60%N.
Definition k61 : N := 61%N.
Definition k62 : N := 62%N.
Definition k63 : N := 63%N.
Definition k64 : N := 64%N.
Definition k65 : N := 65%N.
Definition k66 : N := 66%N.
Definition k67 : N := 67%N.
Definition k68 : N := 68%N.
Definition k69 : N := 69%N.
Definition k70 : N := 70%N.
Definition k71 : N := 71%N.
Definition k72 : N := 72%N.
Definition k73 : N := 73%N.
Definition k74 : N := 74%N.
Definition k75 : N := 75%N.
Definition k76 : N := 76%N.
Definition k77 : N := 77%N.
Definition k78 : N := 78%N.
Definition k79 : N := 79%N.
Definition k80 : N := 80%N.
Definition k81 : N := 81%N.
Definition k82 : N := 82%N.
Definition k83 : N := 83%N.
Definition k84 : N := 84%N.
Definition k85 : N := 85%N.
Definition k86 : N := 86%N.
Definition k87 : N := 87%N.
Definition k88 : N := 88%N.
Definition k89 : N := 89%N.
Definition k90 : N := 90%N.
Definition k91 : N := 91%N.
Definition k92 : N := 92%N.
Definition k93 : N := 93%N.
Definition k94 : N := 94%N.
Definition k95 : N := 95%N.
Definition k96 : N := 96%N.
Definition k97 : N := 97%N.
Definition k98 : N := 98%N.
Definition k99 : N := 99%N.
Definition k100 : N := 100%N.
Definition k101 : N := 101%N.
Definition k102 : N := 102%N.
Definition k103 : N := 103%N.
Definition k104 : N := 104%N.
Definition k105 : N := 105%N.
Definition k106 : N := 106%N.
Definition k107 : N := 107%N.
Definition k108 : N := 108%N.
Definition k109 : N := 109%N.
Definition k110 : N := 110%N.
Definition k111 : N := 111%N.
Definition k112 : N := 112%N.
Definition k113 : N := 113%N.
Definition k114 : N := 114%N.
Definition k115 : N := 115%N.
Definition k116 : N := 116%N.
Definition k117 : N := 117%N.
Definition k118 : N := 118%N.
Definition k119 : N := 119%N.
Definition k120 : N := 120%N.
Definition k121 : N := 121%N.
Definition k122 : N := 122%N.
Definition k123 : N := 123%N.
Definition k124 : N := 124%N.
Definition k125 : N := 125%N.
Definition k126 : N := 126%N.
Definition k127 : N := 127%N.
Definition k128 : N := 128%N.
Definition k129 : N := 129%N.
Definition k130 : N := 130%N.
Definition k131 : N := 131%N.
Definition k132 : N := 132%N.
Definition k133 : N := 133%N.
Definition k134 : N := 134%N.
Definition k135 : N := 135%N.
Definition k136 : N := 136%N.
Definition k137 : N := 137%N.
Definition k138 : N := 138%N.
Definition k139 : N := 139%N.
Definition k140 : N := 140%N.
Definition k141 : N := 141%N.
Definition k142 : N := 142%N.
Definition k143 : N := 143%N.
Definition k144 : N := 144%N.
Definition k145 : N := 145%N.
Definition k146 : N := 146%N.
Definition k147 : N := 147%N.
Definition k148 : N := 148%N.
Definition k149 : N := 149%N.
Definition k150 : N := 150%N.
Definition k151 : N := 151%N.
Definition k152 : N := 152%N.
Definition k153 : N := 153%N.
Definition k154 : N := 154%N.
Definition k155 : N := 155%N.
Definition k156 : N := 156%N.
Definition k157 : N := 157%N.
Definition k158 : N := 158%N.
Definition k159 : N := 159%N.
Definition k160 : N := 160%N.
Definition k161 : N := 161%N.
Definition k162 : N := 162%N.
Definition k163 : N := 163%N.
Definition k164 : N := 164%N.
Definition k165 : N := 165%N.
Definition k166 : N := 166%N.
Definition k167 : N := 167%N.
Definition k168 : N := 168%N.
Definition k169 : N := 169%N.
Definition k170 : N := 170%N.
Definition k171 : N := 171%N.
Definition k172 : N := 172%N.
Definition k173 : N := 173%N.
Definition k174 : N := 174%N.
Definition k175 : N := 175%N.
Definition k176 : N := 176%N.
Definition k177 : N := 177%N.
Definition k178 : N := 178%N.
Definition k179 : N := 179%N.
Definition k180 : N := 180%N.
Definition k181 : N := 181%N.
Definition k182 : N := 182%N.
Definition k183 : N := 183%N.
Definition k184 : N := 184%N.
Definition k185 : N := 185%N.
Definition k186 : N := 186%N.
Definition k187 : N := 187%N.
Definition k188 : N := 188%N.
Definition k189 : N := 189%N.
Definition k190 : N := 190%N.
Definition k191 : N := 191%N.
Definition k192 : N := 192%N.
Definition k193 : N := 193%N.
Definition k194 : N := 194%N.
Definition k195 : N := 195%N.
Definition k196 : N := 196%N.
Definition k197 : N := 197%N.
Definition k198 : N := 198%N.
Definition k199 : N := 199%N.
Definition k200 : N := 200%N.
Definition k384 : N := 384%N.
Definition k416 : N := 416%N.
Definition k420 : N := 420%N.
Definition k448 : N := 448%N.
Definition k488 : N := 488%N.
Definition k493 : N := 493%N.
Definition k511 : N := 511%N.
Definition k4096 : N := 4096%N.
Definition k33152 : N := 33152%N.
Definition k33184 : N := 33184%N.
Definition k33188 : N := 33188%N.
Definition k33216 : N := 33216%N.
Definition k33256 : N := 33256%N.
Definition k33261 : N := 33261%N.
Definition k33200 : N := 33200%N.
Definition k33208 : N := 33208%N.
Definition k33192 : N := 33192%N.

(* ---------- short constructors for case files ---------- *)
Definition mt (mode size mtime fid : N) : meta :=
  {| m_mode := mode; m_size := size; m_mtime := mtime; m_fid := fid; m_dev := 1 |}.
Definition D (mode mtime fid : N) (c : list (name * node)) : node := NDir (mt mode 0 mtime fid) c.
Definition F (mode mtime fid : N) (d : string) : node := NFile (mt mode (strlen d) mtime fid) d.
Definition L (mtime fid : N) (t : string) : node := NLink (mt 511 (strlen t) mtime fid) t.
Definition X (mode mtime fid ty : N) : node := NOther (mt mode 0 mtime fid) ty.
Definition mk (p : path) (o n : oentry) : change := {| cpath := p; cold := o; cnew := n |}.
Definition ce (mode mtime size fid : N) (d : string) : centry :=
  {| ce_mode := mode; ce_mtime := mtime; ce_size := size; ce_fid := fid; ce_digest := d |}.
Definition sl (xdev : bool) (o : option sobj) : slot := {| sl_xdev := xdev; sl_obj := o |}.

(* when the context is cancelled *)
Inductive cspec :=
| CNever
| CStart                 (* before core.Transition is called *)
| CProvide (j : nat)     (* inside the j-th Provider.Provide call (0-based) *)
| CAsync.                (* from another goroutine, at an unknown point: model not compared *)

Record tcase := mkT {
  t_rn : name;
  t_slm : slmode;
  t_dfm : N;
  t_ddm : N;
  t_own : bool;
  t_norm : list (path * string * option string);
  t_hash : list (string * string);
  t_pre : node;
  t_cache : cache;
  t_plan : list change;
  t_store : store;
  t_cancel : cspec;
  t_faulted : bool;       (* a system call was failed by strace: model not compared *)
  t_post : node;
  t_results : list oentry;
  t_problems : list problem;
  t_missing : bool
}.

(* ---------- the outside world from the tables ---------- *)
Definition norm_of (tb : list (path * string * option string)) (p : path) (t : string)
  : option string :=
  match find (fun r => path_eqb (fst (fst r)) p && String.eqb (snd (fst r)) t) tb with
  | Some r => snd r
  | None => None
  end.

Definition hash_of (tb : list (string * string)) (d : string) : string :=
  match find (fun r => String.eqb (fst r) d) tb with
  | Some r => snd r
  | None => ""
  end.

Definition all_names_ok (n : name) : bool := true.

Definition menv (o : nat -> outcome) : env :=
  {| oracle := o; clock := fun _ => 0%N; fresh_id := fun _ => 0%N; temp_tag := fun _ => "0" |}.

Definition cancel_from (k : nat) : nat -> outcome :=
  fun j => if Nat.eqb j k then Cancelled else Ok.

(* ---------- comparison up to what the model does not predict ---------- *)
(* same type, permission bits, content, names; mtime / inode / sizes of
   directories are not compared *)
Fixpoint node_sim (a b : node) {struct a} : bool :=
  let fix list_sim (x y : list (name * node)) {struct x} : bool :=
    match x, y with
    | [], [] => true
    | (n, e) :: x', (m, f) :: y' => String.eqb n m && node_sim e f && list_sim x' y'
    | _, _ => false
    end in
  match a, b with
  | NDir m c, NDir m' c' => N.eqb (m_mode m) (m_mode m') && list_sim c c'
  | NFile m d, NFile m' d' => N.eqb (m_mode m) (m_mode m') && String.eqb d d'
  | NLink _ t, NLink _ t' => String.eqb t t'
  | NOther m ty, NOther m' ty' => N.eqb (m_mode m) (m_mode m') && N.eqb ty ty'
  | _, _ => false
  end.

Definition problem_leb (a b : problem) : bool :=
  if path_ltb (fst a) (fst b) then true
  else if path_ltb (fst b) (fst a) then false
  else Nat.leb (snd a) (snd b).

Fixpoint insert_problem (x : problem) (l : list problem) : list problem :=
  match l with
  | [] => [x]
  | y :: t => if problem_leb x y then x :: l else y :: insert_problem x t
  end.
Definition sort_problems (l : list problem) : list problem := fold_right insert_problem [] l.

Definition problem_eqb (a b : problem) : bool :=
  path_eqb (fst a) (fst b) && Nat.eqb (snd a) (snd b).

Fixpoint list_eqb {A : Type} (eqb : A -> A -> bool) (x y : list A) : bool :=
  match x, y with
  | [], [] => true
  | a :: x', b :: y' => eqb a b && list_eqb eqb x' y'
  | _, _ => false
  end.

Definition run_model (fixed : bool) (c : tcase) (o : nat -> outcome) : tstate * list oentry :=
  transition (norm_of (t_norm c)) (menv o) (t_rn c) (t_cache c) (t_slm c)
             (t_dfm c) (t_ddm c) (t_own c) fixed (t_pre c) (t_store c) (t_plan c).

Definition agrees (c : tcase) (out : tstate * list oentry) : bool :=
  let '(s, rs) := out in
  node_sim (x_fs (tx s)) (t_post c) &&
  list_eqb oentry_eqb rs (t_results c) &&
  list_eqb problem_eqb (sort_problems (tprobs s)) (sort_problems (t_problems c)) &&
  Bool.eqb (tmiss s) (t_missing c).

(* the largest call index tried when the cancellation point is only known as
   "inside the j-th Provide call" *)
Definition cancel_search : nat := 300.

(* lazy search (the branches of [if] are evaluated on demand by vm_compute) *)
Fixpoint search_from (f : nat -> bool) (k n : nat) : bool :=
  match n with
  | O => false
  | S n' => if f k then true else search_from f (S k) n'
  end.

(* [fixed]: compare with the model of createSymbolicLink as repaired *)
Definition model_agrees (fixed : bool) (c : tcase) : bool :=
  match t_cancel c with
  | CNever => agrees c (run_model fixed c no_faults)
  | CStart => agrees c (run_model fixed c (cancel_from 0))
  | CProvide _ => search_from (fun k => agrees c (run_model fixed c (cancel_from k))) 0 cancel_search
  | CAsync => true
  end.

(* ---------- well-formedness of a case ---------- *)
Fixpoint tsorted (x : node) : bool :=
  let fix go (l : list (name * node)) : bool :=
    match l with
    | [] => true
    | (_, y) :: t => tsorted y && go t
    end in
  match x with
  | NDir _ c => sorted_names (map fst c) && go c
  | _ => true
  end.

Definition case_wf (c : tcase) : bool :=
  name_valid (t_rn c) &&
  tsorted (t_pre c) && tsorted (t_post c) &&
  forallb (fun x => wf true (cold x) && wf true (cnew x)) (t_plan c) &&
  paths_disjoint (map cpath (t_plan c)) &&
  match t_pre c with NDir _ _ => true | _ => false end.

(* ---------- the checkers on the implementation's outputs ---------- *)
Definition impl_c08 (c : tcase) : bool :=
  check_c08 (norm_of (t_norm c)) (t_slm c) (t_rn c) (t_cache c) (t_pre c) (t_post c)
            (t_problems c) (t_plan c).

Definition c09_premise (c : tcase) : bool :=
  pre_described (hash_of (t_hash c)) (norm_of (t_norm c)) all_names_ok (t_slm c) (t_rn c)
                (t_pre c) (t_plan c).

Definition impl_c09 (c : tcase) : bool :=
  check_c09 (hash_of (t_hash c)) (norm_of (t_norm c)) all_names_ok (t_slm c) (t_rn c)
            (t_plan c) (t_post c) (t_results c).

(* cancelled before the call: every result is the old entry, nothing moved *)
Definition impl_cancel_start (c : tcase) : bool :=
  match t_cancel c with
  | CStart => list_eqb oentry_eqb (t_results c) (map cold (t_plan c)) &&
              node_eqb (t_post c) (t_pre c)
  | _ => true
  end.

(* a staged file that is missing, reached without any other failure, sets the
   flag: checked through the correspondence bit (the model sets it) *)

Definition corr_bit (fixed : bool) (c : tcase) : nat :=
  if t_faulted c then 0 else if model_agrees fixed c then 0 else 1.

Definition failures_with (fixed : bool) (check known : tcase -> bool) :=
  fix go (i : nat) (cs : list tcase) : list (nat * nat) :=
    match cs with
    | [] => []
    | c :: t =>
      let v := if case_wf c then
                 corr_bit fixed c + (if check c then 0 else (if known c then 6 else 2))
               else 8 in
      match v with
      | O => go (S i) t
      | _ => (i, v) :: go (S i) t
      end
    end.

Definition no_known (c : tcase) : bool := false.

Definition c08_failures := failures_with false impl_c08 no_known.
Definition c08_failures_fixed := failures_with true impl_c08 no_known.

(* C09 is claimed for transitions that start from the scanned state *)
Definition c09_check (c : tcase) : bool :=
  (if c09_premise c then impl_c09 c else true) && impl_cancel_start c.

Definition c09_failures := failures_with false c09_check no_known.
Definition c09_failures_fixed := failures_with true c09_check no_known.

(* C03 on disk: untracked content that appeared after the scan (at creation
   targets, inside removed directories) is untouched *)
Definition impl_c03 (c : tcase) : bool :=
  check_c03_disk (t_rn c) (t_pre c) (t_post c) (t_plan c).

Definition c03_failures := failures_with false impl_c03 no_known.
Definition c03_failures_fixed := failures_with true impl_c03 no_known.
