(* Correspondence harness for C38 (and the URL part of C36), evaluated inside
   Coq by vm_compute. Depends on Model/ only.

   Cases (what the Go harness observed on the real pkg/url):
     UP raw k env nz out1 valid1 fmt1 out2
        out1 = Parse(raw, k, first); when it succeeded: valid1 = (EnsureValid()
        == nil), fmt1 = Format(""), out2 = Parse(fmt1, k, first). [env] = the
        Docker variables visible to the parser, [nz] = observed results of
        filesystem.Normalize on the strings the parser can pass to it.
     UV u valid    EnsureValid on an arbitrary URL value
     UF u s        Format("") on an arbitrary URL value
   Verdict bits: 1 = model <> implementation (parse, validity, format, reparse,
   or the stated assumptions on Normalize: absolute and idempotent);
   2 = check_C38 fails on the implementation's outputs (a parsed URL that is
   invalid or does not survive Format/Parse). *)
From Coq Require Import List Bool Arith NArith String.
From Coq.Strings Require Import Byte.
Import ListNotations.
From Mv Require Import Common.Bytes Common.Str Model.Url.

Inductive out2c := Same2 | O2 (o : perr + url).
Inductive fmtc := SameRaw | Fm (s : str).

Inductive ucase :=
| UP (raw : str) (k : kind) (env : list (str * str)) (nz : list (str * option str))
     (out1 : perr + url) (valid1 : bool) (fmt1 : fmtc) (out2 : out2c)
| UV (u : url) (valid : bool)
| UF (u : url) (s : str).

(* short constructors printed by the Go harness *)
Definition U (k : kind) (p : protocol) (user host : str) (port : N) (path : str)
           (env params : list (str * str)) : url :=
  {| u_kind := k; u_proto := p; u_user := user; u_host := host; u_port := port;
     u_path := path; u_env := env; u_params := params |}.
Definition Ok (u : url) : perr + url := inr u.
Definition Er (e : perr) : perr + url := inl e.
Definition E0 : str := [].

(* the common case "a local synchronization path [raw] that normalizes to [n]":
   exactly the UP term the Go harness would print for it *)
Definition UL (raw n : str) : ucase :=
  UP raw KSync []
     (if str_eqb raw n then [(n, Some n)] else [(raw, Some n); (n, Some n)])
     (Ok (U KSync PLocal E0 E0 0%N n [] [])) true
     (if str_eqb raw n then SameRaw else Fm n) Same2.

Definition nz_fun (nz : list (str * option str)) (s : str) : option str :=
  match find (fun p => str_eqb (fst p) s) nz with
  | Some (_, o) => o
  | None => None
  end.

(* the assumptions the theorems make about Normalize, on the observed calls *)
Definition nz_ok (nz : list (str * option str)) : bool :=
  forallb (fun p => match snd p with
                    | Some o => is_abs o
                                && match nz_fun nz o with Some o' => str_eqb o' o | None => false end
                    | None => true
                    end) nz.

Definition url_verdict (fx : fixes) (c : ucase) : nat :=
  match c with
  | UP raw k env nz out1 valid1 fmt1 out2 =>
      let nf := nz_fun nz in
      let f1 := match fmt1 with SameRaw => raw | Fm s => s end in
      let o2 := match out2 with Same2 => out1 | O2 o => o end in
      let corr :=
          result_eqb (parse nf fx raw k env) out1
          && match out1 with
             | inr u => Bool.eqb (url_valid fx u) valid1
                        && str_eqb (format fx u) f1
                        && result_eqb (parse nf fx f1 k env) o2
             | inl _ => true
             end
          && nz_ok nz in
      (if corr then 0 else 1) + (if check_C38 out1 valid1 o2 then 0 else 2)
  | UV u valid => if Bool.eqb (url_valid fx u) valid then 0 else 1
  | UF u s => if str_eqb (format fx u) s then 0 else 1
  end%nat.

Fixpoint url_failures_fx (fx : fixes) (i : nat) (cs : list ucase) : list (nat * nat) :=
  match cs with
  | [] => []
  | c :: t => match url_verdict fx c with
              | O => url_failures_fx fx (S i) t
              | v => (i, v) :: url_failures_fx fx (S i) t
              end
  end.

(* which repairs the implementation under test is expected to contain *)
Definition fx_of (f38 f36 : bool) : fixes :=
  {| fx_port0 := f38; fx_duser := f38; fx_dash := f36 |}.
Definition url_failures := url_failures_fx (fx_of false false).
Definition url_failures_38 := url_failures_fx (fx_of true false).
Definition url_failures_36 := url_failures_fx (fx_of false true).
Definition url_failures_3638 := url_failures_fx (fx_of true true).
