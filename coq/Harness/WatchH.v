(* Trace-validation harness for C42, evaluated inside Coq by vm_compute.
   A case is (fixed, acceleration allowed, replayable, initial content,
   (W, warm, tend), strobe slack, timed trace, observed history).
   - The timed trace is what a real local endpoint in force-poll mode did, in
     the total order of its own debug log lines (polling loop: scan begun /
     failed / succeeded / compare outcome; Scan: cached or full) and of the
     single driver's calls (Scan results, Transition with the contents it
     produced, external edits, returns of Poll). It is replayed through
     Model/Watch.v's [step]: bit 1 = some action is not enabled in the model,
     or the model's compare outcome / cached-or-full decision / returned
     content differs from the logged one, or the model's strobes and the
     observed returns of Poll do not match up within the slack.
   - The observed history is judged by check_C42 (Model/WatchObs.v):
     bit 2 = a Scan returned a content from before the last changing
     Transition, or an isolated persisting external edit was not followed by a
     return of Poll within the window.
   Depends on Model/ only. *)
From Coq Require Import List Bool Arith NArith.
Import ListNotations.
From Mv Require Import Model.Watch Model.WatchObs.

Inductive hev :=
| HPollBegin
| HPollFail
| HPollOk
| HPollCmp (strobed : bool)
| HScan (full : bool) (cached : bool) (c : nat)
| HTrans (cs : list nat)
| HEdit (c : nat)
| HPollRet.

(* (fixed, acceleration allowed (scan mode), replayable, initial content,
   (W, warm, tend), strobe slack, timed trace, observed history).
   replayable = false: a poll scan overlapped a Transition or an edit, so the
   order of their effects is not observable and the trace is not replayed;
   the observed history is judged all the same. *)
Definition wcase :=
  (bool * bool * bool * nat * (nat * nat * nat) * nat * list (nat * hev) * list oev)%type.

(* aliases with nat times (milliseconds) *)
Definition XD (t c : nat) (ext : bool) : oev := XDisk (N.of_nat t) c ext.
Definition XT (t : nat) (ch : bool) : oev := XTEnd (N.of_nat t) ch.
Definition XS (t0 t1 c : nat) : oev := XScan (N.of_nat t0) (N.of_nat t1) c.
Definition XP (t : nat) : oev := XPoll (N.of_nat t).

Section Replay.
Variable fixed : bool.

Definition new_events (old new : st) : list event :=
  firstn (List.length (log new) - List.length (log old)) (log new).

Definition strobes_in (evs : list event) : nat :=
  List.length (filter (fun e => match e with EvStrobe _ _ => true | _ => false end) evs).

(* run the actions of one trace event; check the model against what was logged *)
Definition replay_one (s : st) (h : hev) : option (st * bool) :=
  match h with
  | HPollBegin =>
      match run fixed s [ATick; APollBegin] with Some s' => Some (s', true) | None => None end
  | HPollFail =>
      match step fixed s APollFail with Some s' => Some (s', true) | None => None end
  | HPollOk =>
      match run fixed s [APollRead; APollEnd] with Some s' => Some (s', true) | None => None end
  | HPollCmp strobed =>
      match step fixed s APollCompare with
      | Some s' =>
          Some (s', existsb (fun e => match e with
                                      | EvPollCompare _ st => Bool.eqb st strobed
                                      | _ => false end) (new_events s s'))
      | None => None
      end
  | HScan full cached c =>
      match step fixed s (AScan full) with
      | Some s1 =>
          match new_events s s1 with
          | EvScanCached c' _ _ :: _ => Some (s1, cached && Nat.eqb c' c)
          | _ =>
              match run fixed s1 [AScanRead; AScanEnd true] with
              | Some s2 =>
                  Some (s2, negb cached
                            && match new_events s1 s2 with
                               | EvScanFull c' _ :: _ => Nat.eqb c' c
                               | _ => false
                               end)
              | None => None
              end
          end
      | None => None
      end
  | HTrans cs =>
      match run fixed s (ATBegin :: map ATChange cs ++ [ATEnd]) with
      | Some s' => Some (s', true)
      | None => None
      end
  | HEdit c =>
      match step fixed s (AEdit c) with Some s' => Some (s', true) | None => None end
  | HPollRet => Some (s, true)
  end.

(* result: agreement so far, times of the model's strobes, times of Poll returns *)
Fixpoint replay (s : st) (tr : list (nat * hev)) (strobes rets : list nat)
  : bool * list nat * list nat :=
  match tr with
  | [] => (true, strobes, rets)
  | (t, h) :: rest =>
      match replay_one s h with
      | None => (false, strobes, rets)
      | Some (s', ok) =>
          let k := strobes_in (new_events s s') in
          let strobes' := repeat t k ++ strobes in
          let rets' := match h with HPollRet => t :: rets | _ => rets end in
          let '(b, st', rt') := replay s' rest strobes' rets' in
          (ok && b, st', rt')
      end
  end.

End Replay.

Definition matched (slack tend : nat) (strobes rets : list nat) : bool :=
  (* every return is explained by a strobe shortly before it *)
  forallb (fun r => existsb (fun x => (x <=? r + 50) && (r <=? x + slack)) strobes) rets
  (* every strobe (old enough to have been delivered) is followed by a return *)
  && forallb (fun x => (tend <? x + slack)
                       || existsb (fun r => (x <=? r + 50) && (r <=? x + slack)) rets) strobes.

Definition watch_verdict (c : wcase) : nat :=
  let '(fixed, acc, replayable, c0, (w, warm, tend), slack, tr, obs) := c in
  let '(ok, strobes, rets) := replay fixed (init acc c0) tr [] [] in
  (if negb replayable || (ok && matched slack tend strobes rets) then 0 else 1)
  + (if check_C42 (N.of_nat w) (N.of_nat warm) (N.of_nat tend) c0 obs then 0 else 2).

Fixpoint watch_failures (i : nat) (cs : list wcase) : list (nat * nat) :=
  match cs with
  | [] => []
  | c :: t => match watch_verdict c with
              | O => watch_failures (S i) t
              | v => (i, v) :: watch_failures (S i) t
              end
  end.
