(* Model of pkg/agent/transport/stream.go, method Close of Stream: the
   escalation machine

     wait terminationDelay -> close stdin -> wait 1s -> SIGTERM -> wait 1s
       -> Kill -> wait for ever

   run against an arbitrary agent process.  Definitions only.

   Time is in milliseconds since Close was called (N).  The ENVIRONMENT is
   data the theorems quantify over:
   - the process [proc]: when it exits by itself, how long after its standard
     input closed, how long after SIGTERM, how long after SIGKILL (each may be
     "never");
   - the timers and the scheduler [env]: every timer may fire late by an
     arbitrary amount, and when the process exits at the very instant a timer
     fires the select may take either branch.
   - whether the process leaves behind a descendant that still holds its
     standard error [p_linger]: NewStream forwards a StderrPipe by hand instead
     of setting Cmd.Stderr, so Wait has no copying goroutine to wait for and the
     machine below does not look at this parameter at all (golang/go#23019);
   Assumed, not modelled (named in the theorems): os/exec.Cmd.Wait returns when
   the child has exited and been reaped; a process cannot ignore SIGKILL (the
   hypothesis [p_kill p <> None]). *)
From Coq Require Import NArith List Bool.
Import ListNotations.
Open Scope N_scope.

Record proc := {
  p_self : option N;    (* exits on its own at this time *)
  p_stdin : option N;   (* exits this long after its standard input was closed *)
  p_term : option N;    (* exits this long after SIGTERM *)
  p_kill : option N;    (* exits this long after SIGKILL *)
  p_linger : bool }.    (* it leaves behind a descendant that inherited its standard
                           error and outlives it (e.g. a backgrounded helper) *)

Record env := {
  j0 : N; j1 : N; j2 : N;                 (* lateness of the three timers *)
  tie0 : bool; tie1 : bool; tie2 : bool }. (* on a tie the timer branch is taken *)

Definition env0 : env :=
  {| j0 := 0; j1 := 0; j2 := 0; tie0 := false; tie1 := false; tie2 := false |}.

(* the constants in Close: waitTimer.Reset(time.Second), twice *)
Definition w_stdin : N := 1000.
Definition w_term : N := 1000.

Definition omin (a b : option N) : option N :=
  match a, b with
  | Some x, Some y => Some (N.min x y)
  | Some x, None => Some x
  | None, _ => b
  end.

Definition oadd (t : option N) (a : option N) : option N :=
  match t, a with Some t', Some a' => Some (t' + a') | _, _ => None end.

(* the same process with or without the lingering descendant *)
Definition with_linger (b : bool) (p : proc) : proc :=
  {| p_self := p_self p; p_stdin := p_stdin p; p_term := p_term p; p_kill := p_kill p;
     p_linger := b |}.

(* when the process exits, given when (if at all) each signal was sent *)
Definition earliest_exit (p : proc) (stdin_at term_at kill_at : option N) : option N :=
  omin (omin (omin (p_self p) (oadd stdin_at (p_stdin p))) (oadd term_at (p_term p)))
       (oadd kill_at (p_kill p)).

(* select { case err := <-waitResults: ...; case <-waitTimer.C: }: the wait
   result is taken when the exit comes before the timer fires at T, or at the
   same instant unless the tie goes to the timer *)
Definition wins (x : option N) (T : N) (tie : bool) : option N :=
  match x with
  | Some t => if (t <? T) || ((t =? T) && negb tie) then Some t else None
  | None => None
  end.

Inductive stage := StSelf | StStdin | StTerm | StKill.

Record outcome := {
  o_stage : stage;           (* the select that received the wait result *)
  o_ret : N;                 (* when Close returned *)
  o_exit : N;                (* when the process exited *)
  o_stdin_at : option N;     (* when standard input was closed, if it was *)
  o_term_at : option N;      (* when SIGTERM was sent, if it was *)
  o_kill_at : option N }.    (* when SIGKILL was sent, if it was *)

(* Close, branch for branch.  None = the final "<-waitResults" never returns. *)
Definition close_run (d : N) (p : proc) (e : env) : option outcome :=
  let T1 := d + j0 e in
  match wins (earliest_exit p None None None) T1 (tie0 e) with
  | Some t =>
      Some {| o_stage := StSelf; o_ret := t; o_exit := t;
              o_stdin_at := None; o_term_at := None; o_kill_at := None |}
  | None =>
    (* s.standardInput.Close(); waitTimer.Reset(time.Second) *)
    let T2 := T1 + w_stdin + j1 e in
    match wins (earliest_exit p (Some T1) None None) T2 (tie1 e) with
    | Some t =>
        Some {| o_stage := StStdin; o_ret := N.max t T1; o_exit := t;
                o_stdin_at := Some T1; o_term_at := None; o_kill_at := None |}
    | None =>
      (* s.process.Process.Signal(syscall.SIGTERM); waitTimer.Reset(time.Second) *)
      let T3 := T2 + w_term + j2 e in
      match wins (earliest_exit p (Some T1) (Some T2) None) T3 (tie2 e) with
      | Some t =>
          Some {| o_stage := StTerm; o_ret := N.max t T2; o_exit := t;
                  o_stdin_at := Some T1; o_term_at := Some T2; o_kill_at := None |}
      | None =>
        (* s.process.Process.Kill(); return <-waitResults *)
        match earliest_exit p (Some T1) (Some T2) (Some T3) with
        | Some t =>
            Some {| o_stage := StKill; o_ret := N.max t T3; o_exit := t;
                    o_stdin_at := Some T1; o_term_at := Some T2; o_kill_at := Some T3 |}
        | None => None
        end
      end
    end
  end.

(* ------------------------------------------------------------------ *)
(* What the harness observes of one real Close, and the checker. *)

Record obs := {
  ob_returned : bool;      (* Close returned before the watchdog gave up *)
  ob_dead : bool;          (* right after the return: the child is gone (reaped, no such pid) *)
  ob_ret : N;              (* when Close returned *)
  ob_eof : option N;       (* when the child saw its standard input close *)
  ob_term : option N;      (* when the child received SIGTERM *)
  ob_killed : bool;        (* the child died of SIGKILL *)
  ob_noise : N }.          (* worst scheduling lateness the harness and the child measured
                              on their own 5 ms probe sleeps while this Close ran *)

(* C35's statement, nothing more: Close returned and the process has exited *)
Definition check_C35 (o : obs) : bool := ob_returned o && ob_dead o.

(* the model's outcome seen as an observation *)
Definition obs_of (p : proc) (o : outcome) : obs :=
  {| ob_returned := true; ob_dead := o_exit o <=? o_ret o; ob_ret := o_ret o;
     ob_eof := o_stdin_at o; ob_term := o_term_at o;
     ob_killed := match o_stage o with StKill => true | _ => false end;
     ob_noise := 0 |}.

(* ------------------------------------------------------------------ *)
(* Correspondence of an observed run with the model, robust against jitter:
   only one-sided statements that lateness below [margin] cannot falsify. *)

Definition stage_eqb (a b : stage) : bool :=
  match a, b with
  | StSelf, StSelf | StStdin, StStdin | StTerm, StTerm | StKill, StKill => true
  | _, _ => false
  end.

Definition slow (m : N) (p : proc) : proc :=
  {| p_self := option_map (N.add m) (p_self p); p_stdin := option_map (N.add m) (p_stdin p);
     p_term := option_map (N.add m) (p_term p); p_kill := option_map (N.add m) (p_kill p);
     p_linger := p_linger p |}.

Definition late (m : N) : env :=
  {| j0 := m; j1 := m; j2 := m; tie0 := false; tie1 := false; tie2 := false |}.

Definition obs_stage (o : obs) : stage :=
  if ob_killed o then StKill
  else match ob_term o with
       | Some _ => StTerm
       | None => match ob_eof o with Some _ => StStdin | None => StSelf end
       end.

Definition ole (a : N) (b : option N) (eps : N) : bool :=
  match b with Some t => a <=? t + eps | None => true end.

Definition stage_rank (a : stage) : N :=
  match a with StSelf => 0 | StStdin => 1 | StTerm => 2 | StKill => 3 end.
Definition stage_le (a b : stage) : bool := stage_rank a <=? stage_rank b.

(* [eps]: clock granularity; [margin]: lateness each one-sided prediction must
   survive; [slack]: how much later than the latest prediction the return may
   be.  Lateness only delays: a slow process can only push Close to a later
   stage, late timers only to an earlier one; neither makes anything happen
   earlier than in the punctual model.  So:
   - no signal earlier than the model's waits allow;
   - not escalated further than the model does for a process that is [margin]
     slower (with punctual timers);
   - escalated at least as far as the model does with timers [margin] late;
   - the return is not before the punctual model's, and not later than the
     model's with both latenesses, plus [slack]. *)
Definition corr_C35 (eps margin slack quiet : N) (d : N) (p : proc) (o : obs) : bool :=
  ole d (ob_eof o) eps
  && ole (d + w_stdin) (ob_term o) eps
  && (if ob_killed o then d + w_stdin + w_term <=? ob_ret o + eps else true)
  (* the two-sided comparison only when the machine was quiet enough for
     [margin] to cover the lateness (measured independently of the code) *)
  && implb (ob_returned o && (ob_noise o <=? quiet))
       match close_run d p env0, close_run d p (late margin), close_run d (slow margin p) env0,
             close_run d (slow margin p) (late margin) with
       | Some m0, Some ma, Some mb, Some mc =>
           stage_le (obs_stage o) (o_stage mb)
           && stage_le (o_stage ma) (obs_stage o)
           && (o_ret m0 <=? ob_ret o + eps)
           && (ob_ret o <=? o_ret mc + slack)
       | _, _, _, _ => true
       end.
