(* Model of the argument vectors mutagen builds for ssh, scp and docker
   (pkg/agent/transport/ssh/transport.go: Command, Copy;
    pkg/agent/transport/docker/transport.go: command, Copy, changeContainerStatus;
    pkg/ssh/ssh.go: CompressionFlag, ConnectTimeoutFlag, ServerAliveFlags;
    pkg/docker/flags.go: LoadDaemonConnectionFlagsFromURLParameters, ToFlags;
    the glue in pkg/{synchronization,forwarding}/protocols/{ssh,docker}/protocol.go)
   and a small model of getopt-style argument parsing that says what "passed
   as an operand" means. Definitions only. *)
From Coq Require Import List Bool Arith NArith String.
From Coq.Strings Require Import Byte.
Import ListNotations.
From Mv Require Import Common.Str Model.Url.
Open Scope N_scope.

(* ================================================================ *)
(* Argument vector construction                                      *)

Definition c_space : byte := " "%byte.
Definition c_eq : byte := "="%byte.

Definition s_oConnectTimeout : str := Eval vm_compute in B "-oConnectTimeout=".
Definition s_oServerAliveInterval : str := Eval vm_compute in B "-oServerAliveInterval=".
Definition s_oServerAliveCountMax : str := Eval vm_compute in B "-oServerAliveCountMax=".
Definition s_C : str := Eval vm_compute in B "-C".
Definition s_p : str := Eval vm_compute in B "-p".
Definition s_P : str := Eval vm_compute in B "-P".

(* ssh.ConnectTimeoutFlag, ssh.ServerAliveFlags, ssh.CompressionFlag *)
Definition connect_timeout_flag (t : N) : str := s_oConnectTimeout ++ N_to_dec t.
Definition server_alive_flags (interval count_max : N) : list str :=
  [s_oServerAliveInterval ++ N_to_dec interval; s_oServerAliveCountMax ++ N_to_dec count_max].

(* serverAliveIntervalSeconds, serverAliveCountMax *)
Definition alive_interval : N := 10.
Definition alive_count : N := 1.

(* target := host, or user@host *)
Definition ssh_target (user host : str) : str :=
  match user with [] => host | _ => user ++ c_at :: host end.

(* sshTransport.Command: arguments after the executable name.
   [timeout] = connectTimeoutSeconds (5 unless MUTAGEN_SSH_CONNECT_TIMEOUT) *)
Definition ssh_argv (timeout : N) (user host : str) (port : N) (command : str) : list str :=
  [connect_timeout_flag timeout]
  ++ server_alive_flags alive_interval alive_count
  ++ (if port =? 0 then [] else [s_p; N_to_dec port])
  ++ [ssh_target user host; command].

(* sshTransport.Copy: destinationURL := host:remote, or user@host:remote *)
Definition scp_destination (user host remote_name : str) : str :=
  let d := host ++ c_colon :: remote_name in
  match user with [] => d | _ => user ++ c_at :: d end.

Definition scp_argv (timeout : N) (user host : str) (port : N)
           (source_base remote_name : str) : list str :=
  [s_C; connect_timeout_flag timeout]
  ++ server_alive_flags alive_interval alive_count
  ++ (if port =? 0 then [] else [s_P; N_to_dec port])
  ++ [source_base; scp_destination user host remote_name].

(* protocol.go: ssh.NewTransport(url.User, url.Host, uint16(url.Port), prompter) *)
Definition transport_port (u : url) : N := u_port u mod 65536.

(* ---------- Docker ---------- *)

Record dflags := {
  df_config : str; df_host : str; df_context : str; df_tls : bool;
  df_tlscacert : str; df_tlscert : str; df_tlskey : str; df_tlsverify : bool
}.

Definition dflags_zero : dflags :=
  {| df_config := []; df_host := []; df_context := []; df_tls := false;
     df_tlscacert := []; df_tlscert := []; df_tlskey := []; df_tlsverify := false |}.

Definition s_config : str := Eval vm_compute in B "config".
Definition s_context : str := Eval vm_compute in B "context".
Definition s_host : str := Eval vm_compute in B "host".
Definition s_tls : str := Eval vm_compute in B "tls".
Definition s_tlscacert : str := Eval vm_compute in B "tlscacert".
Definition s_tlscert : str := Eval vm_compute in B "tlscert".
Definition s_tlskey : str := Eval vm_compute in B "tlskey".
Definition s_tlsverify : str := Eval vm_compute in B "tlsverify".

(* docker.LoadDaemonConnectionFlagsFromURLParameters: None = error. The Go
   code ranges over a map; every key sets its own field, so the order is
   irrelevant and a map has no duplicate keys. *)
Fixpoint load_dflags (params : list (str * str)) (acc : dflags) : option dflags :=
  match params with
  | [] => Some acc
  | (k, v) :: t =>
      let nonempty := negb (is_nil v) in
      let set (ok : bool) (f : dflags) := if ok then load_dflags t f else None in
      if str_eqb k s_config then
        set nonempty {| df_config := v; df_host := df_host acc; df_context := df_context acc; df_tls := df_tls acc; df_tlscacert := df_tlscacert acc; df_tlscert := df_tlscert acc; df_tlskey := df_tlskey acc; df_tlsverify := df_tlsverify acc |}
      else if str_eqb k s_context then
        set nonempty {| df_config := df_config acc; df_host := df_host acc; df_context := v; df_tls := df_tls acc; df_tlscacert := df_tlscacert acc; df_tlscert := df_tlscert acc; df_tlskey := df_tlskey acc; df_tlsverify := df_tlsverify acc |}
      else if str_eqb k s_host then
        set nonempty {| df_config := df_config acc; df_host := v; df_context := df_context acc; df_tls := df_tls acc; df_tlscacert := df_tlscacert acc; df_tlscert := df_tlscert acc; df_tlskey := df_tlskey acc; df_tlsverify := df_tlsverify acc |}
      else if str_eqb k s_tls then
        set (is_nil v) {| df_config := df_config acc; df_host := df_host acc; df_context := df_context acc; df_tls := true; df_tlscacert := df_tlscacert acc; df_tlscert := df_tlscert acc; df_tlskey := df_tlskey acc; df_tlsverify := df_tlsverify acc |}
      else if str_eqb k s_tlscacert then
        set nonempty {| df_config := df_config acc; df_host := df_host acc; df_context := df_context acc; df_tls := df_tls acc; df_tlscacert := v; df_tlscert := df_tlscert acc; df_tlskey := df_tlskey acc; df_tlsverify := df_tlsverify acc |}
      else if str_eqb k s_tlscert then
        set nonempty {| df_config := df_config acc; df_host := df_host acc; df_context := df_context acc; df_tls := df_tls acc; df_tlscacert := df_tlscacert acc; df_tlscert := v; df_tlskey := df_tlskey acc; df_tlsverify := df_tlsverify acc |}
      else if str_eqb k s_tlskey then
        set nonempty {| df_config := df_config acc; df_host := df_host acc; df_context := df_context acc; df_tls := df_tls acc; df_tlscacert := df_tlscacert acc; df_tlscert := df_tlscert acc; df_tlskey := v; df_tlsverify := df_tlsverify acc |}
      else if str_eqb k s_tlsverify then
        set (is_nil v) {| df_config := df_config acc; df_host := df_host acc; df_context := df_context acc; df_tls := df_tls acc; df_tlscacert := df_tlscacert acc; df_tlscert := df_tlscert acc; df_tlskey := df_tlskey acc; df_tlsverify := true |}
      else None
  end.

Definition dd (name : str) : str := "-"%byte :: "-"%byte :: name.

(* DaemonConnectionFlags.ToFlags *)
Definition to_flags (f : dflags) : list str :=
  (match df_config f with [] => [] | v => [dd s_config; v] end)
  ++ (match df_host f with [] => [] | v => [dd s_host; v] end)
  ++ (match df_context f with [] => [] | v => [dd s_context; v] end)
  ++ (if df_tls f then [dd s_tls] else [])
  ++ (match df_tlscacert f with [] => [] | v => [dd s_tlscacert; v] end)
  ++ (match df_tlscert f with [] => [] | v => [dd s_tlscert; v] end)
  ++ (match df_tlskey f with [] => [] | v => [dd s_tlskey; v] end)
  ++ (if df_tlsverify f then [dd s_tlsverify] else []).

Definition s_exec : str := Eval vm_compute in B "exec".
Definition s_cp : str := Eval vm_compute in B "cp".
Definition s_stop : str := Eval vm_compute in B "stop".
Definition s_start : str := Eval vm_compute in B "start".
Definition s_interactive : str := Eval vm_compute in B "interactive".
Definition s_user : str := Eval vm_compute in B "user".
Definition s_workdir : str := Eval vm_compute in B "workdir".

(* dockerTransport.command(command, workingDirectory, user) *)
Definition docker_exec_argv (flags : list str) (container t_user : str)
           (command workdir user_override : str) : list str :=
  flags
  ++ [s_exec; dd s_interactive]
  ++ (match user_override with
      | [] => match t_user with [] => [] | _ => [dd s_user; t_user] end
      | _ => [dd s_user; user_override]
      end)
  ++ (match workdir with [] => [] | _ => [dd s_workdir; workdir] end)
  ++ [container]
  ++ split_on c_space command.

(* dockerTransport.Copy: the docker cp invocation *)
Definition docker_cp_argv (flags : list str) (container home local_path remote_name : str)
           (windows : bool) : list str :=
  flags ++ [s_cp; local_path;
            container ++ c_colon :: home ++ (if windows then c_bslash else c_slash) :: remote_name].

(* dockerTransport.changeContainerStatus *)
Definition docker_status_argv (flags : list str) (container : str) (stop : bool) : list str :=
  flags ++ [if stop then s_stop else s_start; container].

(* ================================================================ *)
(* getopt-style parsing                                              *)

Record optspec := {
  sp_flags : list byte;       (* one-letter options without argument *)
  sp_args : list byte;        (* one-letter options with an argument *)
  sp_lflags : list str;       (* --name options without argument *)
  sp_largs : list str;        (* --name options with an argument (--name v, --name=v) *)
  sp_permute : bool           (* true: operands and options may be interspersed (GNU
                                 getopt, pflag default); false: the first operand
                                 ends option parsing (POSIX/BSD getopt,
                                 pflag SetInterspersed(false)) *)
}.

Inductive item :=
| IFlag (c : byte)                       (* -c *)
| IOptArg (c : byte) (arg : str)         (* -c arg / -carg *)
| ILFlag (name : str)                    (* --name *)
| ILArg (name : str) (arg : str)         (* --name arg / --name=arg *)
| IBad (w : str)                         (* unknown option or missing argument *)
| IOperand (w : str).

Definition mem_byte (c : byte) (l : list byte) : bool := existsb (Byte.eqb c) l.
Definition mem_str (s : str) (l : list str) : bool := existsb (str_eqb s) l.
Definition has_long (sp : optspec) : bool := negb (is_nil (sp_lflags sp) && is_nil (sp_largs sp)).

(* the letters of one "-abc" word: the items they yield and, if the last
   letter takes an argument that is not attached, that letter *)
Fixpoint cluster (sp : optspec) (chars : str) : list item * option byte :=
  match chars with
  | [] => ([], None)
  | c :: rest =>
      if mem_byte c (sp_args sp) then
        match rest with
        | [] => ([], Some c)
        | _ => ([IOptArg c rest], None)
        end
      else
        let '(items, pending) := cluster sp rest in
        ((if mem_byte c (sp_flags sp) then IFlag c else IBad [c]) :: items, pending)
  end.

Inductive word_class :=
| WOperand                       (* "", "-", or not starting with '-' *)
| WEnd                           (* "--" *)
| WLong (name : str) (val : option str)   (* --name, --name=val *)
| WShort (chars : str).          (* -abc *)

Definition classify_word (sp : optspec) (w : str) : word_class :=
  match w with
  | [] => WOperand
  | x :: t =>
      if negb (Byte.eqb x c_dash) then WOperand
      else match t with
           | [] => WOperand
           | y :: t' =>
               if Byte.eqb y c_dash then
                 match t' with
                 | [] => WEnd
                 | _ => if has_long sp
                        then match break_at (byte_is c_eq) t' with
                             | (name, []) => WLong name None
                             | (name, _ :: v) => WLong name (Some v)
                             end
                        else WShort t          (* BSD getopt: '-' is just a letter *)
                 end
               else WShort t
           end
  end.

(* Parse an argument vector (without the program name). *)
Fixpoint getopt (sp : optspec) (args : list str) {struct args} : list item :=
  match args with
  | [] => []
  | w :: t =>
      match classify_word sp w with
      | WOperand =>
          if sp_permute sp then IOperand w :: getopt sp t
          else map IOperand (w :: t)
      | WEnd => map IOperand t
      | WLong name (Some v) =>
          (if mem_str name (sp_largs sp) then ILArg name v else IBad w) :: getopt sp t
      | WLong name None =>
          if mem_str name (sp_largs sp) then
            match t with
            | v :: t' => ILArg name v :: getopt sp t'
            | [] => [IBad w]
            end
          else (if mem_str name (sp_lflags sp) then ILFlag name else IBad w) :: getopt sp t
      | WShort chars =>
          match cluster sp chars with
          | (items, None) => items ++ getopt sp t
          | (items, Some c) =>
              match t with
              | v :: t' => items ++ IOptArg c v :: getopt sp t'
              | [] => items ++ [IBad w]
              end
          end
      end
  end.

Definition operands (its : list item) : list str :=
  flat_map (fun i => match i with IOperand w => [w] | _ => [] end) its.
Definition options (its : list item) : list item :=
  filter (fun i => match i with IOperand _ => false | _ => true end) its.

(* ---------- the three programs ---------- *)

Definition bytes_of (s : string) : list byte := list_byte_of_string s.

Definition ssh_flags := Eval vm_compute in bytes_of "1246afgknqstvxACGKMNTVXYy".
Definition ssh_args := Eval vm_compute in bytes_of "bceilmopBDEFIJLOPQRSwW".
Definition scp_flags := Eval vm_compute in bytes_of "12346ABCTdfOpqRrstv".
Definition scp_args := Eval vm_compute in bytes_of "DFJMPSciloX".
Definition dkg_flags := Eval vm_compute in bytes_of "Dv".
Definition dkg_args := Eval vm_compute in bytes_of "cHl".
Definition dkg_lflags := Eval vm_compute in map B ["debug"; "tls"; "tlsverify"; "version"; "help"]%string.
Definition dkg_largs := Eval vm_compute in map B ["config"; "context"; "host"; "log-level"; "tlscacert"; "tlscert"; "tlskey"]%string.
Definition dke_flags := Eval vm_compute in bytes_of "dit".
Definition dke_args := Eval vm_compute in bytes_of "euw".
Definition dke_lflags := Eval vm_compute in map B ["detach"; "interactive"; "tty"; "privileged"; "help"]%string.
Definition dke_largs := Eval vm_compute in map B ["detach-keys"; "env"; "env-file"; "user"; "workdir"]%string.
Definition dkc_flags := Eval vm_compute in bytes_of "aLq".
Definition dkc_lflags := Eval vm_compute in map B ["archive"; "follow-link"; "quiet"; "help"]%string.
Definition dks_flags := Eval vm_compute in bytes_of "ai".
Definition dks_args := Eval vm_compute in bytes_of "st".
Definition dks_lflags := Eval vm_compute in map B ["attach"; "interactive"; "help"]%string.
Definition dks_largs := Eval vm_compute in map B ["signal"; "time"; "timeout"; "checkpoint"; "checkpoint-dir"; "detach-keys"]%string.

(* OpenSSH ssh.c: "1246ab:c:e:fgi:kl:m:no:p:qstvxAB:CD:E:F:GI:J:KL:MNO:P:Q:R:S:TVw:W:XYy";
   OpenSSH links its own BSD getopt: no long options, no permutation *)
Definition ssh_spec : optspec :=
  {| sp_flags := ssh_flags; sp_args := ssh_args;
     sp_lflags := []; sp_largs := []; sp_permute := false |}.

(* OpenSSH scp.c: "12346ABCTdfOpqRrstvD:F:J:M:P:S:c:i:l:o:X:"; both getopt
   flavours are considered (scp built against a permuting getopt or not) *)
Definition scp_spec (permute : bool) : optspec :=
  {| sp_flags := scp_flags; sp_args := scp_args;
     sp_lflags := []; sp_largs := []; sp_permute := permute |}.

(* docker (cobra/pflag): global options, parsed up to the subcommand *)
Definition docker_global_spec : optspec :=
  {| sp_flags := dkg_flags; sp_args := dkg_args;
     sp_lflags := dkg_lflags; sp_largs := dkg_largs; sp_permute := false |}.

(* docker exec: flags.SetInterspersed(false) *)
Definition docker_exec_spec : optspec :=
  {| sp_flags := dke_flags; sp_args := dke_args;
     sp_lflags := dke_lflags; sp_largs := dke_largs; sp_permute := false |}.

(* docker cp / stop / start: interspersed options *)
Definition docker_cp_spec : optspec :=
  {| sp_flags := dkc_flags; sp_args := [];
     sp_lflags := dkc_lflags; sp_largs := []; sp_permute := true |}.

Definition docker_status_spec : optspec :=
  {| sp_flags := dks_flags; sp_args := dks_args;
     sp_lflags := dks_lflags; sp_largs := dks_largs; sp_permute := true |}.

(* split a parse into the options before the first operand, that operand, and
   the words after it *)
Fixpoint until_operand (its : list item) : list item * option (str * list item) :=
  match its with
  | [] => ([], None)
  | IOperand w :: t => ([], Some (w, t))
  | i :: t => let '(o, r) := until_operand t in (i :: o, r)
  end.

(* ssh: options, destination (the first operand), then options again, then the
   command words (ssh.c re-runs getopt after the host name) *)
Record ssh_parsed := {
  sshp_opts : list item; sshp_dest : option str;
  sshp_opts2 : list item; sshp_command : list str
}.

Definition ssh_parse (args : list str) : ssh_parsed :=
  match until_operand (getopt ssh_spec args) with
  | (o, None) => {| sshp_opts := o; sshp_dest := None; sshp_opts2 := []; sshp_command := [] |}
  | (o, Some (dest, rest)) =>
      let its2 := getopt ssh_spec (operands rest) in
      {| sshp_opts := o; sshp_dest := Some dest;
         sshp_opts2 := options its2; sshp_command := operands its2 |}
  end.

(* docker: global options, subcommand, then the subcommand's own parse *)
Record docker_parsed := {
  dkp_global : list item; dkp_sub : option str; dkp_items : list item
}.

Definition docker_parse (args : list str) : docker_parsed :=
  match until_operand (getopt docker_global_spec args) with
  | (g, None) => {| dkp_global := g; dkp_sub := None; dkp_items := [] |}
  | (g, Some (sub, rest)) =>
      let words := operands rest in
      let sp := if str_eqb sub s_exec then docker_exec_spec
                else if str_eqb sub s_cp then docker_cp_spec
                else docker_status_spec in
      {| dkp_global := g; dkp_sub := Some sub; dkp_items := getopt sp words |}
  end.

(* ================================================================ *)
(* The checker for C36                                               *)

Inductive tool := TSsh | TScp | TDocker.

(* one recorded invocation: which program, its arguments *)
Definition record := (tool * list str)%type.

Fixpoint last_opt (l : list str) : option str :=
  match l with [] => None | [x] => Some x | _ :: t => last_opt t end.

Definition item_eqb (a b : item) : bool :=
  match a, b with
  | IFlag x, IFlag y => Byte.eqb x y
  | IOptArg x u, IOptArg y v => Byte.eqb x y && str_eqb u v
  | ILFlag x, ILFlag y => str_eqb x y
  | ILArg x u, ILArg y v => str_eqb x y && str_eqb u v
  | IBad x, IBad y => str_eqb x y
  | IOperand x, IOperand y => str_eqb x y
  | _, _ => false
  end.

Definition no_bad (its : list item) : bool :=
  forallb (fun i => match i with IBad _ => false | _ => true end) its.

Definition s_root : str := Eval vm_compute in B "root".

(* Does this recorded invocation pass user / host (container) as operands?
   ssh: the destination is exactly [user@]host and nothing is unparsable;
   scp: under both getopt flavours exactly two operands, the second starting
        with [user@]host followed by ':';
   docker exec: the first operand is the container, and if a user is given the
        --user option carries it (or "root" for mutagen's own chown);
   docker cp: two operands, the second starting with container ':';
   docker stop/start: the only operand is the container. *)
Definition record_ok (user host : str) (r : record) : bool :=
  let '(t, args) := r in
  match t with
  | TSsh =>
      let p := ssh_parse args in
      match sshp_dest p with
      | Some d => str_eqb d (ssh_target user host) && no_bad (sshp_opts p)
      | None => false
      end
  | TScp =>
      forallb (fun permute =>
                 let its := getopt (scp_spec permute) args in
                 no_bad its &&
                 match operands its with
                 | [_; d] => has_str_prefix (ssh_target user host ++ [c_colon]) d
                 | _ => false
                 end) [true; false]
  | TDocker =>
      let p := docker_parse args in
      no_bad (dkp_global p) && no_bad (dkp_items p) &&
      match dkp_sub p with
      | None => false
      | Some sub =>
          if str_eqb sub s_exec then
            match until_operand (dkp_items p) with
            | (opts, Some (c, _)) =>
                str_eqb c host
                && match user with
                   | [] => true
                   | _ => existsb (fun i => item_eqb i (ILArg s_user user) || item_eqb i (ILArg s_user s_root)) opts
                   end
            | (_, None) => false
            end
          else if str_eqb sub s_cp then
            match operands (dkp_items p) with
            | [_; d] => has_str_prefix (host ++ [c_colon]) d
            | _ => false
            end
          else
            match operands (dkp_items p) with
            | [c] => str_eqb c host
            | _ => false
            end
      end
  end.

(* check_C36, applied to what the implementation did for one URL:
   [out] = Parse result, [valid] = EnsureValid() == nil (when parsed),
   [recs] = every ssh/scp/docker invocation recorded while connecting and
   copying with that URL (none if it was rejected).
   - accepted SSH/Docker URL: every recorded invocation passes user and host
     as operands;
   - a component that begins with '-' (it could only be passed as an option):
     the URL is not accepted;
   - a rejected URL runs nothing. *)
Definition check_C36 (out : perr + url) (valid : bool) (recs : list record) : bool :=
  match out with
  | inl _ => is_nil recs
  | inr u =>
      match u_proto u with
      | PLocal => is_nil recs
      | _ =>
          if valid
          then negb (starts_with_dash (u_user u) || starts_with_dash (u_host u))
               && forallb (record_ok (u_user u) (u_host u)) recs
          else is_nil recs
      end
  end.
