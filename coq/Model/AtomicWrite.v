(* Model of pkg/filesystem/atomic.go (WriteFileAtomic), as called by
   pkg/encoding/common.go (MarshalAndSave: WriteFileAtomic path data 0600).
   Definitions only, no proofs.

   The directory that holds the target (filepath.Dir(path)) is an association
   list  name -> (permission bits, content).  WriteFileAtomic is transcribed as
   the sequence of primitives it issues,

       os.CreateTemp   openat(O_RDWR|O_CREAT|O_EXCL, 0600), retried on EEXIST
       temporary.Write write
       temporary.Close close
       os.Chmod        fchmodat
       Rename          renameat
       os.Remove       unlinkat, then unlinkat(AT_REMOVEDIR) if that failed

   each of which consults  oracle k  (k = number of primitives issued before
   it) and is told to succeed, to fail, or that the process dies there.  What a
   primitive does to the directory (os_create ... os_unlink below) is the
   stated behaviour of the operating system; in particular rename replaces the
   target in one step: there is no state in which the target is absent or
   mixed.  A dying write leaves any prefix of the data in the temporary. *)
From Coq Require Import List Arith NArith String Bool.
Import ListNotations.

Definition name := string.
Definition bytes := list N.                     (* N, not nat: byte values up to 255
                                                   are cheap to parse in case files *)
Definition file := (nat * bytes)%type.          (* permission bits, content *)
Definition dir := list (name * file).

Fixpoint lookup (n : name) (d : dir) : option file :=
  match d with
  | [] => None
  | (k, f) :: t => if String.eqb n k then Some f else lookup n t
  end.

Fixpoint remove (n : name) (d : dir) : dir :=
  match d with
  | [] => []
  | (k, f) :: t => if String.eqb n k then remove n t else (k, f) :: remove n t
  end.

Definition set (n : name) (f : file) (d : dir) : dir := (n, f) :: remove n d.

Definition mem (n : name) (d : dir) : bool :=
  match lookup n d with Some _ => true | None => false end.

Definition content (n : name) (d : dir) : option bytes :=
  match lookup n d with Some (_, c) => Some c | None => None end.

(* pkg/filesystem/temporary.go: TemporaryNamePrefix;
   pkg/filesystem/atomic.go: atomicWriteTemporaryNamePrefix *)
Definition temporary_name_prefix : string := ".mutagen-temporary-"%string.
Definition atomic_prefix : string := (temporary_name_prefix ++ "atomic-write")%string.

(* ---- the operating system (what a primitive that takes effect does) ---- *)

(* openat(O_CREAT|O_EXCL, 0600): fails (EEXIST) if the name exists; so the
   temporary is always a FRESH name (not present in the directory, whatever
   leftovers of earlier writes the directory holds) and it starts EMPTY *)
Definition os_create (n : name) (d : dir) : option dir :=
  if mem n d then None else Some (set n (384, []) d).

(* write on the open descriptor appends at the file offset *)
Definition os_append (n : name) (b : bytes) (d : dir) : dir :=
  match lookup n d with
  | Some (m, c) => set n (m, c ++ b) d
  | None => d
  end.

Definition os_chmod (n : name) (p : nat) (d : dir) : option dir :=
  match lookup n d with
  | Some (_, c) => Some (set n (p, c) d)
  | None => None
  end.

(* rename(2): the target is replaced in one step *)
Definition os_rename (a b : name) (d : dir) : option dir :=
  match lookup a d with
  | Some f => Some (set b f (remove a d))
  | None => None
  end.

Definition os_unlink (n : name) (d : dir) : option dir :=
  if mem n d then Some (remove n d) else None.

(* ---- faults ---- *)

Inductive outcome :=
| Ok
| Fail (eexist : bool) (cut : nat)   (* the primitive returns an error; for a
                                        write, [cut] bytes had been written;
                                        [eexist]: the error is EEXIST *)
| Crash (done : bool) (cut : nat).   (* the process dies at this primitive,
                                        before ([done]=false) or after it took
                                        effect; a write got [cut] bytes out *)

Definition oracle := nat -> outcome.

Inductive prim :=
| PCreate (n : name)
| PWrite (len : nat)
| PClose
| PChmod (n : name) (perm : nat)
| PRename (a b : name)
| PUnlink (n : name)
| PRmdir (n : name)
| POther (what : string).   (* never issued by the model: lets the harness
                               report a primitive the model does not know *)

Inductive status := SOk | SFail | SKill.
Definition event := (prim * status)%type.

Inductive result :=
| RNil        (* WriteFileAtomic returned nil *)
| RErr        (* it returned an error *)
| RCrashed.   (* the process died inside it *)

Record run := { r_result : result; r_trace : list event; r_dir : dir }.

Definition mk (r : result) (t : list event) (d : dir) : run :=
  {| r_result := r; r_trace := t; r_dir := d |}.

Definition pre (e : list event) (r : run) : run :=
  mk (r_result r) (e ++ r_trace r) (r_dir r).

(* ---- os.CreateTemp(dir, atomicWriteTemporaryNamePrefix) ----
   The pattern has no "*", so the name is prefix ++ random. A name that is
   already present (a leftover of an interrupted earlier write, or anything
   else) is never reused: the loop moves on to the next random value. [sufs] are the
   successive values of nextRandom(); the loop continues on EEXIST only (the Go
   loop gives up after 10000 tries: here, when the list ends). *)
Inductive cres := CCreated (tmp : name) | CFail | CCrash.

Fixpoint create_temp (o : oracle) (i : nat) (sufs : list string) (d : dir)
  : cres * nat * list event * dir :=
  match sufs with
  | [] => (CFail, i, [], d)
  | s :: rest =>
    let nm := (atomic_prefix ++ s)%string in
    match o i with
    | Crash done _ =>
      (CCrash, S i, [(PCreate nm, SKill)],
       if done then match os_create nm d with Some d' => d' | None => d end else d)
    | Fail true _ =>
      let '(r, j, tr, d') := create_temp o (S i) rest d in
      (r, j, (PCreate nm, SFail) :: tr, d')
    | Fail false _ => (CFail, S i, [(PCreate nm, SFail)], d)
    | Ok =>
      match os_create nm d with
      | Some d' => (CCreated nm, S i, [(PCreate nm, SOk)], d')
      | None =>
        let '(r, j, tr, d') := create_temp o (S i) rest d in
        (r, j, (PCreate nm, SFail) :: tr, d')
      end
    end
  end.

(* ---- os.Remove(temporary.Name()): unlink, and rmdir if that failed ---- *)
Definition os_remove (o : oracle) (i : nat) (n : name) (d : dir) : run :=
  let rmdir (tr : list event) :=
    match o (S i) with
    | Crash _ _ => mk RCrashed (tr ++ [(PRmdir n, SKill)]) d
    | _ => mk RErr (tr ++ [(PRmdir n, SFail)]) d   (* never a directory *)
    end in
  match o i with
  | Crash done _ =>
    mk RCrashed [(PUnlink n, SKill)]
       (if done then match os_unlink n d with Some d' => d' | None => d end else d)
  | Fail _ _ => rmdir [(PUnlink n, SFail)]
  | Ok =>
    match os_unlink n d with
    | Some d' => mk RErr [(PUnlink n, SOk)] d'
    | None => rmdir [(PUnlink n, SFail)]
    end
  end.

(* ---- WriteFileAtomic, from the rename backwards ---- *)

(* Rename(nil, temporary.Name(), nil, path, true) *)
Definition stage_rename (o : oracle) (i : nat) (tmp target : name) (d : dir) : run :=
  match o i with
  | Crash done _ =>
    mk RCrashed [(PRename tmp target, SKill)]
       (if done then match os_rename tmp target d with Some d' => d' | None => d end else d)
  | Fail _ _ => pre [(PRename tmp target, SFail)] (os_remove o (S i) tmp d)
  | Ok =>
    match os_rename tmp target d with
    | Some d' => mk RNil [(PRename tmp target, SOk)] d'
    | None => pre [(PRename tmp target, SFail)] (os_remove o (S i) tmp d)
    end
  end.

(* os.Chmod(temporary.Name(), permissions) *)
Definition stage_chmod (o : oracle) (i : nat) (tmp target : name) (perm : nat) (d : dir) : run :=
  match o i with
  | Crash done _ =>
    mk RCrashed [(PChmod tmp perm, SKill)]
       (if done then match os_chmod tmp perm d with Some d' => d' | None => d end else d)
  | Fail _ _ => pre [(PChmod tmp perm, SFail)] (os_remove o (S i) tmp d)
  | Ok =>
    match os_chmod tmp perm d with
    | Some d' => pre [(PChmod tmp perm, SOk)] (stage_rename o (S i) tmp target d')
    | None => pre [(PChmod tmp perm, SFail)] (os_remove o (S i) tmp d)
    end
  end.

(* temporary.Close() *)
Definition stage_close (o : oracle) (i : nat) (tmp target : name) (perm : nat) (d : dir) : run :=
  match o i with
  | Crash _ _ => mk RCrashed [(PClose, SKill)] d
  | Fail _ _ => pre [(PClose, SFail)] (os_remove o (S i) tmp d)
  | Ok => pre [(PClose, SOk)] (stage_chmod o (S i) tmp target perm d)
  end.

(* temporary.Write(data); on error: temporary.Close() (result ignored), Remove *)
Definition stage_write (o : oracle) (i : nat) (tmp target : name) (data : bytes) (perm : nat) (d : dir) : run :=
  let w := PWrite (List.length data) in
  match o i with
  | Crash _ cut => mk RCrashed [(w, SKill)] (os_append tmp (firstn cut data) d)
  | Fail _ cut =>
    let d1 := os_append tmp (firstn cut data) d in
    match o (S i) with
    | Crash _ _ => mk RCrashed [(w, SFail); (PClose, SKill)] d1
    | Fail _ _ => pre [(w, SFail); (PClose, SFail)] (os_remove o (S (S i)) tmp d1)
    | Ok => pre [(w, SFail); (PClose, SOk)] (os_remove o (S (S i)) tmp d1)
    end
  | Ok => pre [(w, SOk)] (stage_close o (S i) tmp target perm (os_append tmp data d))
  end.

Definition write_file_atomic (o : oracle) (sufs : list string)
           (target : name) (data : bytes) (perm : nat) (d : dir) : run :=
  match create_temp o 0 sufs d with
  | (CCrash, _, tr, d') => mk RCrashed tr d'
  | (CFail, _, tr, d') => mk RErr tr d'
  | (CCreated tmp, i, tr, d') => pre tr (stage_write o i tmp target data perm d')
  end.

(* MarshalAndSave: WriteFileAtomic(path, data, 0600) *)
Definition marshal_and_save (o : oracle) (sufs : list string)
           (target : name) (data : bytes) (d : dir) : run :=
  write_file_atomic o sufs target data 384 d.

(* Single-fault oracles: everything succeeds except primitive k. *)
Definition only_at (k : nat) (x : outcome) : oracle :=
  fun i => if Nat.eqb i k then x else Ok.

(* ---- what a scan shows (pkg/synchronization/core/scan.go, the
   strings.HasPrefix(contentName, filesystem.TemporaryNamePrefix) skip) ---- *)
Definition scan_visible (n : name) : bool := negb (prefix temporary_name_prefix n).
Definition scan_names (d : dir) : list name := filter scan_visible (map fst d).

(* ---- the property as a checker on an observed outcome ----
   target content is the complete old or the complete new content; every name
   that was not there before, other than the target, carries the temporary
   prefix and is not shown by a scan. *)
Fixpoint bytes_eqb (a b : bytes) : bool :=
  match a, b with
  | [], [] => true
  | x :: a', y :: b' => N.eqb x y && bytes_eqb a' b'
  | _, _ => false
  end.

Definition ocontent_eqb (a b : option bytes) : bool :=
  match a, b with
  | None, None => true
  | Some x, Some y => bytes_eqb x y
  | _, _ => false
  end.

Definition stray_ok (target : name) (before : dir) (scanned : list name) (n : name) : bool :=
  String.eqb n target || mem n before
  || (prefix temporary_name_prefix n && negb (existsb (String.eqb n) scanned)).

Definition check_C27 (target : name) (data : bytes) (before after : dir) (scanned : list name) : bool :=
  (ocontent_eqb (content target after) (content target before)
   || ocontent_eqb (content target after) (Some data))
  && forallb (stray_ok target before scanned) (map fst after).
