(* Model of agent bundle lookup and extraction (C46).
   Go: pkg/agent/bundle.go (ExecutableForPlatform) and
       pkg/filesystem/resources.go (LibexecPath).
   Definitions only.

   The outside world is data: what the file system holds at
   <dir>/mutagen-agents.tar.gz for each search directory is a [slot]; gzip and
   tar are represented by their contents (an archive is the list of its
   (entry name, entry bytes) pairs in archive order, or one of two ways of not
   being an archive). The Go harness builds the real files from these values. *)
From Coq Require Import List String Bool.
Import ListNotations.
Local Open Scope string_scope.
Local Open Scope list_scope.

Definition bytes := string.                 (* Go []byte / file content *)
Definition archive := list (string * bytes).

(* content of a regular file found at a bundle path *)
Inductive file :=
| FNotGzip                  (* gzip.NewReader fails *)
| FBadTar                   (* gzip stream fine, tar header unreadable *)
| FArchive (a : archive).

(* what os.Open / Stat observe at <dir>/BundleName *)
Inductive slot :=
| SAbsent                   (* os.Open fails with os.IsNotExist: continue *)
| SOpenErr                  (* os.Open fails otherwise (ENOTDIR, ELOOP, ...) *)
| SNotFile                  (* opens, but Mode()&os.ModeType != 0 *)
| SFile (f : file).         (* regular file *)

Inductive err :=
| EOpen                     (* "unable to open agent bundle" *)
| ENotFile                  (* "agent bundle (...) is not a file" *)
| ENotFound                 (* "unable to locate agent bundle" *)
| EDecompress               (* "unable to decompress agent bundle" *)
| EHeader                   (* "unable to read archive header" *)
| EUnsupported              (* "unsupported platform" *)
| EOther.                   (* anything else (never produced by the model) *)

(* result of ExecutableForPlatform: an error, or the bytes of the file it
   produced together with whether it carries the owner-executable bit *)
Inductive outcome :=
| OErr (e : err)
| OOk (b : bytes) (exec : bool).

Record input := {
  in_bin  : bool;    (* base name of the executable's directory is "bin" *)
  exe_slot : slot;   (* <executable dir>/mutagen-agents.tar.gz *)
  lib_slot : slot;   (* <executable dir>/../libexec/mutagen-agents.tar.gz *)
  goos    : string;
  goarch  : string;
  out_pre : option bytes   (* content already present at an explicit output path
                              (None = fresh path, or temporary file) *)
}.

(* The output file is opened with O_WRONLY|O_CREATE|O_TRUNC (or created fresh
   by os.CreateTemp) and then receives exactly header.Size bytes of the entry:
   whatever was at the output path before is discarded, so [out_pre] is not
   consulted by [run] below (c46_output_replaced). *)
Definition with_pre (i : input) (p : option bytes) : input :=
  {| in_bin := in_bin i; exe_slot := exe_slot i; lib_slot := lib_slot i;
     goos := goos i; goarch := goarch i; out_pre := p |}.

(* bundleSearchPaths under BundleLocationDefault: the executable's directory,
   then libexec iff filesystem.LibexecPath succeeds, i.e. iff the executable
   resides in a directory named "bin". *)
Definition search_dirs (i : input) : list slot :=
  exe_slot i :: (if in_bin i then [lib_slot i] else []).

Inductive located :=
| LErr (e : err)
| LNone
| LFound (f : file).

(* The search loop of ExecutableForPlatform. [cur] is the variable [bundle]
   (nil = None). With [fixed = false] this is the loop AS THE CODE IS: a hit
   assigns [bundle] and the loop goes on with the next path. With
   [fixed = true] it is the loop with the proposed one-line repair ([break]
   after a hit). *)
Fixpoint locate_from (fixed : bool) (cur : option file) (dirs : list slot) : located :=
  match dirs with
  | [] => match cur with None => LNone | Some f => LFound f end
  | s :: t =>
      match s with
      | SAbsent => locate_from fixed cur t
      | SOpenErr => LErr EOpen
      | SNotFile => LErr ENotFile
      | SFile f => if fixed then LFound f else locate_from fixed (Some f) t
      end
  end.

Definition locate (fixed : bool) (dirs : list slot) : located :=
  locate_from fixed None dirs.

(* fmt.Sprintf("%s_%s", goos, goarch) *)
Definition platform_name (os arch : string) : string := String.append os (String.append "_" arch).

(* the header scan: first entry whose name equals the platform name *)
Fixpoint find_entry (n : string) (a : archive) : option bytes :=
  match a with
  | [] => None
  | (m, b) :: t => if String.eqb m n then Some b else find_entry n t
  end.

(* decompress, scan, copy, chmod *)
Definition extract (f : file) (os arch : string) : outcome :=
  match f with
  | FNotGzip => OErr EDecompress
  | FBadTar => OErr EHeader
  | FArchive a =>
      match find_entry (platform_name os arch) a with
      | None => OErr EUnsupported
      | Some b => OOk b (negb (String.eqb os "windows"))
      end
  end.

Definition run (fixed : bool) (i : input) : outcome :=
  match locate fixed (search_dirs i) with
  | LErr e => OErr e
  | LNone => OErr ENotFound
  | LFound f => extract f (goos i) (goarch i)
  end.

(* ---- specification and checker ---- *)

Definition is_absent (s : slot) : bool :=
  match s with SAbsent => true | _ => false end.

Definition is_file (s : slot) : bool :=
  match s with SFile _ => true | _ => false end.

(* the first location that holds anything at all at the bundle path *)
Fixpoint first_present (dirs : list slot) : option slot :=
  match dirs with
  | [] => None
  | s :: t => if is_absent s then first_present t else Some s
  end.

Definition is_err (o : outcome) : bool :=
  match o with OErr _ => true | OOk _ _ => false end.

Fixpoint has_entry (n : string) (b : bytes) (a : archive) : bool :=
  match a with
  | [] => false
  | (m, c) :: t => (String.eqb m n && String.eqb c b) || has_entry n b t
  end.

(* does outcome [o] respect the property, given that bundle file [f] is the
   one that has to be used? Bytes must be those of an entry named for the
   platform; a platform without an entry must be rejected; a file that is no
   archive cannot yield an agent. *)
Definition respects (f : file) (os arch : string) (o : outcome) : bool :=
  match f with
  | FArchive a =>
      match o with
      | OOk b _ => has_entry (platform_name os arch) b a
      | OErr _ => negb (existsb (String.eqb (platform_name os arch)) (map fst a))
      end
  | _ => is_err o
  end.

(* check_C46: applied to the implementation's observed outcome.
   - the first location holding a bundle file, nothing at all being present
     before it, is the one that must be used;
   - if no location holds a bundle file, there is nothing to extract;
   - if the first thing present is not an openable regular file the property
     text demands nothing. *)
Definition check_C46 (i : input) (o : outcome) : bool :=
  match first_present (search_dirs i) with
  | Some (SFile f) => respects f (goos i) (goarch i) o
  | Some _ => if existsb is_file (search_dirs i) then true else is_err o
  | None => is_err o
  end.

Definition err_eqb (a b : err) : bool :=
  match a, b with
  | EOpen, EOpen | ENotFile, ENotFile | ENotFound, ENotFound
  | EDecompress, EDecompress | EHeader, EHeader | EUnsupported, EUnsupported
  | EOther, EOther => true
  | _, _ => false
  end.

Definition outcome_eqb (a b : outcome) : bool :=
  match a, b with
  | OErr x, OErr y => err_eqb x y
  | OOk x p, OOk y q => String.eqb x y && Bool.eqb p q
  | _, _ => false
  end.

(* ---- the property as a proposition on (input, observed outcome) ---- *)

Definition all_absent (l : list slot) : Prop := Forall (fun s => s = SAbsent) l.

(* [f] is held by the first location of [dirs] that holds a bundle file, and
   no earlier location has anything at the bundle path *)
Definition first_holder (dirs : list slot) (f : file) : Prop :=
  exists pre post, dirs = pre ++ SFile f :: post /\ all_absent pre.

Definition respects_prop (f : file) (os arch : string) (o : outcome) : Prop :=
  match f, o with
  | FArchive a, OOk b _ => In (platform_name os arch, b) a
  | FArchive a, OErr _ => ~ In (platform_name os arch) (map fst a)
  | _, _ => is_err o = true
  end.

Definition prop_C46 (i : input) (o : outcome) : Prop :=
  (forall f, first_holder (search_dirs i) f -> respects_prop f (goos i) (goarch i) o)
  /\ ((forall s, In s (search_dirs i) -> is_file s = false) -> is_err o = true).
