(* C04: one fully applied synchronization cycle (definitions only, no proofs).

   Models the part of pkg/synchronization/controller.go:synchronize between
   core.Reconcile and the saving of the new ancestor, for transitions that
   succeed exactly ("ideal results"):
     alpha'    = Apply(alpha, alphaTransitions)
     beta'     = Apply(beta,  betaTransitions)
     ancestor' = Apply(ancestor, ancestorChanges
                                 ++ [Change{Path: t.Path, New: t.New} | t in alphaTransitions]
                                 ++ [Change{Path: t.Path, New: t.New} | t in betaTransitions])
   and the specification side of C04 with its executable checker.

   Domain: core.Reconcile's documented precondition is that phantom
   directories have been reified (entry.pb.go: "must have those contents
   reified ... using ReifyPhantomDirectories before Reconcile", done in
   controller.go right after the scans), so the inputs are phantom free. *)
From Coq Require Import List Bool Arith String.
Import ListNotations.
From Mv Require Import Model.Entry Model.Reconcile.

(* ---------- no phantom directories anywhere ---------- *)
Fixpoint phantom_free_entry (e : entry) : bool :=
  let fix go (l : list (name * entry)) : bool :=
    match l with
    | [] => true
    | (_, x) :: t => phantom_free_entry x && go t
    end in
  match e with
  | EDir c => go c
  | EPhantom _ => false
  | _ => true
  end.

Definition phantom_free (e : oentry) : bool :=
  match e with None => true | Some x => phantom_free_entry x end.

(* no untracked / problematic / phantom content anywhere (= wf true on wf trees) *)
Fixpoint unsync_free_entry (e : entry) : bool :=
  let fix go (l : list (name * entry)) : bool :=
    match l with
    | [] => true
    | (_, x) :: t => unsync_free_entry x && go t
    end in
  match e with
  | EDir c => go c
  | EFile _ _ | ELink _ => true
  | _ => false
  end.

Definition unsync_free (e : oentry) : bool :=
  match e with None => true | Some x => unsync_free_entry x end.

(* ---------- the ancestor update of controller.go ---------- *)
(* &core.Change{Path: transition.Path, New: results[t]} with results[t] = transition.New *)
Definition ideal1 (c : change) : change := mk (cpath c) None (cnew c).
Definition ideal (chs : list change) : list change := map ideal1 chs.

Definition anc_updates (pl : plan) : list change :=
  (anc_changes pl ++ ideal (alpha_ch pl) ++ ideal (beta_ch pl))%list.

(* ---------- specification side ---------- *)
Definition two_way (m : mode) : bool :=
  match m with TwoWaySafe | TwoWayResolved => true | _ => false end.

Definition no_changes (pl : plan) : bool :=
  is_nil (anc_changes pl) && is_nil (alpha_ch pl) && is_nil (beta_ch pl).

Definition roots (pl : plan) : list path := map root (conflicts pl).

(* p lies at or under one of the conflict roots *)
Definition under_root (rs : list path) (p : path) : bool :=
  existsb (fun r => is_prefix r p) rs.

(* neither p nor any of its prefixes is untracked or problematic in t *)
Fixpoint tracked (t : oentry) (p : path) : bool :=
  negb (is_untracked t) && negb (is_problem t) &&
  match p with
  | [] => true
  | n :: r => tracked (lookup n (contents t)) r
  end.

(* the two sides hold the same synchronizable content at p *)
Definition same_sync_at (a b : oentry) (p : path) : bool :=
  oshallow_eqb (synchronizable (at_path a p)) (synchronizable (at_path b p)).

Definition converge_at (rs : list path) (a b : oentry) (p : path) : bool :=
  under_root rs p || negb (tracked a p) || negb (tracked b p) || same_sync_at a b p.

(* all paths of a tree (the root path [] included) *)
Fixpoint paths_entry (e : entry) : list path :=
  let fix go (l : list (name * entry)) : list path :=
    match l with
    | [] => []
    | (n, x) :: t => (map (cons n) (paths_entry x) ++ go t)%list
    end in
  [] :: match e with
        | EDir c => go c
        | EPhantom c => go c
        | _ => []
        end.

Definition paths (t : oentry) : list path :=
  match t with None => [[]] | Some e => paths_entry e end.

Definition converge_check (rs : list path) (a b : oentry) : bool :=
  forallb (converge_at rs a b) (paths a ++ paths b)%list.

(* canonical order of a list of paths *)
Fixpoint insert_path (p : path) (l : list path) : list path :=
  match l with
  | [] => [p]
  | q :: t => if path_ltb q p then q :: insert_path p t else p :: l
  end.
Definition sort_paths (l : list path) : list path := fold_right insert_path [] l.

Fixpoint paths_eqb (x y : list path) : bool :=
  match x, y with
  | [], [] => true
  | a :: x', b :: y' => path_eqb a b && paths_eqb x' y'
  | _, _ => false
  end.

(* ---------- harness case ---------- *)
Record c04_in := { i_mode : mode; i_anc : oentry; i_a : oentry; i_b : oentry }.

Record c04_out := {
  o_plan1 : plan;          (* core.Reconcile(anc, a, b, mode)                     *)
  o_anc : apply_full;      (* core.Apply(anc, ancestor changes ++ ideal results)  *)
  o_a : apply_full;        (* core.Apply(a, alpha transitions)                    *)
  o_b : apply_full;        (* core.Apply(b, beta transitions)                     *)
  o_plan2 : plan           (* core.Reconcile(anc', a', b', mode)                  *)
}.

Definition wf_c04 (i : c04_in) : bool :=
  wf true (i_anc i) && wf false (i_a i) && wf false (i_b i)
  && phantom_free (i_a i) && phantom_free (i_b i).

(* The property decided on the implementation's own outputs: the second plan
   changes nothing and reports conflicts at the same roots; in two-way modes
   the applied sides agree on synchronizable content at every path that is not
   under a reported conflict and is tracked on both sides. (If Apply itself
   reported an error there was no fully applied cycle; that is C05's subject
   and shows up here as a model/implementation disagreement.) *)
Definition check_c04 (i : c04_in) (o : c04_out) : bool :=
  match o_anc o, o_a o, o_b o with
  | FOk _, FOk a', FOk b' =>
    no_changes (o_plan2 o)
    && paths_eqb (sort_paths (roots (o_plan2 o))) (sort_paths (roots (o_plan1 o)))
    && (if two_way (i_mode i) then converge_check (roots (o_plan1 o)) a' b' else true)
  | _, _, _ => true
  end.

(* the model's outputs on the same inputs *)
Definition model_c04 (i : c04_in) : c04_out :=
  let pl := reconcile (i_mode i) (i_anc i) (i_a i) (i_b i) in
  let ra := apply (i_a i) (alpha_ch pl) in
  let rb := apply (i_b i) (beta_ch pl) in
  let rc := apply (i_anc i) (anc_updates pl) in
  {| o_plan1 := pl; o_anc := rc; o_a := ra; o_b := rb;
     o_plan2 := match rc, ra, rb with
                | FOk anc', FOk a', FOk b' => reconcile (i_mode i) anc' a' b'
                | _, _, _ => empty_plan
                end |}.

Definition apply_full_eq (x y : apply_full) : bool :=
  match x, y with
  | FOk a, FOk b => oentry_eqb a b
  | FErrParent, FErrParent | FPanic, FPanic | FMalformed, FMalformed => true
  | _, _ => false
  end.

(* correspondence: first plan, the three Apply results (replayed on the
   implementation's own order of changes) and the second plan *)
Definition corr_c04 (i : c04_in) (o : c04_out) : bool :=
  let pl1 := o_plan1 o in
  plan_eqb (canon (reconcile (i_mode i) (i_anc i) (i_a i) (i_b i))) (canon pl1)
  && apply_full_eq (apply (i_a i) (alpha_ch pl1)) (o_a o)
  && apply_full_eq (apply (i_b i) (beta_ch pl1)) (o_b o)
  && apply_full_eq (apply (i_anc i) (anc_updates pl1)) (o_anc o)
  && match o_anc o, o_a o, o_b o with
     | FOk anc', FOk a', FOk b' =>
       plan_eqb (canon (reconcile (i_mode i) anc' a' b')) (canon (o_plan2 o))
     | _, _, _ => true
     end.
