(* C01 - definitions only (no proofs): the vocabulary of the safety statements
   about plans of core.Reconcile (pkg/synchronization/core/reconcile.go), the
   executable checker [check_c01] applied to the IMPLEMENTATION's plans, and
   the model of one controller cycle (pkg/synchronization/controller.go,
   synchronize: Reconcile, Transition on both sides, Apply to the ancestor,
   EnsureValid(true) before the ancestor is saved) with histories of cycles. *)
From Coq Require Import List Bool Arith String.
Import ListNotations.
From Mv Require Import Model.Entry Model.Reconcile.

(* ---------- subtree: [a] arises from [b] by deletions only ----------
   Every entry of [a] is present in [b] at the same path and shallow-equal
   (same kind, digest, executability, target) to it. *)
Fixpoint subtree_entry (a b : entry) {struct a} : bool :=
  let fix go (l : list (name * entry)) : bool :=
    match l with
    | [] => true
    | (n, x) :: t =>
      match lookup n (contents (Some b)) with
      | Some y => subtree_entry x y
      | None => false
      end && go t
    end in
  shallow_eqb a b &&
  match a with
  | EDir c | EPhantom c => go c
  | _ => true
  end.

Definition subtree (a b : oentry) : bool :=
  match a with
  | None => true
  | Some x => match b with Some y => subtree_entry x y | None => false end
  end.

(* ---------- unsync_free: no untracked / problematic / phantom entry ---------- *)
Fixpoint unsync_free_entry (e : entry) : bool :=
  let fix go (l : list (name * entry)) : bool :=
    match l with
    | [] => true
    | (_, x) :: t => unsync_free_entry x && go t
    end in
  match e with
  | EDir c => go c
  | EFile _ _ | ELink _ => true
  | EUntracked | EProblem _ | EPhantom _ => false
  end.

Definition unsync_free (e : oentry) : bool :=
  match e with None => true | Some x => unsync_free_entry x end.

(* ---------- all paths of a tree (the root path [] included) ---------- *)
Fixpoint paths_entry (e : entry) : list path :=
  let fix go (l : list (name * entry)) : list path :=
    match l with
    | [] => []
    | (n, x) :: t => (map (cons n) (paths_entry x) ++ go t)%list
    end in
  [] :: match e with
        | EDir c | EPhantom c => go c
        | _ => []
        end.

Definition paths_of (e : oentry) : list path :=
  match e with None => [] | Some x => paths_entry x end.

(* ---------- how reconciler.reconcile walks the three trees ----------
   [descends]: the recursion passes through this node into the children (the
   sides are shallow-equal, neither problematic, not both nil-or-untracked).
   [disagree]: the recursion stops here and hands the node to the mode's
   disagreement handler. Both false: nothing at all is planned at or below. *)
Definition both_gone (al be : oentry) : bool :=
  (is_none al || is_untracked al) && (is_none be || is_untracked be).

Definition descends (al be : oentry) : bool :=
  negb (is_problem al) && negb (is_problem be) && negb (both_gone al be)
  && oshallow_eqb al be.

Definition disagree (al be : oentry) : bool :=
  negb (is_problem al) && negb (is_problem be) && negb (both_gone al be)
  && negb (oshallow_eqb al be).

(* the ancestor contents that drive the recursion below a node on which the
   sides agree (ancestorContents = nil when the ancestor differs from them) *)
Definition anc_below (anc al : oentry) : list (name * entry) :=
  if negb (oshallow_eqb anc al) then [] else contents anc.

(* [reached anc al be q = Some anc'] : the recursion started on (anc, al, be)
   arrives at the relative path q, with ancestor argument anc' there (the side
   arguments there are [at_path al q] and [at_path be q]). *)
Fixpoint reached (anc al be : oentry) (q : path) : option oentry :=
  match q with
  | [] => Some anc
  | n :: r =>
    if descends al be
    then reached (lookup n (anc_below anc al)) (lookup n (contents al)) (lookup n (contents be)) r
    else None
  end.

(* q is a first disagreeing path, and anc' is the ancestor handed to the handler *)
Definition stops_at (anc al be : oentry) (q : path) (anc' : oentry) : Prop :=
  reached anc al be q = Some anc' /\ disagree (at_path al q) (at_path be q) = true.

(* the mode switch at the end of reconciler.reconcile *)
Definition handle (m : mode) (p : path) (anc al be : oentry) : plan :=
  match m with
  | TwoWaySafe | TwoWayResolved => handle_bidirectional m p anc al be
  | OneWaySafe => handle_one_way_safe p anc al be
  | OneWayReplica => handle_one_way_replica p anc al be
  end.

(* one path is a prefix of the other (equal paths included) *)
Definition comparable (p q : path) : bool := is_prefix p q || is_prefix q p.

(* the side has creations or modifications relative to the ancestor *)
Definition has_non_deletion (p : path) (anc side : oentry) : bool :=
  negb (is_nil (non_deletion (diff p anc (synchronizable side)))).

(* ---------- the one-cycle statements as propositions on a plan ---------- *)

(* Every change applied to [side] expects exactly what the scan saw there, and
   what it removes or replaces contains no unsynchronizable content and is a
   deletion-only subtree of the last-synchronized tree at that path. *)
Definition side_safe (anc side : oentry) (chs : list change) : Prop :=
  forall ch, In ch chs ->
    cold ch = at_path side (cpath ch)
    /\ unsync_free (at_path side (cpath ch)) = true
    /\ subtree (at_path side (cpath ch)) (at_path anc (cpath ch)) = true.

(* Where the recursion stops with creations/modifications on both sides, a
   conflict rooted there is reported and no change of either side lies at,
   above or below that path. *)
Definition both_modified_conflict (anc al be : oentry) (pl : plan) : Prop :=
  forall q anc', stops_at anc al be q anc' ->
    has_non_deletion q anc' (at_path al q) = true ->
    has_non_deletion q anc' (at_path be q) = true ->
    (exists c, In c (conflicts pl) /\ root c = q)
    /\ forall ch, In ch (alpha_ch pl ++ beta_ch pl) -> comparable q (cpath ch) = false.

Definition c01_plan_ok (anc al be : oentry) (pl : plan) : Prop :=
  side_safe anc be (beta_ch pl) /\ side_safe anc al (alpha_ch pl)
  /\ both_modified_conflict anc al be pl.

(* ---------- the executable checker ---------- *)
Definition side_safe_b (anc side : oentry) (chs : list change) : bool :=
  forallb (fun ch =>
    oentry_eqb (cold ch) (at_path side (cpath ch))
    && unsync_free (at_path side (cpath ch))
    && subtree (at_path side (cpath ch)) (at_path anc (cpath ch))) chs.

Definition both_modified_at (anc al be : oentry) (pl : plan) (q : path) : bool :=
  match reached anc al be q with
  | None => true
  | Some anc' =>
    if disagree (at_path al q) (at_path be q)
       && has_non_deletion q anc' (at_path al q)
       && has_non_deletion q anc' (at_path be q)
    then existsb (fun c => path_eqb (root c) q) (conflicts pl)
         && forallb (fun ch => negb (comparable q (cpath ch))) (alpha_ch pl ++ beta_ch pl)
    else true
  end.

Definition both_modified_b (anc al be : oentry) (pl : plan) : bool :=
  forallb (both_modified_at anc al be pl) (paths_of al ++ paths_of be).

Definition c01_plan_ok_b (anc al be : oentry) (pl : plan) : bool :=
  side_safe_b anc be (beta_ch pl) && side_safe_b anc al (alpha_ch pl)
  && both_modified_b anc al be pl.

(* a case is (mode, ancestor, alpha, beta, plan of the implementation); the
   property speaks about two-way-safe only *)
Definition check_c01 (c : mode * oentry * oentry * oentry * plan) : bool :=
  let '(m, anc, al, be, pl) := c in
  match m with
  | TwoWaySafe => c01_plan_ok_b anc al be pl
  | _ => true
  end.

(* ---------- one controller cycle and histories ----------
   A step of a history carries what the two scans of that cycle returned
   (arbitrary: anything may have happened on disk since the previous cycle)
   and, per side, what Transition reported: [None] = Transition returned an
   error (no results are recorded), [Some rs] = one result entry per change. *)
Record hstep := {
  st_alpha : oentry;
  st_beta : oentry;
  st_res_alpha : option (list oentry);
  st_res_beta : option (list oentry)
}.

(* controller: Change{Path: transition.Path, New: results[t]} *)
Definition result_changes (chs : list change) (rs : option (list oentry)) : list change :=
  match rs with
  | None => []
  | Some l => map (fun cr => mk (cpath (fst cr)) None (snd cr)) (combine chs l)
  end.

Definition cycle_changes (m : mode) (anc : oentry) (s : hstep) : list change :=
  let pl := reconcile m anc (st_alpha s) (st_beta s) in
  (anc_changes pl ++ result_changes (alpha_ch pl) (st_res_alpha s)
               ++ result_changes (beta_ch pl) (st_res_beta s))%list.

(* the new ancestor: Apply, then EnsureValid(true); on either failure the
   cycle ends with an error and the saved ancestor stays what it was *)
Definition cycle (m : mode) (anc : oentry) (s : hstep) : oentry :=
  match apply anc (cycle_changes m anc s) with
  | FOk anc' => if wf true anc' then anc' else anc
  | _ => anc
  end.

(* the same without the EnsureValid gate (what C05 shows equivalent) *)
Definition cycle_nogate (m : mode) (anc : oentry) (s : hstep) : oentry :=
  match apply anc (cycle_changes m anc s) with
  | FOk anc' => anc'
  | _ => anc
  end.

(* the ancestor in force at each cycle of a history, paired with the step *)
Fixpoint run_history (cyc : oentry -> hstep -> oentry) (anc : oentry) (h : list hstep)
  : list (oentry * hstep) :=
  match h with
  | [] => []
  | s :: t => (anc, s) :: run_history cyc (cyc anc s) t
  end.

(* the outcome set of one transition (C05 / C09): what was asked for, what was
   there before, or a partial result that is a deletion-only part of either *)
Definition outcome_ok (ch : change) (r : oentry) : Prop :=
  r = cnew ch \/ r = cold ch \/ subtree r (cnew ch) = true \/ subtree r (cold ch) = true.

Definition outcomes_ok (chs : list change) (rs : option (list oentry)) : Prop :=
  match rs with
  | None => True
  | Some l => List.length l = List.length chs
              /\ forall cr, In cr (combine chs l) -> outcome_ok (fst cr) (snd cr)
  end.

Definition step_wf (s : hstep) : Prop :=
  wf false (st_alpha s) = true /\ wf false (st_beta s) = true.

Definition step_outcomes_ok (m : mode) (anc : oentry) (s : hstep) : Prop :=
  let pl := reconcile m anc (st_alpha s) (st_beta s) in
  outcomes_ok (alpha_ch pl) (st_res_alpha s) /\ outcomes_ok (beta_ch pl) (st_res_beta s).
