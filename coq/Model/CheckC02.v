(* C02 - definitions only (no proofs): the statements about the four
   synchronization modes on plans of core.Reconcile
   (pkg/synchronization/core/reconcile.go), the executable checker [check_c02]
   applied to the IMPLEMENTATION's plans, and the model of the read-only guard
   of the local endpoint (pkg/synchronization/endpoint/local/endpoint.go:
   NewEndpoint computes readOnly, Stage and Transition test it first). *)
From Coq Require Import List Bool Arith String.
Import ListNotations.
From Mv Require Import Model.Entry Model.Reconcile Model.CheckC01.

(* ---------- one-way modes: alpha is never modified by the plan ---------- *)
Definition unidirectional (m : mode) : bool :=
  match m with OneWaySafe | OneWayReplica => true | _ => false end.

(* ---------- one-way-safe: what a beta change may overwrite ----------
   The transition is told to expect exactly what the scan saw, and the
   synchronizable content of beta there is a deletion-only subtree of the
   last-synchronized tree there. *)
Definition beta_protected (anc be : oentry) (chs : list change) : Prop :=
  forall ch, In ch chs ->
    cold ch = at_path be (cpath ch)
    /\ subtree (synchronizable (at_path be (cpath ch))) (at_path anc (cpath ch)) = true.

Definition beta_protected_b (anc be : oentry) (chs : list change) : bool :=
  forallb (fun ch =>
    oentry_eqb (cold ch) (at_path be (cpath ch))
    && subtree (synchronizable (at_path be (cpath ch))) (at_path anc (cpath ch))) chs.

(* ---------- two-way-resolved: what an alpha change may overwrite ---------- *)
Definition alpha_protected (anc al : oentry) (chs : list change) : Prop :=
  forall ch, In ch chs ->
    cold ch = at_path al (cpath ch)
    /\ subtree (at_path al (cpath ch)) (at_path anc (cpath ch)) = true.

Definition alpha_protected_b (anc al : oentry) (chs : list change) : bool :=
  forallb (fun ch =>
    oentry_eqb (cold ch) (at_path al (cpath ch))
    && subtree (at_path al (cpath ch)) (at_path anc (cpath ch))) chs.

(* ---------- one-way-replica: beta becomes a mirror of alpha ----------
   A path is excluded from the mirror statement when it lies at or below the
   root of a reported conflict, or at or below problematic content on either
   side (reconcile skips such paths entirely). *)
Fixpoint problem_prefix (e : oentry) (q : path) : bool :=
  is_problem e ||
  match q with
  | [] => false
  | n :: r => problem_prefix (lookup n (contents e)) r
  end.

Definition excluded (pl : plan) (al be : oentry) (q : path) : bool :=
  existsb (fun c => is_prefix (root c) q) (conflicts pl)
  || problem_prefix al q || problem_prefix be q.

(* after applying the plan's beta changes (with core.Apply, here Model/Entry
   [apply]), beta's synchronizable content agrees with alpha's at every path
   that is not excluded *)
Definition mirrored (al be : oentry) (pl : plan) : Prop :=
  exists be',
    apply be (beta_ch pl) = FOk be'
    /\ forall q, excluded pl al be q = false ->
         oshallow_eqb (at_path (synchronizable be') q) (at_path (synchronizable al) q) = true.

Definition mirrored_b (al be : oentry) (pl : plan) : bool :=
  match apply be (beta_ch pl) with
  | FOk be' =>
    forallb (fun q => excluded pl al be q
                      || oshallow_eqb (at_path (synchronizable be') q)
                                      (at_path (synchronizable al) q))
            (paths_of (synchronizable be') ++ paths_of (synchronizable al))%list
  | _ => false
  end.

(* no problematic content anywhere *)
Definition problem_free (e : oentry) : Prop := forall q, is_problem (at_path e q) = false.

(* ---------- the property on one plan, per mode ---------- *)
Definition c02_plan_ok (m : mode) (anc al be : oentry) (pl : plan) : Prop :=
  match m with
  | TwoWaySafe => True
  | TwoWayResolved => alpha_protected anc al (alpha_ch pl)
  | OneWaySafe => alpha_ch pl = [] /\ beta_protected anc be (beta_ch pl)
  | OneWayReplica => alpha_ch pl = [] /\ mirrored al be pl
  end.

Definition c02_plan_ok_b (m : mode) (anc al be : oentry) (pl : plan) : bool :=
  match m with
  | TwoWaySafe => true
  | TwoWayResolved => alpha_protected_b anc al (alpha_ch pl)
  | OneWaySafe => is_nil (alpha_ch pl) && beta_protected_b anc be (beta_ch pl)
  | OneWayReplica => is_nil (alpha_ch pl) && mirrored_b al be pl
  end.

Definition check_c02 (c : mode * oentry * oentry * oentry * plan) : bool :=
  let '(m, anc, al, be, pl) := c in c02_plan_ok_b m anc al be pl.

(* ---------- the endpoint guard ----------
   NewEndpoint: the configured mode, or the version's default when the
   configuration leaves it unset (Version1: two-way-safe);
     unidirectional := mode == OneWaySafe || mode == OneWayReplica
     readOnly := alpha && unidirectional
   Stage / Transition: if e.readOnly { return ..., errors.New(...) } before
   anything else. *)
Definition effective_mode (configured : option mode) : mode :=
  match configured with Some m => m | None => TwoWaySafe end.

Definition read_only (alpha : bool) (configured : option mode) : bool :=
  alpha && unidirectional (effective_mode configured).

(* the first statement of Stage and of Transition, as a machine: a request
   either is refused before any filesystem primitive is issued (the list of
   primitives issued is empty), or is handed on to the rest of the method,
   which may issue primitives [prims] and produce [r] *)
Inductive guard_result (R : Type) :=
| Refused                       (* the "endpoint is in read-only mode" error *)
| Proceeded (r : R).
Arguments Refused {R}.
Arguments Proceeded {R} r.

Definition guarded {R P : Type} (ro : bool) (rest : unit -> R * list P) : guard_result R * list P :=
  if ro then (Refused, []) else let '(r, prims) := rest tt in (Proceeded r, prims).

(* one observation of the real endpoint: created by local.NewEndpoint with the
   given role and configured mode, then (after one Scan) asked to Stage a
   non-empty request (in some request shapes every requested digest is already
   present in the endpoint's own root, so nothing would have to be transmitted)
   and to perform a non-empty Transition *)
Record guard_obs := {
  g_alpha : bool;
  g_mode : option mode;
  g_stage_refused : bool;        (* Stage returned the read-only error *)
  g_transition_refused : bool;   (* Transition returned the read-only error *)
  g_root_unchanged : bool;       (* the root's content is what it was before *)
  g_staging_unchanged : bool     (* the endpoint's staging store is what it was before *)
}.

(* correspondence with the model of the guard *)
Definition guard_corr (o : guard_obs) : bool :=
  Bool.eqb (g_stage_refused o) (read_only (g_alpha o) (g_mode o))
  && Bool.eqb (g_transition_refused o) (read_only (g_alpha o) (g_mode o)).

(* the property on the observation: a one-way source refuses both, and
   neither its root nor its staging store is touched *)
Definition guard_ok (o : guard_obs) : bool :=
  if g_alpha o && unidirectional (effective_mode (g_mode o))
  then g_stage_refused o && g_transition_refused o && g_root_unchanged o
       && g_staging_unchanged o
  else true.
