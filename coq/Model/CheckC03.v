(* C03 - specification and executable checker (definitions only, no proofs).

   "Ignored, unsupported and problematic content is never removed or
    replaced": at the level of the plan produced by core.Reconcile
   (reconcile.go).  The checker [check_c03] is applied by the harness to the
   IMPLEMENTATION's plan; it decides the property from
   (mode, ancestor, alpha, beta, plan) alone. *)
From Coq Require Import List Bool Arith String Sorting.Permutation.
Import ListNotations.
From Mv Require Import Model.Entry Model.Reconcile Model.CheckC06.

(* ------------------------------------------------------------------ *)
(* Unsynchronizable content                                            *)
(* ------------------------------------------------------------------ *)

(* the entry neither is nor contains untracked, problematic or phantom
   content (= Entry.EnsureValid(true) as far as kinds are concerned) *)
Fixpoint unsync_free_entry (e : entry) : bool :=
  match e with
  | EDir c => (fix go (l : list (name * entry)) : bool :=
                 match l with
                 | [] => true
                 | (_, x) :: t => unsync_free_entry x && go t
                 end) c
  | EFile _ _ | ELink _ => true
  | EUntracked | EProblem _ | EPhantom _ => false
  end.

Definition unsync_free (e : oentry) : bool :=
  match e with None => true | Some x => unsync_free_entry x end.

(* ------------------------------------------------------------------ *)
(* Sides                                                               *)
(* ------------------------------------------------------------------ *)

Inductive side := SAlpha | SBeta.

Definition side_entry (X : side) (a b : oentry) : oentry :=
  match X with SAlpha => a | SBeta => b end.
Definition side_changes (X : side) (pl : plan) : list change :=
  match X with SAlpha => alpha_ch pl | SBeta => beta_ch pl end.
Definition conflict_side (X : side) (c : conflict) : list change :=
  match X with SAlpha => alpha_changes c | SBeta => beta_changes c end.

(* ------------------------------------------------------------------ *)
(* (1) no change over unsynchronizable content                         *)
(* ------------------------------------------------------------------ *)

(* A transition at path p on a side holding x is harmless for untracked
   content iff x holds nothing unsynchronizable at or below p and every
   strict prefix of p is a directory on that side (so that no
   unsynchronizable entry sits above p either). *)
Definition side_ok (x : oentry) (p : path) : Prop :=
  unsync_free (at_path x p) = true
  /\ forall q, strict_prefix q p -> is_dirkind (at_path x q) = true.

Fixpoint side_okb (x : oentry) (p : path) : bool :=
  match p with
  | [] => unsync_free x
  | n :: r => is_dirkind x && side_okb (lookup n (contents x)) r
  end.

Definition c03_no_change_over_unsync_prop (a b : oentry) (pl : plan) : Prop :=
  forall X ch, In ch (side_changes X pl) -> side_ok (side_entry X a b) (cpath ch).

(* ------------------------------------------------------------------ *)
(* (2) a conflict is reported instead                                  *)
(* ------------------------------------------------------------------ *)

(* The decision the mode takes at a disagreement when the unsynchronizable
   content of the side(s) that may be written is disregarded: the mode's
   handler applied to the synchronizable parts. *)
Definition decision (m : mode) (p : path) (anc a b : oentry) : plan :=
  match m with
  | TwoWaySafe | TwoWayResolved =>
      handle_bidirectional m p anc (synchronizable a) (synchronizable b)
  | OneWaySafe => handle_one_way_safe p anc a (synchronizable b)
  | OneWayReplica => handle_one_way_replica p anc a (synchronizable b)
  end.

Definition would_write (m : mode) (p : path) (anc a b : oentry) (X : side) : bool :=
  negb (is_nil (side_changes X (decision m p anc a b))).

(* the paths at which reconcile hands (ancestor, alpha, beta) to the handler *)
Definition handled (a b : oentry) (p : path) : Prop :=
  reach a b p /\ disagrees (at_path a p) (at_path b p) = true.

Definition handledb (a b : oentry) (p : path) : bool :=
  reachb a b p && disagrees (at_path a p) (at_path b p).

(* the unsynchronizable residue of x below p, as reconcile.go computes it:
   diff(path, x.synchronizable(), x) *)
Definition residue (p : path) (x : oentry) : list change := diff p (synchronizable x) x.

Definition c03_conflict_instead_prop (m : mode) (anc a b : oentry) (pl : plan) : Prop :=
  forall p X,
    handled a b p ->
    would_write m p (anc_seen anc a p) (at_path a p) (at_path b p) X = true ->
    unsync_free (at_path (side_entry X a b) p) = false ->
    exists c, In c (conflicts pl) /\ root c = p
              /\ Permutation (conflict_side X c) (residue p (at_path (side_entry X a b) p)).

(* every path of an entry *)
Fixpoint paths_entry (e : entry) : list path :=
  [] :: match e with
        | EDir c | EPhantom c =>
          (fix go (l : list (name * entry)) : list path :=
             match l with
             | [] => []
             | (n, x) :: t => (map (cons n) (paths_entry x) ++ go t)%list
             end) c
        | _ => []
        end.
Definition paths_of (e : oentry) : list path :=
  match e with None => [] | Some x => paths_entry x end.

Definition conflict_instead_atb (m : mode) (anc a b : oentry) (pl : plan) (p : path) : bool :=
  if handledb a b p then
    forallb (fun X =>
      if would_write m p (anc_seen anc a p) (at_path a p) (at_path b p) X
         && negb (unsync_free (at_path (side_entry X a b) p))
      then existsb (fun c =>
             path_eqb (root c) p
             && changes_eqb (sort_changes (conflict_side X c))
                            (sort_changes (residue p (at_path (side_entry X a b) p))))
             (conflicts pl)
      else true) [SAlpha; SBeta]
  else true.

(* ------------------------------------------------------------------ *)
(* (3) problematic paths are skipped entirely                          *)
(* ------------------------------------------------------------------ *)

Definition out_paths (pl : plan) : list path := (anc_paths pl ++ roots pl)%list.

Definition c03_problem_skipped_prop (a b : oentry) (pl : plan) : Prop :=
  forall t, is_problem (at_path a t) = true \/ is_problem (at_path b t) = true ->
    forall r, In r (out_paths pl) -> ~ prefix t r.

(* neither side is problematic at any (non-strict) prefix of r *)
Fixpoint no_problem_alongb (a b : oentry) (r : path) : bool :=
  negb (is_problem a) && negb (is_problem b)
  && match r with
     | [] => true
     | n :: r' => no_problem_alongb (lookup n (contents a)) (lookup n (contents b)) r'
     end.

(* ------------------------------------------------------------------ *)
(* The checker                                                         *)
(* ------------------------------------------------------------------ *)

Definition c03_prop (m : mode) (anc a b : oentry) (pl : plan) : Prop :=
  c03_no_change_over_unsync_prop a b pl
  /\ c03_conflict_instead_prop m anc a b pl
  /\ c03_problem_skipped_prop a b pl.

Definition check_c03_plan (m : mode) (anc a b : oentry) (pl : plan) : bool :=
  forallb (fun ch => side_okb a (cpath ch)) (alpha_ch pl)
  && forallb (fun ch => side_okb b (cpath ch)) (beta_ch pl)
  && forallb (conflict_instead_atb m anc a b pl) (paths_of a ++ paths_of b)%list
  && forallb (no_problem_alongb a b) (out_paths pl).

Definition check_c03 (c : mode * oentry * oentry * oentry * plan) : bool :=
  let '(m, anc, a, b, pl) := c in check_c03_plan m anc a b pl.
