(* C06 - specification and executable checker (definitions only, no proofs).

   "Every path receives at most one action and conflicts are well formed."

   The checker [check_c06] is applied by the harness to the plan that the
   IMPLEMENTATION (core.Reconcile) returned; it decides the property from
   (mode, ancestor, alpha, beta, plan) alone.  The same file states the
   property as readable [Prop]s; Proof/C06.v shows checker <-> Prop and that
   the model's plan satisfies them.

   This file also holds the path vocabulary shared with CheckC03.v:
   prefixes, the entries seen along a path, and the description of the paths
   at which core.reconcile (reconcile.go) recurses or stops. *)
From Coq Require Import List Bool Arith String.
Import ListNotations.
From Mv Require Import Model.Entry Model.Reconcile.

(* ------------------------------------------------------------------ *)
(* Paths                                                               *)
(* ------------------------------------------------------------------ *)

(* q extends p: p is a (non-strict) prefix of q; Prop twin of [is_prefix] *)
Definition prefix (p q : path) : Prop := exists s, q = (p ++ s)%list.
Definition strict_prefix (p q : path) : Prop := exists n s, q = (p ++ n :: s)%list.

Definition strict_prefixb (p q : path) : bool := is_prefix p q && negb (path_eqb p q).

(* no two members equal, none a prefix of another *)
Definition antichain (l : list path) : Prop :=
  NoDup l /\ forall p q, In p l -> In q l -> prefix p q -> p = q.

Fixpoint antichainb (l : list path) : bool :=
  match l with
  | [] => true
  | x :: t => forallb (fun y => negb (is_prefix x y) && negb (is_prefix y x)) t && antichainb t
  end.

(* ------------------------------------------------------------------ *)
(* The actions of a plan                                               *)
(* ------------------------------------------------------------------ *)

(* the paths that receive an action: every transition on alpha, every
   transition on beta and every conflict root (as a list with multiplicity) *)
Definition roots (pl : plan) : list path :=
  (map cpath (alpha_ch pl) ++ map cpath (beta_ch pl) ++ map root (conflicts pl))%list.

Definition anc_paths (pl : plan) : list path := map cpath (anc_changes pl).

(* ------------------------------------------------------------------ *)
(* Where reconcile recurses and where it stops                         *)
(* ------------------------------------------------------------------ *)

Definition nil_or_untracked (e : oentry) : bool := is_none e || is_untracked e.

Definition is_dirkind (e : oentry) : bool :=
  match e with Some (EDir _) | Some (EPhantom _) => true | _ => false end.

(* reconcile (reconcile.go) recurses into the contents at a path holding
   (x, y) iff neither is problematic, they are not both nil/untracked, and
   they are shallow-equal ... *)
Definition descends (x y : oentry) : bool :=
  negb (is_problem x) && negb (is_problem y)
  && negb (nil_or_untracked x && nil_or_untracked y)
  && oshallow_eqb x y.

(* ... and hands the path to the mode's disagreement handler iff neither is
   problematic, they are not both nil/untracked, and they are NOT
   shallow-equal. *)
Definition disagrees (x y : oentry) : bool :=
  negb (is_problem x) && negb (is_problem y)
  && negb (nil_or_untracked x && nil_or_untracked y)
  && negb (oshallow_eqb x y).

(* the path s (relative to the pair (a, b)) is visited by the recursion:
   at every strict prefix the recursion descends (through a directory on
   both sides) *)
Fixpoint reachb (a b : oentry) (s : path) : bool :=
  match s with
  | [] => true
  | n :: r => descends a b && is_dirkind a && is_dirkind b
              && reachb (lookup n (contents a)) (lookup n (contents b)) r
  end.

Definition reach (a b : oentry) (s : path) : Prop :=
  forall q, strict_prefix q s ->
    descends (at_path a q) (at_path b q) = true
    /\ is_dirkind (at_path a q) = true /\ is_dirkind (at_path b q) = true.

(* "the path where the disagreement occurs": the two sides are shallow-equal
   at every strict prefix and not shallow-equal at the path itself *)
Definition first_disagreement (a b : oentry) (p : path) : Prop :=
  (forall q, strict_prefix q p -> oshallow_eqb (at_path a q) (at_path b q) = true)
  /\ oshallow_eqb (at_path a p) (at_path b p) = false.

Fixpoint first_disagreementb (a b : oentry) (p : path) : bool :=
  match p with
  | [] => negb (oshallow_eqb a b)
  | n :: r => oshallow_eqb a b
              && first_disagreementb (lookup n (contents a)) (lookup n (contents b)) r
  end.

(* the mode's disagreement handler (the switch at the end of
   reconciler.reconcile) *)
Definition handler (m : mode) (p : path) (anc a b : oentry) : plan :=
  match m with
  | TwoWaySafe | TwoWayResolved => handle_bidirectional m p anc a b
  | OneWaySafe => handle_one_way_safe p anc a b
  | OneWayReplica => handle_one_way_replica p anc a b
  end.

(* the ancestor contents that reconcile uses below a node: dropped as soon
   as the ancestor disagrees with the endpoints there (reconcile.go:
   "ancestorContents = nil") *)
Definition anc_below (anc a : oentry) : list (name * entry) :=
  if oshallow_eqb anc a then contents anc else [].

(* the ancestor entry that the recursion sees at the relative path s *)
Fixpoint anc_seen (anc a : oentry) (s : path) : oentry :=
  match s with
  | [] => anc
  | n :: r => anc_seen (lookup n (anc_below anc a)) (lookup n (contents a)) r
  end.

(* ------------------------------------------------------------------ *)
(* The three statements                                                *)
(* ------------------------------------------------------------------ *)

(* (1) at most one action per path, none below another *)
Definition c06_antichain_prop (pl : plan) : Prop := antichain (roots pl).

(* (2) conflicts are well formed (conflict.go: EnsureValid) and rooted at the
   disagreement *)
Definition conflict_wf (a b : oentry) (c : conflict) : Prop :=
  alpha_changes c <> [] /\ beta_changes c <> []
  /\ (forall ch, In ch (alpha_changes c ++ beta_changes c)%list ->
        change_valid false ch = true /\ prefix (root c) (cpath ch))
  /\ first_disagreement a b (root c).

Definition c06_conflict_wf_prop (a b : oentry) (pl : plan) : Prop :=
  forall c, In c (conflicts pl) -> conflict_wf a b c.

(* (3) ancestor changes never lie strictly below a transition or a conflict *)
Definition c06_anc_disjoint_prop (pl : plan) : Prop :=
  forall ch r, In ch (anc_changes pl) -> In r (roots pl) -> ~ strict_prefix r (cpath ch).

Definition c06_prop (a b : oentry) (pl : plan) : Prop :=
  c06_antichain_prop pl /\ c06_conflict_wf_prop a b pl /\ c06_anc_disjoint_prop pl.

(* ------------------------------------------------------------------ *)
(* The checker                                                         *)
(* ------------------------------------------------------------------ *)

Definition conflict_wfb (a b : oentry) (c : conflict) : bool :=
  conflict_valid c
  && forallb (fun ch => is_prefix (root c) (cpath ch)) (alpha_changes c ++ beta_changes c)%list
  && first_disagreementb a b (root c).

Definition anc_disjointb (pl : plan) : bool :=
  forallb (fun ch => forallb (fun r => negb (strict_prefixb r (cpath ch))) (roots pl))
          (anc_changes pl).

Definition check_c06_plan (a b : oentry) (pl : plan) : bool :=
  antichainb (roots pl)
  && forallb (conflict_wfb a b) (conflicts pl)
  && anc_disjointb pl.

(* a case is (mode, ancestor, alpha, beta, plan) - the [rcase] of
   Harness/ReconcileH.v *)
Definition check_c06 (c : mode * oentry * oentry * oentry * plan) : bool :=
  let '(m, anc, a, b, pl) := c in check_c06_plan a b pl.

(* ------------------------------------------------------------------ *)
(* Reconcile's call contract on phantom directories                    *)
(* ------------------------------------------------------------------ *)

(* The controller hands snapshots to core.Reconcile only after
   core.ReifyPhantomDirectories (phantom.go) has turned every phantom
   directory into a tracked directory or untracked content (and phantoms do
   not exist at all with Mutagen-style ignores).  The non-emptiness part of
   conflict well-formedness depends on this contract. *)
Fixpoint phantom_free_entry (e : entry) : bool :=
  match e with
  | EDir c => (fix go (l : list (name * entry)) : bool :=
                 match l with
                 | [] => true
                 | (_, x) :: t => phantom_free_entry x && go t
                 end) c
  | EPhantom _ => false
  | _ => true
  end.

Definition phantom_free (e : oentry) : bool :=
  match e with None => true | Some x => phantom_free_entry x end.

(* ------------------------------------------------------------------ *)
(* The reported form of a conflict                                     *)
(* ------------------------------------------------------------------ *)

(* Conflicts reach the user (session state, Manager.List) in slim form:
   change.go: Change.slim, conflict.go: Conflict.Slim - every entry is
   replaced by its slim copy (contents dropped), nothing else changes. *)
Definition slim_change (ch : change) : change :=
  {| cpath := cpath ch; cold := oslim (cold ch); cnew := oslim (cnew ch) |}.

Definition slim_conflict (c : conflict) : conflict :=
  {| root := root c;
     alpha_changes := map slim_change (alpha_changes c);
     beta_changes := map slim_change (beta_changes c) |}.

(* s is an acceptable reported form of the conflict c: same root, the same
   change paths on each endpoint (so still at least one change on each
   endpoint whenever c has), and itself well formed *)
Definition reported_ok (a b : oentry) (c s : conflict) : Prop :=
  root s = root c
  /\ map cpath (alpha_changes s) = map cpath (alpha_changes c)
  /\ map cpath (beta_changes s) = map cpath (beta_changes c)
  /\ conflict_wf a b s.

Fixpoint paths_eqb (x y : list path) : bool :=
  match x, y with
  | [], [] => true
  | p :: x', q :: y' => path_eqb p q && paths_eqb x' y'
  | _, _ => false
  end.

Definition reported_okb (a b : oentry) (c s : conflict) : bool :=
  path_eqb (root s) (root c)
  && paths_eqb (map cpath (alpha_changes s)) (map cpath (alpha_changes c))
  && paths_eqb (map cpath (beta_changes s)) (map cpath (beta_changes c))
  && conflict_wfb a b s.

(* the reported conflicts, in the order of the plan's conflicts *)
Fixpoint all_reported_okb (a b : oentry) (cs ss : list conflict) : bool :=
  match cs, ss with
  | [], [] => true
  | c :: cs', s :: ss' => reported_okb a b c s && all_reported_okb a b cs' ss'
  | _, _ => false
  end.

Definition c06_reported_prop (a b : oentry) (pl : plan) (ss : list conflict) : Prop :=
  Forall2 (reported_ok a b) (conflicts pl) ss.

(* a case with the reported conflicts: ((mode, ancestor, alpha, beta, plan),
   [Slim() of every conflict of the plan, in order]) *)
Definition check_c06_reported
  (c : (mode * oentry * oentry * oentry * plan) * list conflict) : bool :=
  let '((m, anc, a, b, pl), ss) := c in
  check_c06_plan a b pl && all_reported_okb a b (conflicts pl) ss.
