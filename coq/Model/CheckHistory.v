(* History checkers for the controller's use of the reconcile family
   (definitions only, no proofs).

   A history is what goharness/cmd/history recorded of one real session
   (synchronization.Manager, instrumented wrappers over real local endpoints
   on temporary roots): one record per synchronization cycle of
   pkg/synchronization/controller.go:synchronize, in order, across pauses,
   resumes and manager restarts. Between two cycles the roots are edited
   from outside. A cycle record holds only observed values: what the
   controller handed to the endpoints, what the endpoints answered, the
   archive decoded from disk after the cycle, and walks of both roots made by
   the harness itself before and after the cycle.

   The model side transcribes the body of one iteration of synchronize:
     executability propagation (exactly one side preserves it, portable
     permissions), the three safety halts, core.Reconcile, the Transition
     calls, and the update recipe of Model/Outcomes.v
       ancestor' = Apply(ancestor, ancestorChanges ++ alpha results ++ beta results)
     saved to disk whenever that list is not empty; a side whose Transition
     call fails as a whole contributes nothing; when Apply fails or the new
     ancestor is not synchronizable nothing is saved.
   Sessions with Docker-style ignores (phantom directories, reified by
   core.ReifyPhantomDirectories before everything else) are only used for the
   C18 check, which looks at observed values alone. *)
From Coq Require Import List Bool Arith String.
Import ListNotations.
From Mv Require Import Model.Entry Model.Reconcile Model.Outcomes Model.C04Cycle Model.Exec
  Model.Safety.

Record cyc := {
  k_anc : oentry;                    (* the ancestor handed to Scan                        *)
  k_sa : oentry; k_sb : oentry;      (* snapshot contents the endpoints returned           *)
  k_pa : bool; k_pb : bool;          (* Snapshot.PreservesExecutability of alpha / beta    *)
  k_stage : bool;                    (* Stage was called on an endpoint                    *)
  k_ta : option (list change);       (* transitions alpha received (None: not called)      *)
  k_tb : option (list change);
  k_ra : option (list change);       (* alpha's results as changes (path, nil, result);
                                        None: not called, or the call returned an error    *)
  k_rb : option (list change);
  k_ok : bool;                       (* the waiting flush returned without error           *)
  k_disk : oentry;                   (* archive decoded from disk after the cycle          *)
  k_wa0 : oentry; k_wb0 : oentry;    (* walks of the roots right before the cycle          *)
  k_wa : oentry; k_wb : oentry       (* walks of the roots after the cycle                 *)
}.

Record hist := {
  h_mode : mode;
  h_docker : bool;                   (* Docker-style ignore syntax                         *)
  h_n : option bool;                 (* Some true: alpha's wrapper reports every file as
                                        non-executable (N = alpha); Some false: N = beta   *)
  h_cycles : list cyc
}.

Definition is_some {A} (o : option A) : bool := match o with Some _ => true | None => false end.
Definition olist (o : option (list change)) : list change := match o with Some l => l | None => [] end.

(* ---------- one iteration of synchronize ---------- *)

(* "if permissionsMode == Portable { if alpha preserves && beta != nil && !beta preserves ..." *)
Definition exec_prop (anc : oentry) (c : cyc) : oentry * oentry :=
  if k_pa c && negb (k_pb c) then (k_sa c, propagate_exec anc (k_sa c) (k_sb c))
  else if k_pb c && negb (k_pa c) then (propagate_exec anc (k_sb c) (k_sa c), k_sb c)
  else (k_sa c, k_sb c).

Definition plan_of (m : mode) (anc : oentry) (c : cyc) : plan :=
  let '(a, b) := exec_prop anc c in reconcile m anc a b.

Definition halts (m : mode) (anc : oentry) (c : cyc) : bool :=
  let '(a, b) := exec_prop anc c in is_some (safety_verdict m anc a b).

(* the cycle got as far as the Transition calls (the point after which the
   ancestor is updated and saved) *)
Definition reached (c : cyc) : bool := k_ok c || is_some (k_ta c) || is_some (k_tb c).

(* the update recipe (Outcomes.update) on the observed results; nothing is
   saved when the cycle ended earlier, when Apply fails or when the new
   ancestor is not synchronizable *)
Definition expected_anc (m : mode) (anc : oentry) (c : cyc) : oentry :=
  if reached c then
    match update anc (plan_of m anc c) (olist (k_ra c)) (olist (k_rb c)) with
    | FOk x => if wf true x then x else anc
    | _ => anc
    end
  else anc.

(* every cycle paired with the state the archive should hold before it *)
Fixpoint track (m : mode) (anc : oentry) (cs : list cyc) : list (oentry * cyc) :=
  match cs with
  | [] => []
  | c :: t => (anc, c) :: track m (expected_anc m anc c) t
  end.

(* ---------- correspondence (verdict bit 1) ---------- *)

Definition tr_match (planned : list change) (got : option (list change)) : bool :=
  match got with
  | None => is_nil planned
  | Some l => negb (is_nil l) && changes_eqb (sort_changes l) (sort_changes planned)
  end.

(* the controller scanned with the state the archive should hold; a halting
   cycle reaches no Transition; a cycle that reaches them sends exactly the
   plan's transitions *)
Definition corr_cycle (m : mode) (anc : oentry) (c : cyc) : bool :=
  oentry_eqb (k_anc c) anc
  && (if halts m anc c then negb (reached c)
      else if reached c then
        tr_match (alpha_ch (plan_of m anc c)) (k_ta c) && tr_match (beta_ch (plan_of m anc c)) (k_tb c)
      else true).

Definition corr_hist (h : hist) : bool :=
  forallb (fun ac => corr_cycle (h_mode h) (fst ac) (snd ac)) (track (h_mode h) None (h_cycles h)).

(* ---------- well-formedness of a record (verdict bit 8) ---------- *)

Definition paths_match (t r : option (list change)) : bool :=
  match t, r with
  | _, None => true
  | None, Some _ => false
  | Some tl, Some rl =>
    (fix go (x y : list change) : bool :=
       match x, y with
       | [], [] => true
       | a :: x', b :: y' => path_eqb (cpath a) (cpath b) && go x' y'
       | _, _ => false
       end) tl rl
  end.

Definition wf_cycle (c : cyc) : bool :=
  wf true (k_anc c) && wf false (k_sa c) && wf false (k_sb c) && wf true (k_disk c)
  && paths_match (k_ta c) (k_ra c) && paths_match (k_tb c) (k_rb c).

Definition wf_hist (h : hist) : bool :=
  forallb wf_cycle (h_cycles h)
  && match h_n h with
     | None => forallb (fun c => k_pa c && k_pb c) (h_cycles h)
     | Some true => forallb (fun c => negb (k_pa c) && k_pb c && nonexec (k_sa c)) (h_cycles h)
     | Some false => forallb (fun c => k_pa c && negb (k_pb c) && nonexec (k_sb c)) (h_cycles h)
     end.

(* the checks that replay the model need phantom-free snapshots *)
Definition plain_hist (h : hist) : bool :=
  negb (h_docker h)
  && forallb (fun c => phantom_free (k_sa c) && phantom_free (k_sb c)) (h_cycles h).

(* ---------- C05: the archive on disk is the update recipe's result ---------- *)

Definition c05_cycle (m : mode) (anc : oentry) (c : cyc) : bool :=
  oentry_eqb (k_disk c) (expected_anc m anc c).

Definition check_hist_c05 (h : hist) : bool :=
  forallb (fun ac => c05_cycle (h_mode h) (fst ac) (snd ac)) (track (h_mode h) None (h_cycles h)).

(* ---------- C01: no content loss in two-way-safe histories ---------- *)

(* every file version (path, digest) a root held before the cycle is still
   there afterwards, or is on the other root afterwards, or is what the
   last-synchronized state held at that path (unchanged content) *)
Definition kept (before after other anc : oentry) : bool :=
  forallb (fun p =>
             match at_path before p with
             | Some (EFile _ d) =>
               file_with (at_path after p) d || file_with (at_path other p) d
               || file_with (at_path anc p) d
             | _ => true
             end)
          (paths before).

Definition c01_cycle (anc : oentry) (c : cyc) : bool :=
  kept (k_wa0 c) (k_wa c) (k_wb c) anc && kept (k_wb0 c) (k_wb c) (k_wa c) anc.

Definition is_safe (m : mode) : bool := match m with TwoWaySafe => true | _ => false end.

Definition check_hist_c01 (h : hist) : bool :=
  if is_safe (h_mode h) then
    forallb (fun ac => c01_cycle (fst ac) (snd ac)) (track (h_mode h) None (h_cycles h))
  else true.

(* ---------- C04: a quiescent step changes nothing ---------- *)

(* every transition was reported as applied exactly *)
Definition ideal_results (t r : option (list change)) : bool :=
  match t, r with
  | None, None => true
  | Some tl, Some rl => changes_eqb (ideal tl) rl
  | _, _ => false
  end.

Definition complete (c : cyc) : bool :=
  k_ok c && ideal_results (k_ta c) (k_ra c) && ideal_results (k_tb c) (k_rb c).

(* no edit between the end of c1 and the start of c2 *)
Definition quiet (c1 c2 : cyc) : bool :=
  complete c1 && oentry_eqb (k_wa c1) (k_wa0 c2) && oentry_eqb (k_wb c1) (k_wb0 c2).

Definition unchanged (c1 c2 : cyc) : bool :=
  negb (k_stage c2) && negb (is_some (k_ta c2)) && negb (is_some (k_tb c2))
  && oentry_eqb (k_disk c2) (k_disk c1).

Fixpoint c04_chain (cs : list cyc) : bool :=
  match cs with
  | c1 :: ((c2 :: _) as t) => (if quiet c1 c2 then unchanged c1 c2 else true) && c04_chain t
  | _ => true
  end.

Definition check_hist_c04 (h : hist) : bool := c04_chain (h_cycles h).

(* number of quiescent steps (for the harness's notion of a non-trivial case) *)
Fixpoint quiet_steps (cs : list cyc) : nat :=
  match cs with
  | c1 :: ((c2 :: _) as t) => (if quiet c1 c2 then 1 else 0) + quiet_steps t
  | _ => 0
  end.

(* ---------- C18: no bit of P changes while the file is on both sides ---------- *)

Definition p_snap (na : bool) (c : cyc) : oentry := if na then k_sb c else k_sa c.
Definition n_snap (na : bool) (c : cyc) : oentry := if na then k_sa c else k_sb c.
Definition p_trans (na : bool) (c : cyc) : list change := olist (if na then k_tb c else k_ta c).
Definition p_walk0 (na : bool) (c : cyc) : oentry := if na then k_wb0 c else k_wa0 c.
Definition p_walk (na : bool) (c : cyc) : oentry := if na then k_wb c else k_wa c.

(* on P's disk: a path that holds a file before and after the cycle, and a
   file in N's snapshot, keeps its bit *)
Definition walk_keeps_bits (before after n : oentry) : bool :=
  forallb (fun p =>
             match at_path before p, at_path after p, at_path n p with
             | Some (EFile x _), Some (EFile x' _), Some (EFile _ _) => Bool.eqb x x'
             | _, _, _ => true
             end)
          (paths before).

Definition c18_cycle (na : bool) (c : cyc) : bool :=
  forallb (change_keeps_bits (p_snap na c) (n_snap na c)) (p_trans na c)
  && walk_keeps_bits (p_walk0 na c) (p_walk na c) (n_snap na c).

Definition c18_input (m : mode) (na : bool) (c : cyc) : c18_in :=
  {| x_mode := m; x_n_alpha := na; x_anc := k_anc c; x_p := p_snap na c; x_n := n_snap na c |}.

(* per cycle: 0 = fine, 2 = a bit changed, 6 = a bit changed and the cycle's
   input lies in the known class of Model/Exec.v *)
Definition c18_cycle_verdict (m : mode) (na : bool) (c : cyc) : nat :=
  if c18_cycle na c then 0 else if known_C18 (c18_input m na c) then 6 else 2.

(* the history's verdict: 2 if some cycle fails outside the known class, else
   6 if some cycle fails inside it, else 0 *)
Definition c18_hist_verdict (h : hist) : nat :=
  match h_n h with
  | None => 0
  | Some na =>
    let vs := map (c18_cycle_verdict (h_mode h) na) (h_cycles h) in
    if existsb (Nat.eqb 2) vs then 2 else if existsb (Nat.eqb 6) vs then 6 else 0
  end.
