(* Model of pkg/state/coalescer.go (C31).  Definitions only.

   Part 1: a discrete-time automaton of Coalescer.run with the timer, its
   channel, the single-slot signals channel, cancellation and the done channel.
   Actions are the atomic steps of the Go code (the rendezvous on c.strobes,
   the runtime firing the timer, the loop's case <-timer.C with its
   non-blocking send, the consumer's receive, cancel(), the loop's case
   <-ctx.Done(), Terminate returning) plus the passage of one unit of time.
   Time cannot pass while the timer is due or its tick is unhandled (ideal
   timing); the real timing is sampled by the harness with slack.

   Part 2: a monitor over timed histories (strobe call/return times, signal
   receive times, polls, Terminate, end of observation): the checker that is
   applied to histories recorded from the real Coalescer. *)
From Coq Require Import List Arith NArith Bool.
Import ListNotations.

(* ------------------------------------------------------------------ *)
(* Timed events. *)
Inductive cevent :=
| ES (c r : N)            (* Strobe(): called at c, returned at r (listed at its call) *)
| EG (g : N)              (* a signal was received from Signals() at g *)
| EP (t : N)              (* a non-blocking look at Signals() at t found nothing *)
| ETc (c : N)             (* Terminate() called *)
| ETr (r : N)             (* Terminate() returned *)
| EEnd (t : N).           (* the observation ends *)

(* ------------------------------------------------------------------ *)
(* Part 1: the automaton. *)
Record cstate := mkC {
  now : N;
  timer : option N;       (* the armed timer's deadline *)
  tc : bool;              (* timer.C holds a tick *)
  buf : nat;              (* values in c.signals (capacity 1) *)
  cancelled : bool;       (* cancel() was called *)
  cdone : bool;           (* c.done is closed: the run loop has exited *)
  (* ghost *)
  last : option N;        (* time of the last strobe received by the loop *)
  owed : bool;            (* a strobe was received and the timer not handled since *)
  bursts : nat;           (* strobes received while nothing was owed *)
  attempts : nat;         (* executions of the loop's timer case *)
  put : nat;              (* signals placed in the channel *)
  taken : nat;            (* signals received by the consumer *)
  cons_since : bool;      (* a signal was received since the last timer case *)
  clog : list cevent      (* history, newest first *)
}.

Inductive caction :=
| AStrobe        (* Strobe(): select { case c.strobes <- struct{}{}: case <-c.done: } on the
                    UNBUFFERED channel c.strobes: a blocking rendezvous -- Strobe returns only
                    after the run loop has received the strobe (and then arms the timer), or
                    after c.done is closed.  The loop's start-up and its way back into the
                    select are therefore not separate states: a strobe issued at any moment,
                    including right after NewCoalescer (time 0) or right after a signal was
                    delivered, simply waits for the loop; it is never dropped. *)
| AFire          (* the runtime fires the timer *)
| AHandle        (* loop: case <-timer.C: select { case c.signals <- struct{}{}: default: } *)
| ATake          (* consumer: <-c.Signals() *)
| APoll          (* consumer: non-blocking look, channel empty *)
| ACancel        (* Terminate: c.cancel() *)
| AExit          (* loop: case <-ctx.Done(): timer.Stop(); close(c.done) *)
| ATermRet       (* Terminate: <-c.done *)
| ATick          (* one unit of time passes *)
| AEnd.          (* the observer stops *)

Definition cinit : cstate :=
  mkC 0 None false 0 false false None false 0 0 0 0 false [].

Definition timer_due (s : cstate) : bool :=
  match timer s with Some d => N.leb d (now s) | None => false end.

(* time may not pass while the loop has timer work to do, nor (with a consumer
   that is always listening) while a signal is waiting to be received *)
Definition urgent (listen : bool) (s : cstate) : bool :=
  (negb (cdone s) && (tc s || timer_due s)) || (listen && Nat.ltb 0 (buf s)).

Definition b2n (b : bool) : nat := if b then 1 else 0.

Definition cstep (w : N) (listen : bool) (s : cstate) (a : caction) : option cstate :=
  match a with
  | AStrobe =>
      if cdone s
      then Some (mkC (now s) (timer s) (tc s) (buf s) (cancelled s) (cdone s) (last s) (owed s)
                     (bursts s) (attempts s) (put s) (taken s) (cons_since s)
                     (ES (now s) (now s) :: clog s))
      else (* timer.Stop(); drain timer.C; timer.Reset(window) *)
           Some (mkC (now s) (Some (now s + w)%N) false (buf s) (cancelled s) (cdone s)
                     (Some (now s)) true (bursts s + b2n (negb (owed s))) (attempts s) (put s)
                     (taken s) (cons_since s) (ES (now s) (now s) :: clog s))
  | AFire =>
      if negb (cdone s) && timer_due s
      then Some (mkC (now s) None true (buf s) (cancelled s) (cdone s) (last s) (owed s)
                     (bursts s) (attempts s) (put s) (taken s) (cons_since s) (clog s))
      else None
  | AHandle =>
      if negb (cdone s) && tc s
      then let full := Nat.leb 1 (buf s) in
           Some (mkC (now s) (timer s) false (if full then buf s else S (buf s)) (cancelled s)
                     (cdone s) (last s) false (bursts s) (S (attempts s))
                     (if full then put s else S (put s)) (taken s) false (clog s))
      else None
  | ATake =>
      match buf s with
      | O => None
      | S b => Some (mkC (now s) (timer s) (tc s) b (cancelled s) (cdone s) (last s) (owed s)
                         (bursts s) (attempts s) (put s) (S (taken s)) true (EG (now s) :: clog s))
      end
  | APoll =>
      match buf s with
      | O => Some (mkC (now s) (timer s) (tc s) 0 (cancelled s) (cdone s) (last s) (owed s)
                       (bursts s) (attempts s) (put s) (taken s) (cons_since s)
                       (EP (now s) :: clog s))
      | S _ => None
      end
  | ACancel =>
      if cancelled s then None
      else Some (mkC (now s) (timer s) (tc s) (buf s) true (cdone s) (last s) (owed s)
                     (bursts s) (attempts s) (put s) (taken s) (cons_since s)
                     (ETc (now s) :: clog s))
  | AExit =>
      if cancelled s && negb (cdone s)
      then Some (mkC (now s) None (tc s) (buf s) true true (last s) (owed s)
                     (bursts s) (attempts s) (put s) (taken s) (cons_since s) (clog s))
      else None
  | ATermRet =>
      if cancelled s && cdone s
      then Some (mkC (now s) (timer s) (tc s) (buf s) (cancelled s) (cdone s) (last s) (owed s)
                     (bursts s) (attempts s) (put s) (taken s) (cons_since s)
                     (ETr (now s) :: clog s))
      else None
  | ATick =>
      if urgent listen s then None
      else Some (mkC (now s + 1)%N (timer s) (tc s) (buf s) (cancelled s) (cdone s) (last s)
                     (owed s) (bursts s) (attempts s) (put s) (taken s) (cons_since s) (clog s))
  | AEnd =>
      Some (mkC (now s) (timer s) (tc s) (buf s) (cancelled s) (cdone s) (last s) (owed s)
                (bursts s) (attempts s) (put s) (taken s) (cons_since s) (EEnd (now s) :: clog s))
  end.

Fixpoint crun (w : N) (listen : bool) (s : cstate) (acts : list caction) : option cstate :=
  match acts with
  | [] => Some s
  | a :: r => match cstep w listen s a with Some s' => crun w listen s' r | None => None end
  end.

Definition chistory (s : cstate) : list cevent := rev (clog s).

(* ------------------------------------------------------------------ *)
(* Part 2: the history monitor.  Times are in one unit (the harness uses
   microseconds); [w] the window, [sl] the slack, [listen] whether a consumer
   was blocked on Signals() throughout (otherwise the channel was only polled).
   Every rule is one-directional: a claim is made only when it holds for every
   placement of the operations inside their call/return intervals and for
   every clock error up to the slack. *)
Record cmon := mkCM {
  poss : nat;                 (* upper bound on the bursts so far *)
  sigs : nat;                 (* signals received so far *)
  lastc : option N;           (* call time of the last strobe before any Terminate *)
  oblig : option (N * N);     (* (from, deadline): a signal is owed *)
  tcall : option N;           (* Terminate was called at *)
  tret : option N             (* Terminate returned at *)
}.

Definition cm0 : cmon := mkCM 0 0 None None None None.

Inductive cres := COk (m : cmon) | CErr (code : nat).

Definition isSome {A} (o : option A) : bool := match o with Some _ => true | None => false end.

Definition cmon_event (w sl : N) (listen : bool) (m : cmon) (e : cevent) : cres :=
  match e with
  | ES c r =>
      match oblig m with
      | Some (_, D) =>
          if listen && N.ltb D c
          then CErr 2          (* the previous burst was never followed by a signal *)
          else
            if isSome (tcall m)
            then COk (mkCM (S (poss m)) (sigs m) (lastc m) (oblig m) (tcall m) (tret m))
            else COk (mkCM (poss m + match lastc m with
                                     | Some c0 => if N.leb (c0 + w) (r + sl) then 1 else 0
                                     | None => 1
                                     end)
                           (sigs m) (Some c) (Some (c, r + w + sl)%N) (tcall m) (tret m))
      | None =>
          if isSome (tcall m)
          then COk (mkCM (S (poss m)) (sigs m) (lastc m) None (tcall m) (tret m))
          else COk (mkCM (poss m + match lastc m with
                                   | Some c0 => if N.leb (c0 + w) (r + sl) then 1 else 0
                                   | None => 1
                                   end)
                         (sigs m) (Some c) (Some (c, r + w + sl)%N) (tcall m) (tret m))
      end
  | EG g =>
      let allowed := match lastc m with
                     | Some c0 => if N.ltb (g + sl) (c0 + w) then poss m - 1 else poss m
                     | None => poss m
                     end in
      if Nat.ltb allowed (S (sigs m)) then CErr 2      (* more signals than bursts *)
      else if listen && match tret m with Some tr => N.ltb (tr + sl) g | None => false end
      then CErr 1                                       (* produced after Terminate returned *)
      else match oblig m with
           | Some (from, D) =>
               if N.ltb (g + sl) (from + w)             (* received before the strobe's timer can have
                                                           fired: an older signal, the strobe's own
                                                           signal is still owed *)
               then COk (mkCM (poss m) (S (sigs m)) (lastc m) (oblig m) (tcall m) (tret m))
               else if listen && N.ltb D g then CErr 2  (* the signal came too late *)
               else COk (mkCM (poss m) (S (sigs m)) (lastc m) None (tcall m) (tret m))
           | None => COk (mkCM (poss m) (S (sigs m)) (lastc m) None (tcall m) (tret m))
           end
  | EP t =>
      match oblig m with
      | Some (_, D) => if N.ltb D t then CErr 2 else COk m   (* looked after the deadline: nothing *)
      | None => COk m
      end
  | ETc c =>
      match oblig m with
      | Some (_, D) =>
          if N.ltb D c
          then (if listen then CErr 2
                else COk (mkCM (poss m) (sigs m) (lastc m) (oblig m) (Some c) (tret m)))
          else COk (mkCM (poss m) (sigs m) (lastc m) None (Some c) (tret m))   (* terminated first *)
      | None => COk (mkCM (poss m) (sigs m) (lastc m) None (Some c) (tret m))
      end
  | ETr r => COk (mkCM (poss m) (sigs m) (lastc m) (oblig m) (tcall m) (Some r))
  | EEnd t =>
      match oblig m with
      | Some (_, D) => if listen && N.ltb D t then CErr 2 else COk m
      | None => COk m
      end
  end.

Definition cmon_step (w sl : N) (listen : bool) (r : cres) (e : cevent) : cres :=
  match r with COk m => cmon_event w sl listen m e | CErr _ => r end.

Definition cmon_run (w sl : N) (listen : bool) (evs : list cevent) : cres :=
  fold_left (cmon_step w sl listen) evs (COk cm0).

Definition check_C31_code (w sl : N) (listen : bool) (evs : list cevent) : nat :=
  match cmon_run w sl listen evs with COk _ => 0 | CErr c => c end.
Definition check_C31 (w sl : N) (listen : bool) (evs : list cevent) : bool :=
  match cmon_run w sl listen evs with COk _ => true | CErr _ => false end.
