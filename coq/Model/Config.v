(* Model of synchronization session configuration handling (C37).
   Definitions only. Go sources transcribed:
     pkg/synchronization/configuration.go   Configuration.EnsureValid, MergeConfigurations
     pkg/synchronization/session.go         Session.EnsureValid           (load time)
     pkg/service/synchronization/synchronization.go
                                            CreationSpecification.ensureValid (creation)
     pkg/synchronization/core/permissions.go EnsureDefaultFileModeValid / ...DirectoryModeValid
     pkg/filesystem/permissions.go          ParseOwnershipIdentifier (validity only)
     pkg/synchronization/endpoint/remote/protocol.go
                                            InitializeSynchronizationRequest.ensureValid
     pkg/synchronization/endpoint/local/endpoint.go  NewEndpoint (mode dispatch)
     the MarshalText / UnmarshalText / Supported / SupportStatus switch tables of
     the eleven mode enumerations.

   Enumeration values are the raw protobuf numbers (N), because values outside
   the declared range can be received and must be rejected. *)
From Coq Require Import List String Bool NArith Ascii.
Import ListNotations.
Local Open Scope string_scope.
Local Open Scope list_scope.
Local Open Scope N_scope.

(* ------------------------------------------------------------------ enums *)

(* One enumeration: its known non-default values with their text form and
   support status (0 = unsupported, 1 = requires licence, 2 = supported; the
   plain modes only use 0 and 2). [json_style] is the VCS ignore mode, which has
   MarshalJSON (failing for default and unknown values) instead of MarshalText. *)
Record enum := {
  ename : string;
  rows : list (N * string * N);
  json_style : bool
}.

Definition E (n : string) (r : list (N * string * N)) : enum :=
  {| ename := n; rows := r; json_style := false |}.

Definition synchronization_mode := E "SynchronizationMode"
  [(1, "two-way-safe", 2); (2, "two-way-resolved", 2); (3, "one-way-safe", 2); (4, "one-way-replica", 2)].
Definition hashing_algorithm := E "HashingAlgorithm"
  [(1, "sha1", 2); (2, "sha256", 2); (3, "xxh128", 0)].       (* XXH128: SSPL builds only *)
Definition probe_mode := E "ProbeMode" [(1, "probe", 2); (2, "assume", 2)].
Definition scan_mode := E "ScanMode" [(1, "full", 2); (2, "accelerated", 2)].
Definition stage_mode := E "StageMode" [(1, "mutagen", 2); (2, "neighboring", 2); (3, "internal", 2)].
Definition symbolic_link_mode := E "SymbolicLinkMode" [(1, "ignore", 2); (2, "portable", 2); (3, "posix-raw", 2)].
Definition watch_mode := E "WatchMode" [(1, "portable", 2); (2, "force-poll", 2); (3, "no-watch", 2)].
Definition ignore_syntax := E "IgnoreSyntax" [(1, "mutagen", 2); (2, "docker", 2)].
Definition ignore_vcs_mode :=
  {| ename := "IgnoreVCSMode"; rows := [(1, "true", 2); (2, "false", 2)]; json_style := true |}.
Definition permissions_mode := E "PermissionsMode" [(1, "portable", 2); (2, "manual", 2)].
Definition compression_algorithm := E "CompressionAlgorithm"
  [(1, "none", 2); (2, "deflate", 2); (3, "zstandard", 0)].   (* Zstandard: SSPL builds only *)

Definition all_enums : list enum :=
  [synchronization_mode; hashing_algorithm; probe_mode; scan_mode; stage_mode;
   symbolic_link_mode; watch_mode; ignore_syntax; ignore_vcs_mode; permissions_mode;
   compression_algorithm].

Fixpoint row_of (v : N) (r : list (N * string * N)) : option (string * N) :=
  match r with
  | [] => None
  | (w, t, s) :: rest => if N.eqb w v then Some (t, s) else row_of v rest
  end.

Fixpoint value_of (t : string) (r : list (N * string * N)) : option N :=
  match r with
  | [] => None
  | (w, u, _) :: rest => if String.eqb u t then Some w else value_of t rest
  end.

(* IsDefault *)
Definition is_default (v : N) : bool := N.eqb v 0.

(* SupportStatus (0 for every value not listed, including the default) *)
Definition support_status (e : enum) (v : N) : N :=
  match row_of v (rows e) with Some (_, s) => s | None => 0 end.

(* Supported *)
Definition supported (e : enum) (v : N) : bool := N.eqb (support_status e v) 2.

(* MarshalText (MarshalJSON for the VCS mode); None = returns an error *)
Definition marshal (e : enum) (v : N) : option string :=
  match row_of v (rows e) with
  | Some (t, _) => Some t
  | None => if json_style e then None
            else if is_default v then Some "" else Some "unknown"
  end.

(* UnmarshalText; None = returns an error *)
Definition unmarshal (e : enum) (t : string) : option N := value_of t (rows e).

(* ------------------------------------------------------------------ file modes *)

Definition mode_permissions_mask : N := 511.   (* filesystem.ModePermissionsMask = 0777 *)
Definition mode_exec_bits : N := 73.           (* 0100 | 0010 | 0001 *)
Definition perm_portable : N := 1.             (* PermissionsMode_PermissionsModePortable *)
Definition perm_manual : N := 2.

(* Version.DefaultPermissionsMode() of DefaultVersion *)
Definition default_version_permissions_mode : N := perm_portable.

(* core.anyExecutableBitSet *)
Definition any_exec_bit (m : N) : bool := negb (N.eqb (N.land m mode_exec_bits) 0).

(* Error identities (which return statement fired); 0 = nil error. *)
Definition ok : N := 0.

(* core.EnsureDefaultFileModeValid: 21 zero, 22 non-permission bits, 23 executability bits *)
Definition ensure_file_mode_valid (pm m : N) : N :=
  if N.eqb m 0 then 21
  else if negb (N.eqb (N.land m mode_permissions_mask) m) then 22
  else if N.eqb pm perm_portable && any_exec_bit m then 23
  else ok.

(* core.EnsureDefaultDirectoryModeValid: 24 zero, 25 non-permission bits *)
Definition ensure_dir_mode_valid (pm m : N) : N :=
  if N.eqb m 0 then 24
  else if negb (N.eqb (N.land m mode_permissions_mask) m) then 25
  else ok.

(* ------------------------------------------------------------------ ownership *)

Definition is_digit (c : ascii) : bool :=
  let n := N_of_ascii c in (48 <=? n) && (n <=? 57).
Definition is_digit19 (c : ascii) : bool :=
  let n := N_of_ascii c in (49 <=? n) && (n <=? 57).

Fixpoint all_chars (p : ascii -> bool) (s : string) : bool :=
  match s with
  | EmptyString => true
  | String c r => p c && all_chars p r
  end.

(* filesystem.isValidPOSIXID *)
Definition is_valid_posix_id (s : string) : bool :=
  match s with
  | EmptyString => false
  | String c r => String.eqb s "0" || (is_digit19 c && all_chars is_digit r)
  end.

(* strings.HasPrefix(s, p) and the remainder s[len(p):] *)
Fixpoint strip_prefix (p s : string) : option string :=
  match p with
  | EmptyString => Some s
  | String a p' => match s with
                   | EmptyString => None
                   | String b s' => if Ascii.eqb a b then strip_prefix p' s' else None
                   end
  end.

(* filesystem.ParseOwnershipIdentifier(spec) != OwnershipIdentifierKindInvalid *)
Definition ownership_syntax_ok (s : string) : bool :=
  match s with
  | EmptyString => false
  | _ => match strip_prefix "id:" s with
         | Some v => is_valid_posix_id v
         | None => match strip_prefix "sid:" s with
                   | Some v => negb (String.eqb v "")
                   | None => true
                   end
         end
  end.

(* ------------------------------------------------------------------ configuration *)

Record config := {
  c_sync_mode : N;
  c_hashing : N;
  c_max_entry_count : N;
  c_max_staging_file_size : N;
  c_probe_mode : N;
  c_scan_mode : N;
  c_stage_mode : N;
  c_symlink_mode : N;
  c_watch_mode : N;
  c_watch_polling_interval : N;
  c_ignore_syntax : N;
  c_default_ignores : list string;
  c_ignores : list string;
  c_ignore_vcs_mode : N;
  c_permissions_mode : N;
  c_default_file_mode : N;
  c_default_directory_mode : N;
  c_default_owner : string;
  c_default_group : string;
  c_compression : N
}.

Definition empty_config : config :=
  {| c_sync_mode := 0; c_hashing := 0; c_max_entry_count := 0; c_max_staging_file_size := 0;
     c_probe_mode := 0; c_scan_mode := 0; c_stage_mode := 0; c_symlink_mode := 0;
     c_watch_mode := 0; c_watch_polling_interval := 0; c_ignore_syntax := 0;
     c_default_ignores := []; c_ignores := []; c_ignore_vcs_mode := 0;
     c_permissions_mode := 0; c_default_file_mode := 0; c_default_directory_mode := 0;
     c_default_owner := ""; c_default_group := ""; c_compression := 0 |}.

Definition nonempty {A} (l : list A) : bool := match l with [] => false | _ => true end.

(* The effective permissions mode Configuration.EnsureValid validates file and
   directory modes against. AS THE CODE IS: for an endpoint-specific
   configuration the variable keeps its zero value (PermissionsModeDefault). *)
Definition validation_permissions_mode (endpoint_specific : bool) (c : config) : N :=
  if endpoint_specific then 0
  else if is_default (c_permissions_mode c) then default_version_permissions_mode
  else c_permissions_mode c.

(* Configuration.EnsureValid(endpointSpecific), check by check in source
   order; the result names the return statement taken (0 = nil):
    2/3 synchronization mode (endpoint-specific / unsupported), 4/5/6 hashing
    (endpoint-specific / unsupported / licence), 7 probe, 8 scan, 9 stage,
    10/11 symbolic link mode, 12 watch, 13/14 ignore syntax, 15 default ignores,
    16 ignores, 17/18 VCS mode, 19/20 permissions mode, 21-23 file mode,
    24-25 directory mode, 26 owner, 27 group, 28/29 compression. *)
Definition default_or_supported (e : enum) (v : N) : bool := is_default v || supported e v.

Definition ensure_valid (endpoint_specific : bool) (c : config) : N :=
  if endpoint_specific && negb (is_default (c_sync_mode c)) then 2
  else if negb endpoint_specific && negb (default_or_supported synchronization_mode (c_sync_mode c)) then 3
  else if endpoint_specific && negb (is_default (c_hashing c)) then 4
  else if negb endpoint_specific && negb (is_default (c_hashing c))
          && N.eqb (support_status hashing_algorithm (c_hashing c)) 0 then 5
  else if negb endpoint_specific && negb (is_default (c_hashing c))
          && N.eqb (support_status hashing_algorithm (c_hashing c)) 1 then 6
  else if negb (default_or_supported probe_mode (c_probe_mode c)) then 7
  else if negb (default_or_supported scan_mode (c_scan_mode c)) then 8
  else if negb (default_or_supported stage_mode (c_stage_mode c)) then 9
  else if endpoint_specific && negb (is_default (c_symlink_mode c)) then 10
  else if negb endpoint_specific && negb (default_or_supported symbolic_link_mode (c_symlink_mode c)) then 11
  else if negb (default_or_supported watch_mode (c_watch_mode c)) then 12
  else if endpoint_specific && negb (is_default (c_ignore_syntax c)) then 13
  else if negb endpoint_specific && negb (default_or_supported ignore_syntax (c_ignore_syntax c)) then 14
  else if endpoint_specific && nonempty (c_default_ignores c) then 15
  else if endpoint_specific && nonempty (c_ignores c) then 16
  else if endpoint_specific && negb (is_default (c_ignore_vcs_mode c)) then 17
  else if negb endpoint_specific && negb (default_or_supported ignore_vcs_mode (c_ignore_vcs_mode c)) then 18
  else if endpoint_specific && negb (is_default (c_permissions_mode c)) then 19
  else if negb endpoint_specific && negb (default_or_supported permissions_mode (c_permissions_mode c)) then 20
  else
    let pm := validation_permissions_mode endpoint_specific c in
    let fm := if N.eqb (c_default_file_mode c) 0 then ok
              else ensure_file_mode_valid pm (c_default_file_mode c) in
    if negb (N.eqb fm ok) then fm
    else
    let dm := if N.eqb (c_default_directory_mode c) 0 then ok
              else ensure_dir_mode_valid pm (c_default_directory_mode c) in
    if negb (N.eqb dm ok) then dm
    else if negb (String.eqb (c_default_owner c) "") && negb (ownership_syntax_ok (c_default_owner c)) then 26
    else if negb (String.eqb (c_default_group c) "") && negb (ownership_syntax_ok (c_default_group c)) then 27
    else if negb (is_default (c_compression c))
            && N.eqb (support_status compression_algorithm (c_compression c)) 0 then 28
    else if negb (is_default (c_compression c))
            && N.eqb (support_status compression_algorithm (c_compression c)) 1 then 29
    else ok.

Definition valid (endpoint_specific : bool) (c : config) : bool :=
  N.eqb (ensure_valid endpoint_specific c) ok.

(* MergeConfigurations(lower, higher) *)
Definition pickN (lo hi : N) : N := if negb (N.eqb hi 0) then hi else lo.
Definition pickS (lo hi : string) : string := if negb (String.eqb hi "") then hi else lo.

Definition merge (lo hi : config) : config :=
  {| c_sync_mode := pickN (c_sync_mode lo) (c_sync_mode hi);
     c_hashing := pickN (c_hashing lo) (c_hashing hi);
     c_max_entry_count := pickN (c_max_entry_count lo) (c_max_entry_count hi);
     c_max_staging_file_size := pickN (c_max_staging_file_size lo) (c_max_staging_file_size hi);
     c_probe_mode := pickN (c_probe_mode lo) (c_probe_mode hi);
     c_scan_mode := pickN (c_scan_mode lo) (c_scan_mode hi);
     c_stage_mode := pickN (c_stage_mode lo) (c_stage_mode hi);
     c_symlink_mode := pickN (c_symlink_mode lo) (c_symlink_mode hi);
     c_watch_mode := pickN (c_watch_mode lo) (c_watch_mode hi);
     c_watch_polling_interval := pickN (c_watch_polling_interval lo) (c_watch_polling_interval hi);
     c_ignore_syntax := pickN (c_ignore_syntax lo) (c_ignore_syntax hi);
     c_default_ignores := c_default_ignores lo ++ c_default_ignores hi;
     c_ignores := c_ignores lo ++ c_ignores hi;
     c_ignore_vcs_mode := pickN (c_ignore_vcs_mode lo) (c_ignore_vcs_mode hi);
     c_permissions_mode := pickN (c_permissions_mode lo) (c_permissions_mode hi);
     c_default_file_mode := pickN (c_default_file_mode lo) (c_default_file_mode hi);
     c_default_directory_mode := pickN (c_default_directory_mode lo) (c_default_directory_mode hi);
     c_default_owner := pickS (c_default_owner lo) (c_default_owner hi);
     c_default_group := pickS (c_default_group lo) (c_default_group hi);
     c_compression := pickN (c_compression lo) (c_compression hi) |}.

(* ------------------------------------------------------------------ creation *)

(* What session creation checks about the three configurations:
   CreationSpecification.ensureValid (service layer, before Manager.Create),
   and identically Session.EnsureValid when a session is loaded:
     Configuration.EnsureValid(false), ConfigurationAlpha.EnsureValid(true),
     ConfigurationBeta.EnsureValid(true).
   [fixed = false] is exactly that (the code as it is). [fixed = true] adds the
   proposed repair: the two merged per-endpoint configurations are validated
   too, the way an endpoint will validate them. The result is 0 or
   100*k + code with k = 1 session, 2 alpha, 3 beta, 4 merged alpha,
   5 merged beta. *)
Definition tagged (k code : N) : N := if N.eqb code ok then ok else 100 * k + code.

Definition creation_check (fixed : bool) (c a b : config) : N :=
  if negb (N.eqb (ensure_valid false c) ok) then tagged 1 (ensure_valid false c)
  else if negb (N.eqb (ensure_valid true a) ok) then tagged 2 (ensure_valid true a)
  else if negb (N.eqb (ensure_valid true b) ok) then tagged 3 (ensure_valid true b)
  else if fixed && negb (N.eqb (ensure_valid false (merge c a)) ok) then tagged 4 (ensure_valid false (merge c a))
  else if fixed && negb (N.eqb (ensure_valid false (merge c b)) ok) then tagged 5 (ensure_valid false (merge c b))
  else ok.

Definition creation_accepts (fixed : bool) (c a b : config) : bool :=
  N.eqb (creation_check fixed c a b) ok.

(* ------------------------------------------------------------------ endpoints *)

(* remote endpoint: InitializeSynchronizationRequest.ensureValid validates the
   merged configuration it received with Configuration.EnsureValid(false)
   (session identifier, version and root are not configuration) *)
Definition remote_request_check (m : config) : N := ensure_valid false m.

(* local.NewEndpoint validates nothing, but its dispatch on the effective
   hashing algorithm (Factory), watch mode, ignore syntax and staging mode
   panics on a value it does not handle *)
Definition local_handles (m : config) : bool :=
  default_or_supported hashing_algorithm (c_hashing m)
  && default_or_supported watch_mode (c_watch_mode m)
  && default_or_supported ignore_syntax (c_ignore_syntax m)
  && default_or_supported stage_mode (c_stage_mode m).

(* the configuration-level checks of endpoint initialization: a remote endpoint
   validates the request and then creates a local endpoint; a local endpoint is
   created directly *)
Definition endpoint_accepts (m : config) : bool :=
  N.eqb (remote_request_check m) ok && local_handles m.

(* the modes an endpoint actually runs with (local.NewEndpoint) *)
Definition effective_permissions_mode (m : config) : N :=
  if is_default (c_permissions_mode m) then default_version_permissions_mode else c_permissions_mode m.
Definition default_file_mode_v1 : N := 384.   (* Version1.DefaultFileMode() = 0600 *)
Definition effective_file_mode (m : config) : N :=
  if N.eqb (c_default_file_mode m) 0 then default_file_mode_v1 else c_default_file_mode m.

(* "the default file mode has no executable bits when executability is
   propagated portably" *)
Definition portable_no_exec (m : config) : bool :=
  negb (N.eqb (effective_permissions_mode m) perm_portable && any_exec_bit (effective_file_mode m)).

(* ------------------------------------------------------------------ checker *)

(* What the harness observed for one endpoint of a created session. *)
Record endpoint_obs := {
  o_merged : config;        (* MergeConfigurations(session, endpoint-specific) from the real code *)
  o_remote : N;             (* InitializeSynchronizationRequest.ensureValid: 0 or error identity *)
  o_local : N;              (* local.NewEndpoint: 0 ok, 1 error, 2 panic *)
  o_perm : N;               (* the local endpoint's effective permissions mode (if created) *)
  o_file_mode : N           (* the local endpoint's effective default file mode (if created) *)
}.

Definition endpoint_ok (o : endpoint_obs) : bool :=
  N.eqb (o_remote o) ok && N.eqb (o_local o) ok
  && negb (N.eqb (o_perm o) perm_portable && any_exec_bit (o_file_mode o)).

(* check_C37: applied to what the implementation did with (c, a, b):
   [created] = the real creation path accepted it (and the session survived a
   reload); the observations are those of the real endpoints' checks on the
   real merged configurations. Demands: the merged configurations are the
   field-by-field override / concatenation of the inputs, and - only of
   accepted combinations - that each endpoint accepts its configuration and
   does not run with executable default file bits under portable permissions. *)
Definition config_eqb (x y : config) : bool :=
  N.eqb (c_sync_mode x) (c_sync_mode y) && N.eqb (c_hashing x) (c_hashing y)
  && N.eqb (c_max_entry_count x) (c_max_entry_count y)
  && N.eqb (c_max_staging_file_size x) (c_max_staging_file_size y)
  && N.eqb (c_probe_mode x) (c_probe_mode y) && N.eqb (c_scan_mode x) (c_scan_mode y)
  && N.eqb (c_stage_mode x) (c_stage_mode y) && N.eqb (c_symlink_mode x) (c_symlink_mode y)
  && N.eqb (c_watch_mode x) (c_watch_mode y)
  && N.eqb (c_watch_polling_interval x) (c_watch_polling_interval y)
  && N.eqb (c_ignore_syntax x) (c_ignore_syntax y)
  && (if list_eq_dec string_dec (c_default_ignores x) (c_default_ignores y) then true else false)
  && (if list_eq_dec string_dec (c_ignores x) (c_ignores y) then true else false)
  && N.eqb (c_ignore_vcs_mode x) (c_ignore_vcs_mode y)
  && N.eqb (c_permissions_mode x) (c_permissions_mode y)
  && N.eqb (c_default_file_mode x) (c_default_file_mode y)
  && N.eqb (c_default_directory_mode x) (c_default_directory_mode y)
  && String.eqb (c_default_owner x) (c_default_owner y)
  && String.eqb (c_default_group x) (c_default_group y)
  && N.eqb (c_compression x) (c_compression y).

Definition check_C37 (c a b : config) (created : bool) (oa ob : endpoint_obs) : bool :=
  config_eqb (o_merged oa) (merge c a) && config_eqb (o_merged ob) (merge c b)
  && (if created then endpoint_ok oa && endpoint_ok ob else true).

(* what the model itself predicts an endpoint observes *)
Definition model_obs (m : config) : endpoint_obs :=
  {| o_merged := m; o_remote := remote_request_check m;
     o_local := if local_handles m then 0 else 2;
     o_perm := effective_permissions_mode m; o_file_mode := effective_file_mode m |}.
