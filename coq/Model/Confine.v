(* Model for C17 (synchronization never reaches outside the root through
   in-root symbolic links).  Definitions only, no proofs.

   Code modelled (Linux/POSIX paths):
     pkg/filesystem/directory_posix.go   ensureValidName, Directory.*
     pkg/filesystem/open_posix.go        Open / OpenDirectory / OpenFile
     pkg/filesystem/open.go              Opener.OpenFile (handle stack)
     pkg/synchronization/core/transition.go
                                         walkToParentAndComputeLeafName and every
                                         filesystem access of remove / create /
                                         swap / findAndMoveStagedFileIntoPlace
     pkg/synchronization/core/scan.go    Scan: root open, directory recursion
     pkg/synchronization/endpoint/local/staging/store  (paths only)
     pkg/synchronization/endpoint/local  stageFromRoot, Supply
     pkg/synchronization/rsync/transmit.go  Transmit (the supply side)

   An operation is a PROGRAM: a tree whose nodes are the path-taking
   primitives it issues (one system call each) and whose branches are indexed
   by the answer of the outside world.  Descriptor-only calls (fstat, fchmod,
   read, write, close) take no path and are not nodes.  A decision of the code
   that depends on data the model does not carry (cache comparison, ignore
   rules, digest lookups) is a PChoice node answered by a boolean.  A handle is
   named by how it was obtained: HRoot (the root opened by path with
   O_NOFOLLOW), HRootParent (the root's parent directory opened by path,
   links allowed: the documented exception), HChild h n (openat on handle h,
   single name n, O_NOFOLLOW).  The theorems quantify over every answer
   function, i.e. over every filesystem, hostile ones included. *)
From Coq Require Import List Arith String Ascii Bool.
Import ListNotations.

Local Open Scope string_scope.

(* ------------------------------------------------------------------ names *)

Definition slash : ascii := "/"%char.

Fixpoint has_slash (s : string) : bool :=
  match s with
  | EmptyString => false
  | String c r => Ascii.eqb c slash || has_slash r
  end.

(* ensureValidName (directory_posix.go): not ".", not "..", no separator.
   (The empty name passes; the kernel answers ENOENT for it.) *)
Definition valid_name (n : string) : bool :=
  negb (n =? ".") && negb (n =? "..") && negb (has_slash n).

(* strings.Split(path, "/") *)
Fixpoint split_aux (s : string) (cur : string) : list string :=
  match s with
  | EmptyString => [cur]
  | String c r =>
    if Ascii.eqb c slash then cur :: split_aux r EmptyString
    else split_aux r (cur ++ String c EmptyString)
  end.
Definition split_slash (s : string) : list string := split_aux s EmptyString.

Fixpoint strip_prefix (a p : string) : option string :=
  match a with
  | EmptyString => Some p
  | String c a' =>
    match p with
    | String d p' => if Ascii.eqb c d then strip_prefix a' p' else None
    | EmptyString => None
    end
  end.

(* filepath.Split: everything up to and including the last separator, and
   the rest *)
Fixpoint path_split_aux (s : string) (dir cur : string) : string * string :=
  match s with
  | EmptyString => (dir, cur)
  | String c r =>
    if Ascii.eqb c slash
    then path_split_aux r (dir ++ cur ++ String c EmptyString) EmptyString
    else path_split_aux r dir (cur ++ String c EmptyString)
  end.
Definition path_split (s : string) : string * string :=
  path_split_aux s EmptyString EmptyString.

(* ------------------------------------------------- handles and primitives *)

Inductive handle :=
| HRoot
| HRootParent
| HChild (h : handle) (n : string).

Inductive kind := KDir | KFile | KLink | KOther.

Inductive answer :=
| AOk
| AFail
| AExist                    (* EEXIST *)
| AXdev                     (* EXDEV *)
| AUnsup                    (* ENOTSUP / ENOSYS *)
| ANames (l : list string)  (* directory listing *)
| AKind (k : kind)          (* fstatat *)
| ATarget (t : string)      (* readlinkat *)
| ABool (b : bool).         (* answer to a PChoice *)

Inductive prim :=
(* relative to a directory handle, one name *)
| POpenAt (h : handle) (n : string) (dir : bool)    (* openat O_RDONLY|O_NOFOLLOW[|O_DIRECTORY] *)
| PCreateAt (h : handle) (n : string)               (* openat O_RDWR|O_CREAT|O_EXCL *)
| PStatAt (h : handle) (n : string)                 (* fstatat AT_SYMLINK_NOFOLLOW *)
| PReadlinkAt (h : handle) (n : string)
| PMkdirAt (h : handle) (n : string)
| PSymlinkAt (h : handle) (n : string)
| PUnlinkAt (h : handle) (n : string) (dir : bool)  (* unlinkat [AT_REMOVEDIR] *)
| PChownAt (h : handle) (n : string)                (* fchownat AT_SYMLINK_NOFOLLOW *)
| PRenameAt (h1 : handle) (n1 : string) (h2 : handle) (n2 : string) (noreplace : bool)
| PListDir (h : handle)                             (* getdents on the handle *)
(* by absolute path *)
| PAbsOpen (p : string) (follow : bool)             (* Open(path, allowSymbolicLinkLeaf) *)
| PAbsChown (p : string)
| PAbsChmod (p : string)
| PAbsRenameAt (p : string) (h : handle) (n : string) (noreplace : bool)
| PAbsRead (p : string)                             (* os.Open *)
| PAbsRemove (p : string)                           (* os.Remove *)
| PAbsLstat (p : string)
| PAbsMkdir (p : string)
| PAbsCreateTemp (p : string)                       (* os.CreateTemp: openat O_CREAT|O_EXCL *)
| PAbsRename (p q : string)
(* a data-dependent decision of the code; no system call *)
| PChoice (what : string)
(* never issued by the model: a system call of the implementation that the
   harness could not map to one of the above *)
| PForeign (what : string).

Inductive prog (A : Type) :=
| Ret (a : A)
| Do (p : prim) (k : answer -> prog A).
Arguments Ret {A} a.
Arguments Do {A} p k.

Fixpoint bind {A B : Type} (m : prog A) (f : A -> prog B) : prog B :=
  match m with
  | Ret a => f a
  | Do p k => Do p (fun x => bind (k x) f)
  end.

Inductive res (A : Type) := OkR (a : A) | ErrR.
Arguments OkR {A} a.
Arguments ErrR {A}.

Definition choice (what : string) : prog bool :=
  Do (PChoice what) (fun a => match a with ABool b => Ret b | _ => Ret false end).

Definition ok_or_err (a : answer) : prog (res unit) :=
  match a with AOk => Ret (OkR tt) | _ => Ret ErrR end.

(* running a program against a world: the trace of primitives with answers *)
Fixpoint run {A : Type} (w : nat -> prim -> answer) (i : nat) (m : prog A)
  : list (prim * answer) * A :=
  match m with
  | Ret a => ([], a)
  | Do p k =>
    let a := w i p in
    let '(t, r) := run w (S i) (k a) in ((p, a) :: t, r)
  end.

(* the result of a program in a world whose answers depend on the primitive
   only (a filesystem nobody else modifies and that the program only reads) *)
Fixpoint exec {A : Type} (w : prim -> answer) (m : prog A) : A :=
  match m with
  | Ret a => a
  | Do p k => exec w (k (w p))
  end.

(* ------------------------------------------ Directory (directory_posix.go) *)

(* Directory.open *)
Definition dir_open_directory (h : handle) (n : string) : prog (res handle) :=
  if (n =? ".") || valid_name n then
    Do (POpenAt h n true)
       (fun a => match a with AOk => Ret (OkR (HChild h n)) | _ => Ret ErrR end)
  else Ret ErrR.

Definition dir_open_file (h : handle) (n : string) : prog (res unit) :=
  if valid_name n then Do (POpenAt h n false) ok_or_err else Ret ErrR.

Definition dir_create_directory (h : handle) (n : string) : prog (res unit) :=
  if valid_name n then Do (PMkdirAt h n) ok_or_err else Ret ErrR.

Definition dir_create_symbolic_link (h : handle) (n : string) : prog (res unit) :=
  if valid_name n then Do (PSymlinkAt h n) ok_or_err else Ret ErrR.

(* Directory.SetPermissions: fchownat(AT_SYMLINK_NOFOLLOW), then (Linux)
   openat(O_NOFOLLOW) + fchmod on the descriptor *)
Definition dir_set_permissions (h : handle) (n : string) (ownership : bool) (mode_nonzero : bool)
  : prog (res unit) :=
  if valid_name n then
    bind (if ownership then Do (PChownAt h n) ok_or_err else Ret (OkR tt))
         (fun r => match r with
                   | ErrR => Ret ErrR
                   | OkR _ => if mode_nonzero then Do (POpenAt h n false) ok_or_err
                              else Ret (OkR tt)
                   end)
  else Ret ErrR.

Definition dir_read_content_names (h : handle) : prog (res (list string)) :=
  Do (PListDir h)
     (fun a => match a with
               | ANames l => Ret (OkR (filter (fun n => negb (n =? ".") && negb (n =? "..")) l))
               | _ => Ret ErrR
               end).

(* Directory.ReadContentMetadata (validates) / readContentMetadata (does not) *)
Definition dir_read_content_metadata_raw (h : handle) (n : string) : prog (res kind) :=
  Do (PStatAt h n) (fun a => match a with AKind k => Ret (OkR k) | _ => Ret ErrR end).

Definition dir_read_content_metadata (h : handle) (n : string) : prog (res kind) :=
  if valid_name n then dir_read_content_metadata_raw h n else Ret ErrR.

(* Directory.ReadContents: names, then metadata of each; a name that vanished
   (an error the code takes for "not exist") is skipped, any other error
   aborts; which of the two it was is a choice *)
Fixpoint read_contents_loop (h : handle) (names : list string) : prog (res (list (string * kind))) :=
  match names with
  | [] => Ret (OkR [])
  | n :: rest =>
    bind (dir_read_content_metadata_raw h n)
         (fun r => match r with
                   | OkR k =>
                     bind (read_contents_loop h rest)
                          (fun r' => match r' with
                                     | OkR l => Ret (OkR ((n, k) :: l))
                                     | ErrR => Ret ErrR
                                     end)
                   | ErrR =>
                     bind (choice "stat-error-is-not-exist")
                          (fun b => if b then read_contents_loop h rest else Ret ErrR)
                   end)
  end.

Definition dir_read_contents (h : handle) : prog (res (list (string * kind))) :=
  bind (dir_read_content_names h)
       (fun r => match r with OkR names => read_contents_loop h names | ErrR => Ret ErrR end).

Definition dir_read_symbolic_link (h : handle) (n : string) : prog (res string) :=
  if valid_name n then
    Do (PReadlinkAt h n) (fun a => match a with ATarget t => Ret (OkR t) | _ => Ret ErrR end)
  else Ret ErrR.

Definition dir_remove_directory (h : handle) (n : string) : prog (res unit) :=
  if valid_name n then Do (PUnlinkAt h n true) ok_or_err else Ret ErrR.

Definition dir_remove_file (h : handle) (n : string) : prog (res unit) :=
  if valid_name n then Do (PUnlinkAt h n false) ok_or_err else Ret ErrR.

(* Directory.CreateTemporaryFile(pattern): the name is prefix ++ decimal
   random ++ suffix; retried on EEXIST with the next random value *)
Definition digit_char (d : nat) : ascii :=
  nth (d mod 10) ["0"; "1"; "2"; "3"; "4"; "5"; "6"; "7"; "8"; "9"]%char "0"%char.

Fixpoint digits_string (ds : list nat) : string :=
  match ds with
  | [] => EmptyString
  | d :: t => String (digit_char d) (digits_string t)
  end.

(* strings.LastIndex(pattern, "*"): prefix and suffix around the last star *)
Fixpoint star_split_aux (s : string) (pre cur : string) (seen : bool) : string * string :=
  match s with
  | EmptyString => if seen then (pre, cur) else (cur, EmptyString)
  | String c r =>
    if Ascii.eqb c "*"%char
    then star_split_aux r (if seen then pre ++ "*" ++ cur else cur) EmptyString true
    else star_split_aux r pre (cur ++ String c EmptyString) seen
  end.
Definition star_split (pattern : string) : string * string :=
  star_split_aux pattern EmptyString EmptyString false.

Fixpoint dir_create_temporary_file (h : handle) (pattern : string) (rnds : list (list nat))
  : prog (res string) :=
  if valid_name pattern then
    match rnds with
    | [] => Ret ErrR      (* "exhausted potential file names" *)
    | r :: rest =>
      let '(pre, suf) := star_split pattern in
      let name := pre ++ digits_string r ++ suf in
      Do (PCreateAt h name)
         (fun a => match a with
                   | AOk => Ret (OkR name)
                   | AExist => dir_create_temporary_file h pattern rest
                   | _ => Ret ErrR
                   end)
    end
  else Ret ErrR.

(* filesystem.Rename(sourceDirectory, name, targetDirectory, name, replace)
   with both directories given; the non-replacing variant falls back to
   probe + plain rename when renameat2 is unsupported *)
Definition dir_rename (h1 : handle) (n1 : string) (h2 : handle) (n2 : string) (replace : bool)
  : prog (res unit) :=
  if valid_name n1 && valid_name n2 then
    if replace then Do (PRenameAt h1 n1 h2 n2 false) ok_or_err
    else Do (PRenameAt h1 n1 h2 n2 true)
            (fun a => match a with
                      | AOk => Ret (OkR tt)
                      | AUnsup =>
                        bind (dir_read_content_metadata h2 n2)
                             (fun r => match r with
                                       | OkR _ => Ret ErrR            (* exists *)
                                       | ErrR =>
                                         bind (choice "probe-error-is-not-exist")
                                              (fun b => if b then Do (PRenameAt h1 n1 h2 n2 false) ok_or_err
                                                        else Ret ErrR)
                                       end)
                      | _ => Ret ErrR
                      end)
  else Ret ErrR.

(* ... with the source given by absolute path (a staged file) *)
Definition abs_rename_into (p : string) (h : handle) (n : string) (replace : bool)
  : prog answer :=
  if valid_name n then
    if replace then Do (PAbsRenameAt p h n false) (fun a => Ret a)
    else Do (PAbsRenameAt p h n true)
            (fun a => match a with
                      | AUnsup =>
                        bind (dir_read_content_metadata h n)
                             (fun r => match r with
                                       | OkR _ => Ret AExist
                                       | ErrR =>
                                         bind (choice "probe-error-is-not-exist")
                                              (fun b => if b then Do (PAbsRenameAt p h n false) (fun a' => Ret a')
                                                        else Ret AFail)
                                       end)
                      | _ => Ret a
                      end)
  else Ret AFail.

(* transition.go: crossDeviceRenameTemporaryNamePrefix *)
Definition cross_device_pattern : string := ".mutagen-temporary-cross-device-rename".

(* ------------------------------------------------- the root and the staging directory *)
Section Ops.
(* the synchronization root (absolute, cleaned) and the staging directory *)
Variable root : string.
Variable staging : string.
(* whether an ownership specification is configured (chown calls are issued) *)
Variable ownership : bool.

Definition root_parent_path : string := fst (path_split root).
Definition root_base : string := snd (path_split root).

(* ------------------- walkToParentAndComputeLeafName (core/transition.go) *)

(* nameExistsInDirectoryWithProperCase (without Unicode recomposition) *)
Definition name_exists (h : handle) (n : string) : prog (res bool) :=
  bind (dir_read_content_names h)
       (fun r => match r with
                 | OkR names => Ret (OkR (existsb (String.eqb n) names))
                 | ErrR => Ret ErrR
                 end).

Fixpoint walk_loop (h : handle) (parents : list string) : prog (res handle) :=
  match parents with
  | [] => Ret (OkR h)
  | c :: rest =>
    bind (name_exists h c)
         (fun r => match r with
                   | OkR true =>
                     bind (dir_open_directory h c)
                          (fun r' => match r' with
                                     | OkR h' => walk_loop h' rest
                                     | ErrR => Ret ErrR
                                     end)
                   | _ => Ret ErrR
                   end)
  end.

Definition walk_to_parent (path : string) (validate_leaf : bool) : prog (res (handle * string)) :=
  if path =? "" then
    if root_base =? "" then Ret ErrR
    else Do (PAbsOpen root_parent_path true)
            (fun a => match a with AOk => Ret (OkR (HRootParent, root_base)) | _ => Ret ErrR end)
  else
    let comps := split_slash path in
    let parents := removelast comps in
    let leaf := last comps "" in
    Do (PAbsOpen root false)
       (fun a => match a with
                 | AOk =>
                   bind (walk_loop HRoot parents)
                        (fun r => match r with
                                  | ErrR => Ret ErrR
                                  | OkR h =>
                                    if validate_leaf then
                                      bind (name_exists h leaf)
                                           (fun e => match e with
                                                     | OkR true => Ret (OkR (h, leaf))
                                                     | _ => Ret ErrR
                                                     end)
                                    else Ret (OkR (h, leaf))
                                  end)
                 | _ => Ret ErrR
                 end).

(* ----------------------------------------- Opener.OpenFile (filesystem/open.go) *)

Record opener := { o_root_open : bool; o_names : list string; o_dirs : list handle }.
Definition new_opener : opener := {| o_root_open := false; o_names := []; o_dirs := [] |}.

(* the parent-component loop: cn/cd are the cached stack entries aligned with
   the remaining components, an/ad the entries before them *)
Fixpoint opener_walk (parent : handle) (comps : list string)
         (cn : list string) (cd : list handle) (an : list string) (ad : list handle)
  : prog (res handle * list string * list handle) :=
  match comps with
  | [] => Ret (OkR parent, (an ++ cn)%list, (ad ++ cd)%list)
  | c :: rest =>
    let fresh :=
        bind (dir_open_directory parent c)
             (fun r => match r with
                       | OkR h' => opener_walk h' rest [] [] (an ++ [c])%list (ad ++ [h'])%list
                       | ErrR => Ret (ErrR, an, ad)
                       end) in
    match cn, cd with
    | n :: cn', d :: cd' =>
      if n =? c then opener_walk d rest cn' cd' (an ++ [n])%list (ad ++ [d])%list
      else fresh              (* stacks truncated here (closes: descriptor calls) *)
    | _, _ => fresh
    end
  end.

Definition opener_open_file (o : opener) (path : string) : prog (opener * res unit) :=
  if path =? "" then
    if o_root_open o then Ret (o, ErrR)
    else Do (PAbsOpen root false) (fun a => match a with AOk => Ret (o, OkR tt) | _ => Ret (o, ErrR) end)
  else
    let comps := split_slash path in
    let parents := removelast comps in
    let leaf := last comps "" in
    let go (o' : opener) :=
        bind (opener_walk HRoot parents (o_names o') (o_dirs o') [] [])
             (fun x => let '(r, ns, ds) := x in
                       let o'' := {| o_root_open := true; o_names := ns; o_dirs := ds |} in
                       match r with
                       | ErrR => Ret (o'', ErrR)
                       | OkR parent => bind (dir_open_file parent leaf) (fun r' => Ret (o'', r'))
                       end) in
    if o_root_open o then go o
    else Do (PAbsOpen root false)
            (fun a => match a with
                      | AOk => go {| o_root_open := true; o_names := o_names o; o_dirs := o_dirs o |}
                      | _ => Ret (o, ErrR)
                      end).

Fixpoint opener_open_files (o : opener) (paths : list string) : prog (list bool) :=
  match paths with
  | [] => Ret []
  | p :: rest =>
    bind (opener_open_file o p)
         (fun x => let '(o', r) := x in
                   bind (opener_open_files o' rest)
                        (fun l => Ret ((match r with OkR _ => true | ErrR => false end) :: l)))
  end.

(* rsync.Transmit (pkg/synchronization/rsync/transmit.go), the supply side:
   one Opener for the whole request; for each requested path exactly one
   Opener.OpenFile; if it fails an error transmission is sent and NOTHING else
   is opened for that path; if it succeeds the file is read through its
   descriptor (deltification) and closed. The result says, per path, whether
   data was supplied. (Endpoint.Supply is Transmit on the endpoint's root.) *)
Definition transmit (paths : list string) : prog (list bool) :=
  opener_open_files new_opener paths.

(* ------------------------------------------------------------ staging store *)

(* Store.target: filepath.Join(root, prefix, storageName) with
   prefix = first two characters of hex(digest), storageName = hex(digest) ++
   hex(xxh3(path)). [dhex], [phex] are those hexadecimal strings. *)
Definition staged_path (dhex phex : string) : string :=
  staging ++ "/" ++ substring 0 2 dhex ++ "/" ++ dhex ++ phex.
Definition staged_prefix_dir (dhex : string) : string :=
  staging ++ "/" ++ substring 0 2 dhex.

(* Stager.Sink + Sink.Close (Store.Allocate, Storage.Commit): the temporary
   storage file, the prefix directory, the rename into place; then
   Store.Contains *)
Definition stage_commit (rnd : list nat) (dhex phex : string) : prog (res unit) :=
  let storage := staging ++ "/storage" ++ digits_string rnd in
  Do (PAbsCreateTemp storage)
     (fun a => match a with
               | AOk =>
                 bind (choice "prefix-directory-known")
                      (fun known =>
                         bind (if known then Ret (OkR tt)
                               else Do (PAbsMkdir (staged_prefix_dir dhex)) ok_or_err)
                              (fun r => match r with
                                        | ErrR => Do (PAbsRemove storage) (fun _ => Ret ErrR)
                                        | OkR _ =>
                                          Do (PAbsRename storage (staged_path dhex phex))
                                             (fun a' => match a' with
                                                        | AOk => Ret (OkR tt)
                                                        | _ => Do (PAbsRemove storage) (fun _ => Ret ErrR)
                                                        end)
                                        end))
               | _ => Ret ErrR
               end).

Definition stage_contains (dhex phex : string) : prog bool :=
  bind (choice "prefix-directory-known")
       (fun known => if known
                     then Do (PAbsLstat (staged_path dhex phex))
                             (fun a => match a with AKind KFile => Ret true | _ => Ret false end)
                     else Ret false).

(* endpoint.stageFromRoot: reverse lookup, Opener.OpenFile(sourcePath), sink,
   copy, close, Contains *)
Definition stage_from_root (o : opener) (source_path : string) (rnd : list nat) (dhex phex : string)
  : prog (opener * bool) :=
  bind (choice "reverse-lookup-hit")
       (fun hit =>
          if hit then
            bind (opener_open_file o source_path)
                 (fun x => let '(o', r) := x in
                           match r with
                           | ErrR => Ret (o', false)
                           | OkR _ =>
                             bind (stage_commit rnd dhex phex)
                                  (fun c => match c with
                                            | ErrR => Ret (o', false)
                                            | OkR _ => bind (stage_contains dhex phex) (fun b => Ret (o', b))
                                            end)
                           end)
          else Ret (o, false)).

(* ------------------------------------------------- transitions (transition.go) *)

Inductive ent :=
| EFile (dhex phex : string)          (* where its staged content lives *)
| ELink
| EDir (c : list (string * ent))
| EOtherKind.

(* filesystem.SetPermissionsByPath(stagedPath, ownership, mode) *)
Definition set_permissions_by_path (p : string) : prog (res unit) :=
  bind (if ownership then Do (PAbsChown p) ok_or_err else Ret (OkR tt))
       (fun r => match r with ErrR => Ret ErrR | OkR _ => Do (PAbsChmod p) ok_or_err end).

(* findAndMoveStagedFileIntoPlace *)
Definition find_and_move (dhex phex : string) (h : handle) (n : string) (replace : bool)
           (rnds : list (list nat)) : prog (res unit) :=
  let p := staged_path dhex phex in
  bind (set_permissions_by_path p)
       (fun r => match r with
                 | ErrR => Ret ErrR
                 | OkR _ =>
                   bind (abs_rename_into p h n replace)
                        (fun a => match a with
                                  | AOk => Ret (OkR tt)
                                  | AXdev =>
                                    (* cross-device: copy through a temporary in the target directory *)
                                    Do (PAbsRead p)
                                       (fun a1 => match a1 with
                                                  | AOk =>
                                                    bind (dir_create_temporary_file h cross_device_pattern rnds)
                                                         (fun t => match t with
                                                                   | ErrR => Ret ErrR
                                                                   | OkR tmp =>
                                                                     bind (choice "copy-succeeded")
                                                                          (fun okc =>
                                                                             if okc then
                                                                               bind (dir_set_permissions h tmp ownership true)
                                                                                    (fun s => match s with
                                                                                              | ErrR => bind (dir_remove_file h tmp) (fun _ => Ret ErrR)
                                                                                              | OkR _ =>
                                                                                                bind (dir_rename h tmp h n replace)
                                                                                                     (fun rr => match rr with
                                                                                                                | ErrR => bind (dir_remove_file h tmp) (fun _ => Ret ErrR)
                                                                                                                | OkR _ => Do (PAbsRemove p) (fun _ => Ret (OkR tt))
                                                                                                                end)
                                                                                              end)
                                                                             else bind (dir_remove_file h tmp) (fun _ => Ret ErrR))
                                                                   end)
                                                  | _ => Ret ErrR
                                                  end)
                                  | _ => Ret ErrR
                                  end)
                 end).

(* ensureExpectedFile: cache lookup, metadata, comparison *)
Definition ensure_expected_file (h : handle) (n : string) : prog (res unit) :=
  bind (choice "cache-entry-present")
       (fun c => if c then
                   bind (dir_read_content_metadata h n)
                        (fun r => match r with
                                  | ErrR => Ret ErrR
                                  | OkR _ => bind (choice "matches-cache") (fun m => Ret (if m then OkR tt else ErrR))
                                  end)
                 else Ret ErrR).

Definition remove_file (h : handle) (n : string) : prog (res unit) :=
  bind (ensure_expected_file h n)
       (fun r => match r with ErrR => Ret ErrR | OkR _ => dir_remove_file h n end).

(* removeSymbolicLink: mode check, ensureExpectedSymbolicLink, remove *)
Definition remove_symbolic_link (links_ignored : bool) (h : handle) (n : string) : prog (res unit) :=
  if links_ignored then Ret ErrR
  else bind (dir_read_symbolic_link h n)
            (fun r => match r with
                      | ErrR => Ret ErrR
                      | OkR _ => bind (choice "link-target-matches")
                                      (fun m => if m then dir_remove_file h n else Ret ErrR)
                      end).

Fixpoint lookup_ent (n : string) (c : list (string * ent)) : option ent :=
  match c with
  | [] => None
  | (k, e) :: t => if n =? k then Some e else lookup_ent n t
  end.

(* removeDirectory: open it, list it, remove known contents by kind, close,
   remove the directory itself if everything went. Returns success. *)
Fixpoint remove_directory (links_ignored : bool) (h : handle) (n : string) (e : ent) {struct e}
  : prog bool :=
  match e with
  | EDir contents =>
    bind (dir_open_directory h n)
         (fun r => match r with
                   | ErrR => Ret false
                   | OkR d =>
                     bind (dir_read_contents d)
                          (fun rc => match rc with
                                     | ErrR => Ret false
                                     | OkR listed =>
                                       bind ((fix loop (l : list (string * kind)) : prog bool :=
                                                match l with
                                                | [] => Ret true
                                                | (cn, _) :: rest =>
                                                  bind ((fix find (c : list (string * ent)) : prog bool :=
                                                           match c with
                                                           | [] => Ret false          (* unknown content on disk *)
                                                           | (k, ce) :: t =>
                                                             if cn =? k then
                                                               match ce with
                                                               | EDir _ => remove_directory links_ignored d cn ce
                                                               | EFile _ _ =>
                                                                 bind (remove_file d cn)
                                                                      (fun x => Ret (match x with OkR _ => true | ErrR => false end))
                                                               | ELink =>
                                                                 bind (remove_symbolic_link links_ignored d cn)
                                                                      (fun x => Ret (match x with OkR _ => true | ErrR => false end))
                                                               | EOtherKind => Ret false
                                                               end
                                                             else find t
                                                           end) contents)
                                                       (fun ok1 => bind (loop rest) (fun ok2 => Ret (ok1 && ok2)))
                                                end) listed)
                                            (fun all_ok =>
                                               if all_ok then
                                                 bind (dir_remove_directory h n)
                                                      (fun x => Ret (match x with OkR _ => true | ErrR => false end))
                                               else Ret false)
                                     end)
                   end)
  | _ => Ret false
  end.

(* transitioner.remove *)
Definition remove (links_ignored : bool) (path : string) (e : ent) : prog bool :=
  bind (walk_to_parent path true)
       (fun r => match r with
                 | ErrR => Ret false
                 | OkR (parent, name) =>
                   match e with
                   | EDir _ => remove_directory links_ignored parent name e
                   | EFile _ _ => bind (remove_file parent name)
                                       (fun x => Ret (match x with OkR _ => true | ErrR => false end))
                   | ELink => bind (remove_symbolic_link links_ignored parent name)
                                   (fun x => Ret (match x with OkR _ => true | ErrR => false end))
                   | EOtherKind => Ret false
                   end
                 end).

(* createSymbolicLink: mode checks, symlinkat, SetPermissions with mode 0 on Linux *)
Definition create_symbolic_link (links_ignored : bool) (h : handle) (n : string) : prog (res unit) :=
  if links_ignored then Ret ErrR
  else bind (choice "link-portable")
            (fun p => if p then
                        bind (dir_create_symbolic_link h n)
                             (fun r => match r with
                                       | ErrR => Ret ErrR
                                       | OkR _ => dir_set_permissions h n ownership false
                                       end)
                      else Ret ErrR).

(* createDirectory: mkdirat, SetPermissions, open it, create the contents *)
Fixpoint create_directory (links_ignored : bool) (rnds : list (list nat))
         (h : handle) (n : string) (e : ent) {struct e} : prog unit :=
  match e with
  | EDir contents =>
    bind (dir_create_directory h n)
         (fun r => match r with
                   | ErrR => Ret tt
                   | OkR _ =>
                     bind (dir_set_permissions h n ownership true)
                          (fun s => match s with
                                    | ErrR => Ret tt
                                    | OkR _ =>
                                      match contents with
                                      | [] => Ret tt
                                      | _ =>
                                        bind (dir_open_directory h n)
                                             (fun o => match o with
                                                       | ErrR => Ret tt
                                                       | OkR d =>
                                                         (fix each (c : list (string * ent)) : prog unit :=
                                                            match c with
                                                            | [] => Ret tt
                                                            | (cn, ce) :: t =>
                                                              bind (match ce with
                                                                    | EDir _ => create_directory links_ignored rnds d cn ce
                                                                    | EFile dh ph => bind (find_and_move dh ph d cn false rnds) (fun _ => Ret tt)
                                                                    | ELink => bind (create_symbolic_link links_ignored d cn) (fun _ => Ret tt)
                                                                    | EOtherKind => Ret tt
                                                                    end)
                                                                   (fun _ => each t)
                                                            end) contents
                                                       end)
                                      end
                                    end)
                   end)
  | _ => Ret tt
  end.

(* transitioner.create *)
Definition create (links_ignored : bool) (rnds : list (list nat)) (path : string) (e : ent) : prog unit :=
  bind (walk_to_parent path false)
       (fun r => match r with
                 | ErrR => Ret tt
                 | OkR (parent, name) =>
                   match e with
                   | EDir _ => create_directory links_ignored rnds parent name e
                   | EFile dh ph => bind (find_and_move dh ph parent name false rnds) (fun _ => Ret tt)
                   | ELink => bind (create_symbolic_link links_ignored parent name) (fun _ => Ret tt)
                   | EOtherKind => Ret tt
                   end
                 end).

(* transitioner.swapFile *)
Definition swap_file (rnds : list (list nat)) (path : string) (same_digest : bool) (dhex phex : string)
  : prog (res unit) :=
  bind (walk_to_parent path true)
       (fun r => match r with
                 | ErrR => Ret ErrR
                 | OkR (parent, name) =>
                   bind (ensure_expected_file parent name)
                        (fun e => match e with
                                  | ErrR => Ret ErrR
                                  | OkR _ =>
                                    if same_digest then dir_set_permissions parent name ownership true
                                    else find_and_move dhex phex parent name true rnds
                                  end)
                 end).

(* one element of the transitions list *)
Inductive change :=
| CSwap (path : string) (same_digest : bool) (dhex phex : string)   (* file -> file *)
| CReplace (path : string) (old new : option ent).                  (* remove old, create new *)

Definition transition_one (links_ignored : bool) (rnds : list (list nat)) (c : change) : prog unit :=
  match c with
  | CSwap path same dh ph => bind (swap_file rnds path same dh ph) (fun _ => Ret tt)
  | CReplace path old new =>
    bind (match old with None => Ret true | Some e => remove links_ignored path e end)
         (fun removed =>
            if removed then match new with None => Ret tt | Some e => create links_ignored rnds path e end
            else Ret tt)
  end.

Fixpoint transition (links_ignored : bool) (rnds : list (list nat)) (cs : list change) : prog unit :=
  match cs with
  | [] => Ret tt
  | c :: t => bind (transition_one links_ignored rnds c) (fun _ => transition links_ignored rnds t)
  end.

(* ----------------------------------------------------------- Scan (scan.go) *)

Definition temporary_name_prefix : string := ".mutagen-temporary-".

(* scanner.directory on an open directory handle; the recursion is bounded by
   [fuel] (the depth of the tree; an exhausted fuel stops descending) *)
Fixpoint scan_directory (fuel : nat) (d : handle) : prog unit :=
  match fuel with
  | O => Ret tt
  | S fuel' =>
    bind (dir_read_contents d)
         (fun rc => match rc with
                    | ErrR => Ret tt
                    | OkR listed =>
                      (fix each (l : list (string * kind)) : prog unit :=
                         match l with
                         | [] => Ret tt
                         | (n, k) :: rest =>
                           bind (if prefix temporary_name_prefix n then Ret tt
                                 else
                                   bind (choice "ignored-or-invalid-name")
                                        (fun skip =>
                                           if skip then Ret tt
                                           else match k with
                                                | KFile =>
                                                  bind (choice "digest-cached")
                                                       (fun c => if c then Ret tt
                                                                 else bind (dir_open_file d n) (fun _ => Ret tt))
                                                | KLink => bind (dir_read_symbolic_link d n) (fun _ => Ret tt)
                                                | KDir =>
                                                  bind (choice "same-device")
                                                       (fun sd =>
                                                          if sd then
                                                            bind (dir_open_directory d n)
                                                                 (fun o => match o with
                                                                           | OkR d' => scan_directory fuel' d'
                                                                           | ErrR => Ret tt
                                                                           end)
                                                          else Ret tt)
                                                | KOther => Ret tt
                                                end))
                                (fun _ => each rest)
                         end) listed
                    end)
  end.

(* Scan: filesystem.Open(root, false), then by the kind of the root *)
Definition scan (fuel : nat) : prog unit :=
  Do (PAbsOpen root false)
     (fun a => match a with
               | AOk => bind (choice "root-is-directory")
                             (fun isdir => if isdir then scan_directory fuel HRoot else Ret tt)
               | _ => Ret tt
               end).

(* ------------------------------------------- the confinement predicate *)

(* h was obtained from the root by single-name O_NOFOLLOW opens (or is the
   root re-reached through its parent by its own base name) *)
Fixpoint from_root (h : handle) : bool :=
  match h with
  | HRoot => true
  | HRootParent => false
  | HChild HRootParent n => (n =? root_base) && valid_name n
  | HChild h' n => from_root h' && ((n =? ".") || valid_name n)
  end.

(* In the root's parent directory (the documented exception: the root itself
   is replaced through it) only two names may be acted on: the root's own base
   name, and the cross-device temporary that findAndMoveStagedFileIntoPlace
   puts beside it when the root is a single file. *)
Definition parent_name_ok (n : string) : bool :=
  ((n =? root_base) || prefix cross_device_pattern n) && valid_name n.

(* a (handle, name) pair the code may act on *)
Definition at_ok (h : handle) (n : string) : bool :=
  (from_root h && valid_name n)
  || (match h with HRootParent => parent_name_ok n | _ => false end).

Definition all_chars (P : ascii -> bool) : string -> bool :=
  fix go (s : string) : bool :=
    match s with EmptyString => true | String c r => P c && go r end.

Definition is_hex_char (c : ascii) : bool :=
  let n := nat_of_ascii c in
  (Nat.leb 48 n && Nat.leb n 57) || (Nat.leb 97 n && Nat.leb n 102).
Definition is_hex : string -> bool := all_chars is_hex_char.

(* an absolute path inside the staging directory: the directory itself,
   staging/x or staging/x/y with x, y valid non-empty names *)
Definition staging_ok (p : string) : bool :=
  (p =? staging) ||
  match strip_prefix (staging ++ "/") p with
  | Some rest =>
    match split_slash rest with
    | [x] => valid_name x && negb (x =? "")
    | [x; y] => valid_name x && negb (x =? "") && valid_name y && negb (y =? "")
    | _ => false
    end
  | None => false
  end.

Definition prim_ok (p : prim) : bool :=
  match p with
  | POpenAt h n dir => (from_root h && (dir && (n =? ".") || valid_name n))
                       || (match h with HRootParent => parent_name_ok n | _ => false end)
  | PCreateAt h n | PStatAt h n | PReadlinkAt h n | PMkdirAt h n | PSymlinkAt h n
  | PChownAt h n => at_ok h n
  | PUnlinkAt h n _ => at_ok h n
  | PRenameAt h1 n1 h2 n2 _ => at_ok h1 n1 && at_ok h2 n2
  | PListDir h => from_root h
  | PAbsOpen p follow => if follow then p =? root_parent_path else p =? root
  | PAbsChown p | PAbsChmod p | PAbsRead p | PAbsRemove p | PAbsLstat p | PAbsMkdir p
  | PAbsCreateTemp p => staging_ok p
  | PAbsRename p q => staging_ok p && staging_ok q
  | PAbsRenameAt p h n _ => staging_ok p && at_ok h n
  | PChoice _ => true
  | PForeign _ => false
  end.

(* answers the operating system can give: a directory listing consists of
   non-empty single-component names other than "." and ".." *)
Definition listed_name_ok (n : string) : bool := valid_name n && negb (n =? "").
Definition sane (a : answer) : bool :=
  match a with ANames l => forallb listed_name_ok l | _ => true end.

(* every primitive the program can issue, whatever sane answers it gets *)
Fixpoint confined {A : Type} (m : prog A) : Prop :=
  match m with
  | Ret _ => True
  | Do p k => prim_ok p = true /\ forall a, sane a = true -> confined (k a)
  end.

(* physical position of a handle, as names below the root's parent *)
Fixpoint phys (h : handle) : list string :=
  match h with
  | HRootParent => []
  | HRoot => [root_base]
  | HChild h' n => if n =? "." then phys h' else (phys h' ++ [n])%list
  end.

End Ops.

(* ------------------------------------------------ physical trees with links *)

(* A link target: absolute (from the tree's top) or relative, as components;
   ".." is a component with its usual meaning for the following resolver. *)
Inductive node :=
| NDir (c : list (string * node))
| NFile
| NLink (absolute : bool) (target : list string).

Fixpoint child (n : string) (c : list (string * node)) : option node :=
  match c with
  | [] => None
  | (k, x) :: t => if n =? k then Some x else child n t
  end.

(* what a chain of openat(O_NOFOLLOW|O_DIRECTORY) computes: descend through
   directories only; a link or a file in the way is an error *)
Fixpoint walk_nofollow (t : node) (comps : list string) : option node :=
  match comps with
  | [] => Some t
  | c :: rest =>
    match t with
    | NDir cs => match child c cs with
                 | Some (NDir cs') => walk_nofollow (NDir cs') rest
                 | Some x => match rest with [] => Some x | _ => None end
                 | None => None
                 end
    | _ => None
    end
  end.

(* the object at a physical position (no link is ever followed) *)
Fixpoint at_phys (t : node) (pos : list string) : option node :=
  match pos with
  | [] => Some t
  | c :: rest => match t with
                 | NDir cs => match child c cs with Some x => at_phys x rest | None => None end
                 | _ => None
                 end
  end.

(* the kernel's resolver for a joined path: follows links in every component
   (the leaf included), ".." goes up; [pos] is the current physical position
   from the top, [fuel] bounds link expansion. Returns the physical position
   reached. *)
Fixpoint resolve_follow (fuel : nat) (top : node) (pos : list string) (comps : list string)
  : option (list string) :=
  match fuel with
  | O => None
  | S fuel' =>
    match comps with
    | [] => Some pos
    | c :: rest =>
      if c =? ".." then resolve_follow fuel' top (removelast pos) rest
      else if (c =? ".") || (c =? "") then resolve_follow fuel' top pos rest
      else
        match at_phys top (pos ++ [c])%list with
        | Some (NLink true target) => resolve_follow fuel' top [] (target ++ rest)%list
        | Some (NLink false target) => resolve_follow fuel' top pos (target ++ rest)%list
        | Some _ => resolve_follow fuel' top (pos ++ [c])%list rest
        | None => None
        end
    end
  end.

(* is [a] a prefix of [b] (component lists) *)
Fixpoint is_prefix (a b : list string) : bool :=
  match a, b with
  | [], _ => true
  | x :: a', y :: b' => (x =? y) && is_prefix a' b'
  | _, _ => false
  end.

(* a component as the synchronization paths carry them *)
Definition plain (c : string) : bool := valid_name c && negb (c =? "").

Definition kind_of (x : node) : kind :=
  match x with NDir _ => KDir | NFile => KFile | NLink _ _ => KLink end.

(* The world a physical tree [top] (the tree below the root's PARENT
   directory, so the root is its child [root_base]) presents to the read-only
   primitives, with the operating system's O_NOFOLLOW / AT_SYMLINK_NOFOLLOW
   semantics: the object named is the directory entry itself; opening a link
   fails (ELOOP); O_DIRECTORY on a non-directory fails. *)
Definition tree_world (root : string) (top : node) (p : prim) : answer :=
  match p with
  | PAbsOpen path follow =>
    if follow then AOk
    else if path =? root then
      match at_phys top [root_base root] with
      | Some (NDir _) | Some NFile => AOk
      | _ => AFail
      end
    else AFail
  | POpenAt h n dir =>
    match at_phys top (phys root h ++ [n])%list with
    | Some (NDir _) => if dir then AOk else AFail   (* Directory.open's fstat check *)
    | Some NFile => if dir then AFail else AOk
    | _ => AFail
    end
  | PListDir h =>
    match at_phys top (phys root h) with
    | Some (NDir cs) => ANames (map fst cs)
    | _ => AFail
    end
  | PStatAt h n =>
    match at_phys top (phys root h ++ [n])%list with
    | Some x => AKind (kind_of x)
    | None => AFail
    end
  | PReadlinkAt h n =>
    match at_phys top (phys root h ++ [n])%list with
    | Some (NLink _ _) => ATarget ""
    | _ => AFail
    end
  | PChoice what =>
    (* nothing is ignored, no digest is cached; every other decision goes the
       way that continues the operation *)
    ABool (negb ((what =? "ignored-or-invalid-name") || (what =? "digest-cached")))
  | _ => AFail
  end.

(* ------------------------------- the checker on an observed call sequence *)

(* One path-taking system call of the implementation as strace printed it
   (descriptor arguments: None = AT_FDCWD), a directory listing (consecutive
   getdents64 on one descriptor), or a close. *)
Inductive obs :=
| OCall (sys : string) (fd1 : option nat) (p1 : string) (fd2 : option nat) (p2 : string)
        (flags : list string) (ret : nat) (err : string) (k : kind) (target : string)
| OList (fd : nat) (names : list string)
| OClose (fd : nat).

Definition fdmap := list (nat * handle).

Fixpoint fd_lookup (fd : nat) (m : fdmap) : option handle :=
  match m with
  | [] => None
  | (k, h) :: t => if Nat.eqb fd k then Some h else fd_lookup fd t
  end.

Fixpoint fd_remove (fd : nat) (m : fdmap) : fdmap :=
  match m with
  | [] => []
  | (k, h) :: t => if Nat.eqb fd k then fd_remove fd t else (k, h) :: fd_remove fd t
  end.

Definition has_flag (f : string) (flags : list string) : bool := existsb (String.eqb f) flags.

Definition answer_of_err (err : string) : answer :=
  if err =? "" then AOk
  else if err =? "EEXIST" then AExist
  else if err =? "EXDEV" then AXdev
  else if (err =? "ENOTSUP") || (err =? "ENOSYS") || (err =? "EOPNOTSUPP") then AUnsup
  else AFail.

Definition is_abs (p : string) : bool := prefix "/" p.

(* Names the descriptors by how they were obtained and maps the call to the
   primitive it is; a call that is none of the model's primitives (a missing
   O_NOFOLLOW / AT_SYMLINK_NOFOLLOW, an unknown descriptor, a relative path
   without descriptor, any other system call) becomes a PForeign. *)
Definition abstract_call (root : string) (m : fdmap)
           (sys : string) (fd1 : option nat) (p1 : string) (fd2 : option nat) (p2 : string)
           (flags : list string) (ret : nat) (err : string) (k : kind) (target : string)
  : fdmap * prim * answer :=
  let ok := err =? "" in
  let basic := answer_of_err err in
  let foreign (why : string) := (m, PForeign (sys ++ ": " ++ why), basic) in
  let with1 (f : handle -> fdmap * prim * answer) :=
      match fd1 with
      | Some fd => match fd_lookup fd m with Some h => f h | None => foreign "unknown descriptor" end
      | None => foreign "relative path without descriptor"
      end in
  if sys =? "openat" then
    match fd1 with
    | Some _ =>
      with1 (fun h =>
               if has_flag "O_CREAT" flags then
                 if has_flag "O_EXCL" flags then (m, PCreateAt h p1, basic)
                 else foreign "O_CREAT without O_EXCL"
               else if has_flag "O_NOFOLLOW" flags then
                 (if ok then (ret, HChild h p1) :: fd_remove ret m else m,
                  POpenAt h p1 (has_flag "O_DIRECTORY" flags), basic)
               else foreign "openat without O_NOFOLLOW")
    | None =>
      if is_abs p1 then
        if has_flag "O_CREAT" flags then
          if has_flag "O_EXCL" flags then (m, PAbsCreateTemp p1, basic)
          else foreign "O_CREAT without O_EXCL"
        else if has_flag "O_NOFOLLOW" flags then
          (if ok && (p1 =? root) then (ret, HRoot) :: fd_remove ret m else m, PAbsOpen p1 false, basic)
        else if has_flag "O_DIRECTORY" flags || negb (has_flag "O_WRONLY" flags || has_flag "O_RDWR" flags) then
          (* read-only open following links: the root's parent, or a staged file *)
          if p1 =? fst (path_split root)
          then (if ok then (ret, HRootParent) :: fd_remove ret m else m, PAbsOpen p1 true, basic)
          else (m, PAbsRead p1, basic)
        else foreign "writable open by path"
      else foreign "relative path without descriptor"
    end
  else if sys =? "newfstatat" then
    if has_flag "AT_SYMLINK_NOFOLLOW" flags then
      match fd1 with
      | Some _ => with1 (fun h => (m, PStatAt h p1, if ok then AKind k else basic))
      | None => if is_abs p1 then (m, PAbsLstat p1, if ok then AKind k else basic)
                else foreign "relative path without descriptor"
      end
    else foreign "stat following links"
  else if sys =? "readlinkat" then
    with1 (fun h => (m, PReadlinkAt h p1, if ok then ATarget target else basic))
  else if sys =? "mkdirat" then
    match fd1 with
    | Some _ => with1 (fun h => (m, PMkdirAt h p1, basic))
    | None => if is_abs p1 then (m, PAbsMkdir p1, basic) else foreign "relative path without descriptor"
    end
  else if sys =? "symlinkat" then
    with1 (fun h => (m, PSymlinkAt h p1, basic))
  else if sys =? "unlinkat" then
    match fd1 with
    | Some _ => with1 (fun h => (m, PUnlinkAt h p1 (has_flag "AT_REMOVEDIR" flags), basic))
    | None => if is_abs p1 then (m, PAbsRemove p1, basic) else foreign "relative path without descriptor"
    end
  else if sys =? "fchownat" then
    match fd1 with
    | Some _ => if has_flag "AT_SYMLINK_NOFOLLOW" flags then with1 (fun h => (m, PChownAt h p1, basic))
                else foreign "chown following links"
    | None => if is_abs p1 then (m, PAbsChown p1, basic) else foreign "relative path without descriptor"
    end
  else if sys =? "fchmodat" then
    match fd1 with
    | Some _ => foreign "fchmodat on a descriptor-relative name follows links on Linux"
    | None => if is_abs p1 then (m, PAbsChmod p1, basic) else foreign "relative path without descriptor"
    end
  else if (sys =? "renameat") || (sys =? "renameat2") then
    let nr := has_flag "RENAME_NOREPLACE" flags in
    match fd1, fd2 with
    | Some a, Some b =>
      match fd_lookup a m, fd_lookup b m with
      | Some h1, Some h2 => (m, PRenameAt h1 p1 h2 p2 nr, basic)
      | _, _ => foreign "unknown descriptor"
      end
    | None, Some b =>
      match fd_lookup b m with
      | Some h2 => if is_abs p1 then (m, PAbsRenameAt p1 h2 p2 nr, basic)
                   else foreign "relative path without descriptor"
      | None => foreign "unknown descriptor"
      end
    | None, None => if is_abs p1 && is_abs p2 then (m, PAbsRename p1 p2, basic)
                    else foreign "relative path without descriptor"
    | Some _, None => foreign "rename out of a descriptor to a path"
    end
  else foreign "system call outside the model".

Fixpoint abstract (root : string) (m : fdmap) (l : list obs) : list (prim * answer) :=
  match l with
  | [] => []
  | OCall sys fd1 p1 fd2 p2 flags ret err k target :: t =>
    let '(m', p, a) := abstract_call root m sys fd1 p1 fd2 p2 flags ret err k target in
    (p, a) :: abstract root m' t
  | OList fd names :: t =>
    match fd_lookup fd m with
    | Some h => (PListDir h, ANames names) :: abstract root m t
    | None => (PForeign "getdents64: unknown descriptor", ANames names) :: abstract root m t
    end
  | OClose fd :: t => abstract root (fd_remove fd m) t
  end.

(* The property on an observed run: the canary outside the root is untouched
   and every path-taking call is one of the confined primitives. *)
Definition check_C17 (root staging : string) (canary_intact : bool) (observed : list obs) : bool :=
  canary_intact && forallb (fun pa => prim_ok root staging (fst pa)) (abstract root [] observed).
