(* M-Controller: the session controller of pkg/synchronization/controller.go and
   the part of manager.go that drives it, as an explicit transition system
   (definitions only, no proofs).

   One session. The state holds what the Go controller holds -- [disabled], the
   synchronization loop (cancel/done/flushRequests are the loop record, present
   iff c.cancel != nil), the status -- plus the two persisted files and the
   manager's registration of the controller. The lifecycle lock is held by the
   thread that is inside its critical section (program counters TJoin,
   TResetArch, TResetResume, TConn); it can be taken when no thread is.

   Threads are command invocations (Manager.Create / Pause / Resume / Flush /
   Reset / Terminate / Shutdown), each a small program over the lifecycle lock
   (newSession, halt, resume, flush, reset). The loop is controller.run with
   controller.synchronize inlined, one program counter per blocking point or
   observable call. Everything the environment decides (connection results,
   poll events, scan results, staging and transition results, timers) is a
   parameter of the action, so a schedule (list of actions) fixes an execution
   completely and theorems quantify over all schedules.

   Events: the observable ones are exactly what the Go harness records (command
   call/return, handler Connect, endpoint method entry/exit with their data,
   observations of the persisted files and of Manager.List, external edits,
   NewManager); the internal ones (file writes, halting, flush bookkeeping)
   exist only in model traces and make the strong forms of the theorems
   expressible.

   Not modelled: failures of writing/removing the session and archive files
   (the data directory is assumed writable), ReifyPhantomDirectories (Docker
   ignore syntax) and PropagateExecutability (both are the identity for two
   local endpoints with Mutagen-style ignores), more than one session. *)
From Coq Require Import List Bool Arith String.
Import ListNotations.
From Mv Require Import Model.Entry Model.Reconcile Model.Safety.
Local Open Scope list_scope.

(* ------------------------------------------------------------------ *)
(* alphabet *)

Inductive side := Alpha | Beta.
Inductive meth := MPoll | MStage | MSupply | MShutdown.
Inductive cmd :=
| CCreate (paused : bool)
| CPause | CShutdown | CTerminate     (* halt with the three halt modes *)
| CResume
| CFlush (wait : bool)
| CReset.
Definition tid := nat.

Inductive edit_kind := EdWrite | EdRemove | EdDelRoot | EdFileRoot | EdEmptyRoot | EdMkRoot.

Inductive event :=
(* observable *)
| Ca (t : tid) (c : cmd)                       (* command called *)
| Rt (t : tid) (c : cmd) (ok : bool)           (* command returned (nil error = true) *)
| Cn (s : side) (ok : bool)                    (* ProtocolHandler.Connect returned *)
| En (s : side) (m : meth)                     (* endpoint method entered *)
| Ex (s : side) (m : meth) (ok : bool)         (* endpoint method returned *)
| Sn (s : side) (full : bool) (anc : oentry)   (* Scan entered *)
| Sx (s : side) (ok retry : bool) (content : oentry)     (* Scan returned *)
| Tn (s : side) (transitions : list change)    (* Transition entered *)
| Tx (s : side) (ok : bool) (results : list change)      (* Transition returned: (path, nil, result) *)
| ObS (clean : bool) (sess : option bool)      (* session file: absent / Paused flag *)
| ObA (clean : bool) (arch : option oentry) (stamp : nat)  (* archive file: absent / content; identity of the file *)
| ObT (clean : bool) (status : option nat)     (* Manager.List status *)
| Ed (s : side) (k : edit_kind)                (* external edit of a root *)
| Nm (loaded : bool)                           (* NewManager returned; session loaded? *)
(* internal *)
| IWriteSession (paused : bool)
| IWriteArchive (by_reset : bool) (a : oentry)
| IRemoveSession
| IRemoveArchive
| ICancel (t : tid)
| ILoopStart (g : nat)
| ILoopExit (g : nat)
| ISyncStart
| ISyncEnd
| IHalt (k : halt_kind)
| IFlushTaken (t : tid)
| ISaved
| IFlushAnswered (t : tid).

Definition observable (e : event) : bool :=
  match e with
  | IWriteSession _ | IWriteArchive _ _ | IRemoveSession | IRemoveArchive | ICancel _
  | ILoopStart _ | ILoopExit _ | ISyncStart | ISyncEnd | IHalt _ | IFlushTaken _ | ISaved
  | IFlushAnswered _ => false
  | _ => true
  end.

Definition obs_of (evs : list event) : list event := filter observable evs.

(* ------------------------------------------------------------------ *)
(* the loop *)

Inductive pstat := PIdle | PRun | PDone.       (* a call: not started / running / returned *)
Inductive trigger := TrPoll | TrFlush | TrCancel.
Inductive scanres := SRNone | SROk (c : oentry) | SRRetry | SRFatal.

Record callres := { r_ok : bool; r_retry : bool; r_content : oentry; r_changes : list change }.

Inductive lpc :=
| LConnA | LConnA2 | LConnChk | LConnB | LConnB2 | LConnEnd | LConnWait
| LSyncInit
| LTop
| LPoll (pa pb : pstat) (trig : option trigger) (pevt perr : bool)
| LScan (sa sb : pstat) (ra rb : scanres)
| LRescanWait
| LReconcile (a b : oentry)
| LStage (s : side) (k : nat) (pl : plan)
| LTrans (pl : plan) (ta tb : pstat) (oka okb : bool) (cha chb : list change)
| LSave (pl : plan) (oka okb : bool) (cha chb : list change)
| LRespond
| LEnd (h : option halt_kind) (k : nat)
| LHalted
| LFailed
| LFailWait
| LExit (k : nat).

Record loopst := {
  lgen : nat;                 (* identity of done / flushRequests *)
  lcancel : bool;             (* ctx cancelled *)
  lslot : option tid;         (* flushRequests buffer (capacity 1) *)
  lca : bool; lcb : bool;     (* endpoint objects held by run *)
  lp : lpc;
  lsync : bool;               (* c.synchronizing != nil *)
  lepoch : nat;               (* identity of c.synchronizing *)
  lfreq : option tid;         (* synchronize's local flushRequest *)
  lanc : oentry;              (* synchronize's local ancestor *)
  lskip : bool;               (* skipPolling *)
  lskip_scan : bool;          (* skippingPollingDueToScanError *)
  lskip_miss : bool;          (* skippingPollingDueToMissingFiles *)
  lfailed : bool              (* a synchronization failure happened before (timer) *)
}.

Definition l_with_p (l : loopst) (p : lpc) : loopst :=
  {| lgen := lgen l; lcancel := lcancel l; lslot := lslot l; lca := lca l; lcb := lcb l; lp := p;
     lsync := lsync l; lepoch := lepoch l; lfreq := lfreq l; lanc := lanc l; lskip := lskip l;
     lskip_scan := lskip_scan l; lskip_miss := lskip_miss l; lfailed := lfailed l |}.
Definition l_with_cancel (l : loopst) (c : bool) : loopst :=
  {| lgen := lgen l; lcancel := c; lslot := lslot l; lca := lca l; lcb := lcb l; lp := lp l;
     lsync := lsync l; lepoch := lepoch l; lfreq := lfreq l; lanc := lanc l; lskip := lskip l;
     lskip_scan := lskip_scan l; lskip_miss := lskip_miss l; lfailed := lfailed l |}.
Definition l_with_slot (l : loopst) (s : option tid) : loopst :=
  {| lgen := lgen l; lcancel := lcancel l; lslot := s; lca := lca l; lcb := lcb l; lp := lp l;
     lsync := lsync l; lepoch := lepoch l; lfreq := lfreq l; lanc := lanc l; lskip := lskip l;
     lskip_scan := lskip_scan l; lskip_miss := lskip_miss l; lfailed := lfailed l |}.
Definition l_with_conn (l : loopst) (a b : bool) : loopst :=
  {| lgen := lgen l; lcancel := lcancel l; lslot := lslot l; lca := a; lcb := b; lp := lp l;
     lsync := lsync l; lepoch := lepoch l; lfreq := lfreq l; lanc := lanc l; lskip := lskip l;
     lskip_scan := lskip_scan l; lskip_miss := lskip_miss l; lfailed := lfailed l |}.
Definition l_with_sync (l : loopst) (s : bool) (e : nat) : loopst :=
  {| lgen := lgen l; lcancel := lcancel l; lslot := lslot l; lca := lca l; lcb := lcb l; lp := lp l;
     lsync := s; lepoch := e; lfreq := lfreq l; lanc := lanc l; lskip := lskip l;
     lskip_scan := lskip_scan l; lskip_miss := lskip_miss l; lfailed := lfailed l |}.
Definition l_with_freq (l : loopst) (f : option tid) : loopst :=
  {| lgen := lgen l; lcancel := lcancel l; lslot := lslot l; lca := lca l; lcb := lcb l; lp := lp l;
     lsync := lsync l; lepoch := lepoch l; lfreq := f; lanc := lanc l; lskip := lskip l;
     lskip_scan := lskip_scan l; lskip_miss := lskip_miss l; lfailed := lfailed l |}.
Definition l_with_anc (l : loopst) (a : oentry) : loopst :=
  {| lgen := lgen l; lcancel := lcancel l; lslot := lslot l; lca := lca l; lcb := lcb l; lp := lp l;
     lsync := lsync l; lepoch := lepoch l; lfreq := lfreq l; lanc := a; lskip := lskip l;
     lskip_scan := lskip_scan l; lskip_miss := lskip_miss l; lfailed := lfailed l |}.
Definition l_with_skips (l : loopst) (s ss sm : bool) : loopst :=
  {| lgen := lgen l; lcancel := lcancel l; lslot := lslot l; lca := lca l; lcb := lcb l; lp := lp l;
     lsync := lsync l; lepoch := lepoch l; lfreq := lfreq l; lanc := lanc l; lskip := s;
     lskip_scan := ss; lskip_miss := sm; lfailed := lfailed l |}.
Definition l_with_failed (l : loopst) (f : bool) : loopst :=
  {| lgen := lgen l; lcancel := lcancel l; lslot := lslot l; lca := lca l; lcb := lcb l; lp := lp l;
     lsync := lsync l; lepoch := lepoch l; lfreq := lfreq l; lanc := lanc l; lskip := lskip l;
     lskip_scan := lskip_scan l; lskip_miss := lskip_miss l; lfailed := f |}.

(* go controller.run(ctx, alpha, beta) *)
Definition new_loop (g : nat) (a b : bool) : loopst :=
  {| lgen := g; lcancel := false; lslot := None; lca := a; lcb := b; lp := LConnA;
     lsync := false; lepoch := 0; lfreq := None; lanc := None; lskip := false;
     lskip_scan := false; lskip_miss := false; lfailed := false |}.

(* ------------------------------------------------------------------ *)
(* threads *)

Inductive tpc :=
| TCalled                       (* before Manager.selectControllers *)
| TStart                        (* controller selected, before the lifecycle lock *)
| TJoin                         (* lock held, loop cancelled, waiting for <-done *)
| TResetArch                    (* reset: lock held, paused written, about to clear the archive *)
| TResetResume                  (* reset: lock held, archive cleared, about to resume *)
| TConn (s : side) (aok : bool) (* lock held, about to connect side s *)
| TFlushSend (g e : nat)        (* flush past its checks; holds the channels of loop g, epoch e *)
| TFlushWait (g e : nat)        (* flush(wait): request queued, waiting for the answer *)
| TRet (ok : bool).             (* done, lock released, about to return *)

Record thread := { th_id : tid; th_cmd : cmd; th_pc : tpc }.

Inductive flush_choice := FSend | FDefault | FAnswered | FFailed | FCtx.

(* ------------------------------------------------------------------ *)
(* controller + manager state *)

Record cstate := {
  cfg_mode : mode;
  cfg_manual : bool;          (* both endpoints in no-watch mode *)
  cfg_fixed : bool;           (* controller.reset refuses a disabled controller (the code since the
                                 repair of the Reset/Terminate overlap); false = the code as it was *)
  created : bool;
  present : bool;             (* the manager's session map holds the controller *)
  mgr_up : bool;              (* false after Manager.Shutdown until NewManager *)
  disabled : bool;
  loop : option loopst;
  sess_file : option bool;    (* persisted session: absent / Paused *)
  arch_file : option oentry;  (* persisted archive: absent / content *)
  arch_ver : nat;             (* counts writes and removals of the archive file *)
  status : nat;               (* State.Status *)
  threads : list thread;
  answered : list tid;        (* flush requests that received nil *)
  next_gen : nat;
  tid_bound : nat             (* thread identifiers are never reused *)
}.

Definition init_state_gen (fixed : bool) (m : mode) (manual : bool) : cstate :=
  {| cfg_mode := m; cfg_manual := manual; cfg_fixed := fixed; created := false; present := false; mgr_up := true;
     disabled := false; loop := None; sess_file := None; arch_file := None;
     arch_ver := 0; status := 0; threads := []; answered := []; next_gen := 0; tid_bound := 0 |}.

(* the code as it is *)
Definition init_state (m : mode) (manual : bool) : cstate := init_state_gen true m manual.
(* the code before controller.reset checked c.disabled *)
Definition init_state_unfixed (m : mode) (manual : bool) : cstate := init_state_gen false m manual.

Definition st_with_loop (st : cstate) (l : option loopst) : cstate :=
  {| cfg_mode := cfg_mode st; cfg_manual := cfg_manual st; cfg_fixed := cfg_fixed st; created := created st; present := present st;
     mgr_up := mgr_up st; disabled := disabled st; loop := l; sess_file := sess_file st;
     arch_file := arch_file st; arch_ver := arch_ver st; status := status st; threads := threads st;
     answered := answered st; next_gen := next_gen st; tid_bound := tid_bound st |}.
Definition st_with_status (st : cstate) (s : nat) : cstate :=
  {| cfg_mode := cfg_mode st; cfg_manual := cfg_manual st; cfg_fixed := cfg_fixed st; created := created st; present := present st;
     mgr_up := mgr_up st; disabled := disabled st; loop := loop st; sess_file := sess_file st;
     arch_file := arch_file st; arch_ver := arch_ver st; status := s; threads := threads st;
     answered := answered st; next_gen := next_gen st; tid_bound := tid_bound st |}.
Definition st_with_threads (st : cstate) (ths : list thread) : cstate :=
  {| cfg_mode := cfg_mode st; cfg_manual := cfg_manual st; cfg_fixed := cfg_fixed st; created := created st; present := present st;
     mgr_up := mgr_up st; disabled := disabled st; loop := loop st; sess_file := sess_file st;
     arch_file := arch_file st; arch_ver := arch_ver st; status := status st; threads := ths;
     answered := answered st; next_gen := next_gen st; tid_bound := tid_bound st |}.
Definition st_with_sess (st : cstate) (s : option bool) : cstate :=
  {| cfg_mode := cfg_mode st; cfg_manual := cfg_manual st; cfg_fixed := cfg_fixed st; created := created st; present := present st;
     mgr_up := mgr_up st; disabled := disabled st; loop := loop st; sess_file := s;
     arch_file := arch_file st; arch_ver := arch_ver st; status := status st; threads := threads st;
     answered := answered st; next_gen := next_gen st; tid_bound := tid_bound st |}.
Definition st_with_arch (st : cstate) (a : option oentry) : cstate :=
  {| cfg_mode := cfg_mode st; cfg_manual := cfg_manual st; cfg_fixed := cfg_fixed st; created := created st; present := present st;
     mgr_up := mgr_up st; disabled := disabled st; loop := loop st; sess_file := sess_file st;
     arch_file := a; arch_ver := S (arch_ver st); status := status st; threads := threads st;
     answered := answered st; next_gen := next_gen st; tid_bound := tid_bound st |}.
Definition st_with_answered (st : cstate) (l : list tid) : cstate :=
  {| cfg_mode := cfg_mode st; cfg_manual := cfg_manual st; cfg_fixed := cfg_fixed st; created := created st; present := present st;
     mgr_up := mgr_up st; disabled := disabled st; loop := loop st; sess_file := sess_file st;
     arch_file := arch_file st; arch_ver := arch_ver st; status := status st; threads := threads st;
     answered := l; next_gen := next_gen st; tid_bound := tid_bound st |}.
(* registration flags: created, present, mgr_up, disabled *)
Definition st_with_flags (st : cstate) (cr pr up dis : bool) : cstate :=
  {| cfg_mode := cfg_mode st; cfg_manual := cfg_manual st; cfg_fixed := cfg_fixed st; created := cr; present := pr;
     mgr_up := up; disabled := dis; loop := loop st; sess_file := sess_file st;
     arch_file := arch_file st; arch_ver := arch_ver st; status := status st; threads := threads st;
     answered := answered st; next_gen := next_gen st; tid_bound := tid_bound st |}.
Definition st_with_bound (st : cstate) (b : nat) : cstate :=
  {| cfg_mode := cfg_mode st; cfg_manual := cfg_manual st; cfg_fixed := cfg_fixed st; created := created st; present := present st;
     mgr_up := mgr_up st; disabled := disabled st; loop := loop st; sess_file := sess_file st;
     arch_file := arch_file st; arch_ver := arch_ver st; status := status st; threads := threads st;
     answered := answered st; next_gen := next_gen st; tid_bound := b |}.
Definition st_with_gen (st : cstate) (g : nat) : cstate :=
  {| cfg_mode := cfg_mode st; cfg_manual := cfg_manual st; cfg_fixed := cfg_fixed st; created := created st; present := present st;
     mgr_up := mgr_up st; disabled := disabled st; loop := loop st; sess_file := sess_file st;
     arch_file := arch_file st; arch_ver := arch_ver st; status := status st; threads := threads st;
     answered := answered st; next_gen := g; tid_bound := tid_bound st |}.

(* ------------------------------------------------------------------ *)
(* actions *)

Inductive lact :=
| LaTau                        (* the next step of straight-line code *)
| LaTimeout                    (* a timer fires *)
| LaConnect (ok : bool)        (* the handler's Connect returns *)
| LaEnter (s : side)           (* a call of the current phase starts on side s *)
| LaExit (s : side) (r : callres)  (* ... returns *)
| LaTrigger (tr : trigger)     (* which case of the polling select fires *)
| LaChoice (b : bool)          (* an environment boolean (missing files) *)
| LaFail.                      (* an internal failure at this point *)

Inductive action :=
| ACall (t : tid) (c : cmd)
| ASelect (t : tid)
| AAcquire (t : tid)
| AJoin (t : tid)
| AResetStep (t : tid)
| AConn (t : tid) (ok : bool)
| AFlushSend (t : tid) (ch : flush_choice)
| AFlushRecv (t : tid) (ch : flush_choice)
| AReturn (t : tid)
| AObserveS | AObserveA | AObserveT
| AEdit (s : side) (k : edit_kind)
| ANewManager
| ALoop (a : lact).

(* ------------------------------------------------------------------ *)
(* loop steps *)

Definition other (s : side) : side := match s with Alpha => Beta | Beta => Alpha end.
Definition side_eqb (a b : side) : bool :=
  match a, b with Alpha, Alpha | Beta, Beta => true | _, _ => false end.
Definition is_some {A : Type} (o : option A) : bool := match o with Some _ => true | None => false end.
Definition ch_of (s : side) (pl : plan) : list change :=
  match s with Alpha => alpha_ch pl | Beta => beta_ch pl end.
Definition nonempty {A : Type} (l : list A) : bool := match l with [] => false | _ => true end.

Definition lret (st : cstate) (l : loopst) (evs : list event) : option (cstate * list event) :=
  Some (st_with_loop st (Some l), evs).

(* synchronize returns a non-halting error: the local flush request is gone *)
Definition lfail (st : cstate) (l : loopst) : option (cstate * list event) :=
  lret st (l_with_p (l_with_freq l None) (LEnd None 0)) [ISyncEnd].

Definition pstat_of (l : list change) : pstat := if nonempty l then PIdle else PDone.

Definition scanres_of (r : callres) : scanres :=
  if r_ok r then SROk (r_content r) else if r_retry r then SRRetry else SRFatal.

Definition is_fatal (r : scanres) : bool := match r with SRFatal => true | _ => false end.
Definition is_retry (r : scanres) : bool := match r with SRRetry => true | _ => false end.

(* the ancestor after a cycle: core.Apply(ancestor, ancestorChanges ++ alpha
   results ++ beta results); None = failure *)
Definition new_ancestor (anc : oentry) (changes : list change) : option oentry :=
  match apply anc changes with
  | FOk a' => if wf true a' then Some a' else None
  | _ => None
  end.

Definition pdone (p : pstat) : bool := match p with PDone => true | _ => false end.

(* run: the connect loop *)
Definition step_conn (st : cstate) (l : loopst) (a : lact) : option (cstate * list event) :=
  match lp l with
  | LConnA =>
    match a with
    | LaTau => if lca l then lret st (l_with_p l LConnChk) []
               else lret (st_with_status st 4) (l_with_p l LConnA2) []
    | _ => None
    end
  | LConnA2 =>
    match a with
    | LaConnect ok => lret st (l_with_p (l_with_conn l ok (lcb l)) LConnChk) [Cn Alpha ok]
    | _ => None
    end
  | LConnChk =>
    match a with
    | LaTau => if lcancel l then lret st (l_with_p l (LExit 0)) [] else lret st (l_with_p l LConnB) []
    | _ => None
    end
  | LConnB =>
    match a with
    | LaTau => if lcb l then lret st (l_with_p l LConnEnd) []
               else lret (st_with_status st 5) (l_with_p l LConnB2) []
    | _ => None
    end
  | LConnB2 =>
    match a with
    | LaConnect ok => lret st (l_with_p (l_with_conn l (lca l) ok) LConnEnd) [Cn Beta ok]
    | _ => None
    end
  | LConnEnd =>
    match a with
    | LaTau => if lca l && lcb l then lret st (l_with_p l LSyncInit) [] else lret st (l_with_p l LConnWait) []
    | _ => None
    end
  | LConnWait =>
    match a with
    | LaTimeout => lret st (l_with_p l LConnA) []
    | LaTau => if lcancel l then lret st (l_with_p l (LExit 0)) [] else None
    | _ => None
    end
  | _ => None
  end.

(* synchronize: load the archive, initial skipPolling *)
Definition step_sync_init (st : cstate) (l : loopst) (a : lact) : option (cstate * list event) :=
  let l1 := l_with_freq (l_with_sync l true (S (lepoch l))) None in
  match a with
  | LaTau =>
    match arch_file st with
    | Some anc =>
      lret st (l_with_p (l_with_skips (l_with_anc l1 anc) (negb (cfg_manual st)) false false) LTop) [ISyncStart]
    | None => lret st (l_with_p l1 (LEnd None 0)) [ISyncStart; ISyncEnd]
    end
  | LaFail => lret st (l_with_p l1 (LEnd None 0)) [ISyncStart; ISyncEnd]
  | _ => None
  end.

Definition step_top (st : cstate) (l : loopst) (a : lact) : option (cstate * list event) :=
  match a with
  | LaTau =>
    if lskip l then
      lret (st_with_status st 7)
           (l_with_p (l_with_skips l false (lskip_scan l) (lskip_miss l)) (LScan PIdle PIdle SRNone SRNone)) []
    else lret (st_with_status st 6) (l_with_p l (LPoll PIdle PIdle None false false)) []
  | _ => None
  end.

(* the polling select *)
Definition step_poll (st : cstate) (l : loopst) (pa pb : pstat) (trig : option trigger) (pevt perr : bool)
           (a : lact) : option (cstate * list event) :=
  match a with
  | LaEnter Alpha =>
    match pa with
    | PIdle => lret st (l_with_p l (LPoll PRun pb trig pevt perr)) [En Alpha MPoll]
    | _ => None
    end
  | LaEnter Beta =>
    match pb with
    | PIdle => lret st (l_with_p l (LPoll pa PRun trig pevt perr)) [En Beta MPoll]
    | _ => None
    end
  | LaExit s r =>
    let ev := pevt || negb (cfg_manual st) || negb (r_ok r) in
    let er := perr || negb (r_ok r) in
    match s with
    | Alpha =>
      match pa with
      | PRun => lret st (l_with_p l (LPoll PDone pb trig ev er)) [Ex Alpha MPoll (r_ok r)]
      | _ => None
      end
    | Beta =>
      match pb with
      | PRun => lret st (l_with_p l (LPoll pa PDone trig ev er)) [Ex Beta MPoll (r_ok r)]
      | _ => None
      end
    end
  | LaTrigger tr =>
    match trig with
    | Some _ => None
    | None =>
      match tr with
      | TrPoll => if pevt then lret st (l_with_p l (LPoll pa pb (Some TrPoll) pevt perr)) [] else None
      | TrFlush =>
        match lslot l with
        | Some t =>
          lret st (l_with_p (l_with_freq (l_with_slot l None) (Some t)) (LPoll pa pb (Some TrFlush) pevt perr))
               [IFlushTaken t]
        | None => None
        end
      | TrCancel => if lcancel l then lret st (l_with_p l (LPoll pa pb (Some TrCancel) pevt perr)) [] else None
      end
    end
  | LaTau =>
    if pdone pa && pdone pb then
      match trig with
      | None => None
      | Some TrCancel => lfail st l
      | Some _ => if perr then lfail st l
                  else lret (st_with_status st 7) (l_with_p l (LScan PIdle PIdle SRNone SRNone)) []
      end
    else None
  | _ => None
  end.

(* scanning both endpoints *)
Definition step_scan (st : cstate) (l : loopst) (sa sb : pstat) (ra rb : scanres) (a : lact)
  : option (cstate * list event) :=
  match a with
  | LaEnter Alpha =>
    match sa with
    | PIdle => lret st (l_with_p l (LScan PRun sb ra rb)) [Sn Alpha (is_some (lfreq l)) (lanc l)]
    | _ => None
    end
  | LaEnter Beta =>
    match sb with
    | PIdle => lret st (l_with_p l (LScan sa PRun ra rb)) [Sn Beta (is_some (lfreq l)) (lanc l)]
    | _ => None
    end
  | LaExit Alpha r =>
    match sa with
    | PRun => lret st (l_with_p l (LScan PDone sb (scanres_of r) rb)) [Sx Alpha (r_ok r) (r_retry r) (r_content r)]
    | _ => None
    end
  | LaExit Beta r =>
    match sb with
    | PRun => lret st (l_with_p l (LScan sa PDone ra (scanres_of r))) [Sx Beta (r_ok r) (r_retry r) (r_content r)]
    | _ => None
    end
  | LaTau =>
    if pdone sa && pdone sb then
      if lcancel l then lfail st l
      else if is_fatal ra || is_fatal rb then lfail st l
      else if is_retry ra || is_retry rb then
        if lskip_scan l then lret (st_with_status st 8) (l_with_p l LRescanWait) []
        else lret st (l_with_p (l_with_skips l true true (lskip_miss l)) LTop) []
      else
        match ra, rb with
        | SROk ca, SROk cb =>
          lret (st_with_status st 9)
               (l_with_p (l_with_skips l (lskip l) false (lskip_miss l)) (LReconcile ca cb)) []
        | _, _ => None
        end
    else None
  | _ => None
  end.

Definition step_rescan_wait (st : cstate) (l : loopst) (a : lact) : option (cstate * list event) :=
  match a with
  | LaTimeout => lret st (l_with_p (l_with_skips l true true (lskip_miss l)) LTop) []
  | LaTau => if lcancel l then lfail st l else None
  | _ => None
  end.

(* the safety checks and reconciliation *)
Definition step_reconcile (st : cstate) (l : loopst) (ca cb : oentry) (a : lact) : option (cstate * list event) :=
  match a with
  | LaTau =>
    match safety_verdict (cfg_mode st) (lanc l) ca cb with
    | Some k =>
      lret (st_with_status st (halt_status k)) (l_with_p (l_with_freq l None) (LEnd (Some k) 0)) [IHalt k; ISyncEnd]
    | None =>
      lret (st_with_status st 10) (l_with_p l (LStage Alpha 0 (reconcile (cfg_mode st) (lanc l) ca cb))) []
    end
  | _ => None
  end.

Definition prepend (e : event) (r : option (cstate * list event)) : option (cstate * list event) :=
  match r with
  | Some (st', evs) => Some (st', e :: evs)
  | None => None
  end.

(* after staging for side s: the other side, or the transitions *)
Definition stage_next (st : cstate) (l : loopst) (s : side) (pl : plan) (evs : list event)
  : option (cstate * list event) :=
  match s with
  | Alpha => lret (st_with_status st 11) (l_with_p l (LStage Beta 0 pl)) evs
  | Beta => lret (st_with_status st 12)
                 (l_with_p l (LTrans pl (pstat_of (alpha_ch pl)) (pstat_of (beta_ch pl)) true true [] [])) evs
  end.

(* staging: Stage on s (k = 0,1), Supply on the other side (k = 2,3) *)
Definition step_stage (st : cstate) (l : loopst) (s : side) (k : nat) (pl : plan) (a : lact)
  : option (cstate * list event) :=
  match k with
  | 0 =>
    match a with
    | LaEnter s' =>
      if side_eqb s s' && nonempty (ch_of s pl) then lret st (l_with_p l (LStage s 1 pl)) [En s MStage] else None
    | LaTau => stage_next st l s pl []
    | _ => None
    end
  | 1 =>
    match a with
    | LaExit s' r =>
      if side_eqb s s' then
        if r_ok r then lret st (l_with_p l (LStage s 2 pl)) [Ex s MStage true]
        else prepend (Ex s MStage false) (lfail st l)
      else None
    | _ => None
    end
  | 2 =>
    match a with
    | LaEnter s' =>
      if side_eqb (other s) s' then lret st (l_with_p l (LStage s 3 pl)) [En (other s) MSupply] else None
    | LaTau => stage_next st l s pl []
    | LaFail => lfail st l
    | _ => None
    end
  | 3 =>
    match a with
    | LaExit s' r =>
      if side_eqb (other s) s' then
        if r_ok r then stage_next st l s pl [Ex (other s) MSupply true]
        else prepend (Ex (other s) MSupply false) (lfail st l)
      else None
    | _ => None
    end
  | _ => None
  end.

(* the transitions on both endpoints *)
Definition step_trans (st : cstate) (l : loopst) (pl : plan) (ta tb : pstat) (oka okb : bool)
           (cha chb : list change) (a : lact) : option (cstate * list event) :=
  match a with
  | LaEnter Alpha =>
    match ta with
    | PIdle => lret st (l_with_p l (LTrans pl PRun tb oka okb cha chb)) [Tn Alpha (alpha_ch pl)]
    | _ => None
    end
  | LaEnter Beta =>
    match tb with
    | PIdle => lret st (l_with_p l (LTrans pl ta PRun oka okb cha chb)) [Tn Beta (beta_ch pl)]
    | _ => None
    end
  | LaExit Alpha r =>
    match ta with
    | PRun => lret st (l_with_p l (LTrans pl PDone tb (r_ok r) okb (r_changes r) chb)) [Tx Alpha (r_ok r) (r_changes r)]
    | _ => None
    end
  | LaExit Beta r =>
    match tb with
    | PRun => lret st (l_with_p l (LTrans pl ta PDone oka (r_ok r) cha (r_changes r))) [Tx Beta (r_ok r) (r_changes r)]
    | _ => None
    end
  | LaTau =>
    if pdone ta && pdone tb then lret (st_with_status st 13) (l_with_p l (LSave pl oka okb cha chb)) []
    else None
  | _ => None
  end.

(* save the ancestor, then look at the transition errors *)
Definition step_save (st : cstate) (l : loopst) (pl : plan) (oka okb : bool) (cha chb : list change) (a : lact)
  : option (cstate * list event) :=
  match a with
  | LaChoice miss =>
    let changes := anc_changes pl ++ (if oka then cha else []) ++ (if okb then chb else []) in
    let skip := miss && negb (lskip_miss l) in
    let l1 := l_with_skips l (lskip l || skip) (lskip_scan l) skip in
    if nonempty changes then
      match new_ancestor (lanc l) changes with
      | Some a' =>
        let st1 := st_with_arch st (Some a') in
        if oka && okb then lret st1 (l_with_p (l_with_anc l1 a') LRespond) [IWriteArchive false a'; ISaved]
        else prepend (IWriteArchive false a') (lfail st1 (l_with_anc l a'))
      | None => lfail st l
      end
    else if oka && okb then lret st (l_with_p l1 LRespond) [ISaved]
    else lfail st l
  | LaFail => lfail st l
  | _ => None
  end.

(* answer the flush request that triggered the cycle *)
Definition step_respond (st : cstate) (l : loopst) (a : lact) : option (cstate * list event) :=
  match a with
  | LaTau =>
    match lfreq l with
    | Some t => lret (st_with_answered st (t :: answered st)) (l_with_p (l_with_freq l None) LTop) [IFlushAnswered t]
    | None => lret st (l_with_p l LTop) []
    end
  | _ => None
  end.

(* run, after synchronize returned: close synchronizing, shut both endpoints down *)
Definition step_end (st : cstate) (l : loopst) (h : option halt_kind) (k : nat) (a : lact)
  : option (cstate * list event) :=
  match a with
  | LaTau =>
    match k with
    | 0 => lret st (l_with_p (l_with_sync l false (lepoch l)) (LEnd h 1)) [En Alpha MShutdown]
    | 1 => lret st (l_with_p (l_with_conn l false (lcb l)) (LEnd h 2)) [Ex Alpha MShutdown true]
    | 2 => lret st (l_with_p l (LEnd h 3)) [En Beta MShutdown]
    | 3 => lret st (l_with_p (l_with_conn l (lca l) false) (if is_some h then LHalted else LFailed))
                [Ex Beta MShutdown true]
    | _ => None
    end
  | _ => None
  end.

(* run: halted (waits for cancellation only), failed (reconnects) *)
Definition step_after (st : cstate) (l : loopst) (a : lact) : option (cstate * list event) :=
  match lp l with
  | LHalted =>
    match a with
    | LaTau => if lcancel l then lret st (l_with_p l (LExit 0)) [] else None
    | _ => None
    end
  | LFailed =>
    match a with
    | LaTau =>
      if lcancel l then lret (st_with_status st 0) (l_with_p l (LExit 0)) []
      else if lfailed l then lret (st_with_status st 0) (l_with_p l LFailWait) []
      else lret (st_with_status st 0) (l_with_p (l_with_failed l true) LConnA) []
    | _ => None
    end
  | LFailWait =>
    match a with
    | LaTimeout => lret st (l_with_p l LConnA) []
    | LaTau => if lcancel l then lret st (l_with_p l (LExit 0)) [] else None
    | _ => None
    end
  | _ => None
  end.

(* run: the deferred cleanup *)
Definition step_exit (st : cstate) (l : loopst) (k : nat) (a : lact) : option (cstate * list event) :=
  match a with
  | LaTau =>
    match k with
    | 0 => if lca l then lret st (l_with_p l (LExit 1)) [En Alpha MShutdown] else lret st (l_with_p l (LExit 2)) []
    | 1 => lret st (l_with_p (l_with_conn l false (lcb l)) (LExit 2)) [Ex Alpha MShutdown true]
    | 2 => if lcb l then lret st (l_with_p l (LExit 3)) [En Beta MShutdown] else lret st (l_with_p l (LExit 4)) []
    | 3 => lret st (l_with_p (l_with_conn l (lca l) false) (LExit 4)) [Ex Beta MShutdown true]
    | 4 => Some (st_with_loop (st_with_status st 0) None, [ILoopExit (lgen l)])
    | _ => None
    end
  | _ => None
  end.

Definition loop_step (st : cstate) (l : loopst) (a : lact) : option (cstate * list event) :=
  match lp l with
  | LConnA | LConnA2 | LConnChk | LConnB | LConnB2 | LConnEnd | LConnWait => step_conn st l a
  | LSyncInit => step_sync_init st l a
  | LTop => step_top st l a
  | LPoll pa pb trig pevt perr => step_poll st l pa pb trig pevt perr a
  | LScan sa sb ra rb => step_scan st l sa sb ra rb a
  | LRescanWait => step_rescan_wait st l a
  | LReconcile ca cb => step_reconcile st l ca cb a
  | LStage s k pl => step_stage st l s k pl a
  | LTrans pl ta tb oka okb cha chb => step_trans st l pl ta tb oka okb cha chb a
  | LSave pl oka okb cha chb => step_save st l pl oka okb cha chb a
  | LRespond => step_respond st l a
  | LEnd h k => step_end st l h k a
  | LHalted | LFailed | LFailWait => step_after st l a
  | LExit k => step_exit st l k a
  end.

(* ------------------------------------------------------------------ *)
(* thread steps *)

Fixpoint find_thread (t : tid) (ths : list thread) : option thread :=
  match ths with
  | [] => None
  | th :: rest => if Nat.eqb (th_id th) t then Some th else find_thread t rest
  end.

Definition upd_thread (t : tid) (pc : tpc) (th : thread) : thread :=
  if Nat.eqb (th_id th) t then {| th_id := th_id th; th_cmd := th_cmd th; th_pc := pc |} else th.

Definition set_thread (t : tid) (pc : tpc) (ths : list thread) : list thread :=
  map (upd_thread t pc) ths.

Definition remove_thread (t : tid) (ths : list thread) : list thread :=
  filter (fun th => negb (Nat.eqb (th_id th) t)) ths.

Definition goto (st : cstate) (t : tid) (pc : tpc) : cstate :=
  st_with_threads st (set_thread t pc (threads st)).

(* cancel the loop and keep the lock while waiting for done *)
Definition cancel_and_join (st : cstate) (t : tid) (l : loopst) : option (cstate * list event) :=
  Some (goto ((st_with_loop st (Some (l_with_cancel l true)))) t TJoin, [ICancel t]).

(* the mode-specific tail of halt, with no loop running *)
Definition halt_tail (st : cstate) (c : cmd) : cstate * list event :=
  match c with
  | CPause => (st_with_sess st (Some true), [IWriteSession true])
  | CShutdown => (st_with_flags st (created st) (present st) false true, [])
  | CTerminate =>
    (st_with_flags (st_with_arch (st_with_sess st None) None) (created st) false (mgr_up st) true,
     [IRemoveSession; IRemoveArchive])
  | _ => (st, [])
  end.

(* the body of resume once no loop exists: mark unpaused, start connecting *)
Definition resume_tail (st : cstate) (t : tid) : cstate * list event :=
  (goto ((st_with_status (st_with_sess st (Some false)) 4)) t (TConn Alpha true),
   [IWriteSession false]).

(* the lifecycle lock is held by the thread that is inside its critical
   section; acquiring it is possible when no thread is *)
Definition holds_lock (th : thread) : bool :=
  match th_pc th with TJoin | TResetArch | TResetResume | TConn _ _ => true | _ => false end.
Definition locked (st : cstate) : bool := existsb holds_lock (threads st).

Definition is_create (c : cmd) : bool := match c with CCreate _ => true | _ => false end.

Definition is_halt (c : cmd) : bool :=
  match c with CPause | CShutdown | CTerminate => true | _ => false end.

Definition acquire_step (st : cstate) (th : thread) : option (cstate * list event) :=
  let t := th_id th in
  if locked st then None
  else
    match th_cmd th with
    | CCreate paused =>
      if paused then
        Some (goto (st_with_flags (st_with_arch (st_with_sess st (Some true)) (Some None)) true true (mgr_up st) false)
                   t (TRet true),
              [IWriteSession true; IWriteArchive false None])
      else Some (goto (st) t (TConn Alpha true), [])
    | CPause | CShutdown | CTerminate =>
      if disabled st then Some (goto st t (TRet false), [])
      else match loop st with
           | Some l => cancel_and_join st t l
           | None => let '(st1, evs) := halt_tail st (th_cmd th) in Some (goto st1 t (TRet true), evs)
           end
    | CResume =>
      if disabled st then Some (goto st t (TRet false), [])
      else match loop st with
           | Some l =>
             if Nat.leb 6 (status st) then Some (goto st t (TRet true), [])
             else cancel_and_join st t l
           | None => Some (resume_tail st t)
           end
    | CReset =>
      (* reset: "controller disabled" first (since the repair), then running := c.cancel != nil *)
      if cfg_fixed st && disabled st then Some (goto st t (TRet false), [])
      else
      match loop st with
      | Some l =>
        if disabled st then Some (goto st t (TRet false), []) else cancel_and_join st t l
      | None =>
        Some (goto (st_with_arch st (Some None)) t (TRet true), [IWriteArchive true None])
      end
    | CFlush _ =>
      if disabled st then Some (goto st t (TRet false), [])
      else match loop st with
           | Some l =>
             if lsync l then Some (goto st t (TFlushSend (lgen l) (lepoch l)), [])
             else Some (goto st t (TRet false), [])
           | None => Some (goto st t (TRet false), [])
           end
    end.

Definition join_step (st : cstate) (th : thread) : option (cstate * list event) :=
  let t := th_id th in
  match loop st with
  | Some _ => None
  | None =>
    match th_cmd th with
    | CPause | CShutdown | CTerminate =>
      let '(st1, evs) := halt_tail st (th_cmd th) in
      Some (goto (st1) t (TRet true), evs)
    | CResume => Some (resume_tail st t)
    | CReset => Some (goto (st_with_sess st (Some true)) t TResetArch, [IWriteSession true])
    | _ => None
    end
  end.

(* reset, after its inlined halt(Pause): clear the archive, then resume *)
Definition reset_step (st : cstate) (th : thread) : option (cstate * list event) :=
  let t := th_id th in
  match th_pc th with
  | TResetArch => Some (goto (st_with_arch st (Some None)) t TResetResume, [IWriteArchive true None])
  | TResetResume => Some (resume_tail st t)
  | _ => None
  end.

Definition conn_step (st : cstate) (th : thread) (s : side) (aok ok : bool) : option (cstate * list event) :=
  let t := th_id th in
  match s with
  | Alpha =>
    match th_cmd th with
    | CCreate _ =>
      if ok then Some (goto st t (TConn Beta true), [Cn Alpha true])
      else Some (goto (st) t (TRet false), [Cn Alpha false])
    | _ => Some (goto (st_with_status st 5) t (TConn Beta ok), [Cn Alpha ok])
    end
  | Beta =>
    (* the new loop replaces none: whoever connects holds the lifecycle lock
       since the previous loop was joined *)
    match loop st with
    | Some _ => None
    | None =>
      let g := next_gen st in
      match th_cmd th with
      | CCreate _ =>
        if ok then
          let st1 := st_with_flags (st_with_arch (st_with_sess st (Some false)) (Some None)) true true (mgr_up st) false in
          Some (goto (st_with_gen (st_with_loop st1 (Some (new_loop g true true))) (S g)) t (TRet true),
                [Cn Beta true; IWriteSession false; IWriteArchive false None; ILoopStart g])
        else Some (goto st t (TRet false), [Cn Beta false])
      | _ =>
        Some (goto (st_with_gen (st_with_loop st (Some (new_loop g aok ok))) (S g)) t (TRet (aok && ok)),
              [Cn Beta ok; ILoopStart g])
      end
    end
  end.

Definition chan_live (st : cstate) (g : nat) : option loopst :=
  match loop st with
  | Some l => if Nat.eqb (lgen l) g then Some l else None
  | None => None
  end.

(* <-synchronizing or <-done is ready *)
Definition flush_broken (st : cstate) (g e : nat) : bool :=
  match chan_live st g with
  | Some l => negb (lsync l && Nat.eqb (lepoch l) e)
  | None => true
  end.

Definition mem_tid (t : tid) (l : list tid) : bool := existsb (Nat.eqb t) l.

Definition flush_send_step (st : cstate) (th : thread) (g e : nat) (ch : flush_choice)
  : option (cstate * list event) :=
  let t := th_id th in
  match th_cmd th with
  | CFlush wait =>
    match ch with
    | FSend =>
      let after := if wait then TFlushWait g e else TRet true in
      match chan_live st g with
      | Some l =>
        match lslot l with
        | None => Some (goto (st_with_loop st (Some (l_with_slot l (Some t)))) t after, [])
        | Some _ => None
        end
      | None => Some (goto st t after, [])   (* the buffer of a channel nobody reads any more *)
      end
    | FDefault => if wait then None else Some (goto st t (TRet true), [])
    | FFailed => if flush_broken st g e then Some (goto st t (TRet false), []) else None
    | FCtx => if wait then Some (goto st t (TRet false), []) else None
    | FAnswered => None
    end
  | _ => None
  end.

Definition flush_recv_step (st : cstate) (th : thread) (g e : nat) (ch : flush_choice)
  : option (cstate * list event) :=
  let t := th_id th in
  match ch with
  | FAnswered => if mem_tid t (answered st) then Some (goto st t (TRet true), []) else None
  | FFailed => if flush_broken st g e then Some (goto st t (TRet false), []) else None
  | FCtx => Some (goto st t (TRet false), [])
  | _ => None
  end.

Definition step (st : cstate) (a : action) : option (cstate * list event) :=
  match a with
  | ACall t c =>
    (* thread identifiers are fresh. Create is called once; every other
       command needs the session identifier that Create returns, so it can be
       called only after Create has returned *)
    if Nat.leb (tid_bound st) t then
      let st0 := st_with_bound st (S t) in
      match c with
      | CCreate _ =>
        if created st then None
        else Some (st_with_threads (st_with_flags st0 true (present st) (mgr_up st) (disabled st))
                                   ({| th_id := t; th_cmd := c; th_pc := TStart |} :: threads st), [Ca t c])
      | _ =>
        if created st && negb (existsb (fun th => is_create (th_cmd th)) (threads st)) then
          Some (st_with_threads st0 ({| th_id := t; th_cmd := c; th_pc := TCalled |} :: threads st), [Ca t c])
        else None
      end
    else None
  | ASelect t =>
    match find_thread t (threads st) with
    | Some th =>
      match th_pc th with
      | TCalled =>
        if present st then Some (goto st t TStart, [])
        else match th_cmd th with
             | CShutdown => Some (goto (st_with_flags st (created st) (present st) false (disabled st)) t (TRet true), [])
             | _ => Some (goto st t (TRet false), [])
             end
      | _ => None
      end
    | None => None
    end
  | AAcquire t =>
    match find_thread t (threads st) with
    | Some th => match th_pc th with TStart => acquire_step st th | _ => None end
    | None => None
    end
  | AJoin t =>
    match find_thread t (threads st) with
    | Some th => match th_pc th with TJoin => join_step st th | _ => None end
    | None => None
    end
  | AResetStep t =>
    match find_thread t (threads st) with
    | Some th => reset_step st th
    | None => None
    end
  | AConn t ok =>
    match find_thread t (threads st) with
    | Some th => match th_pc th with TConn s aok => conn_step st th s aok ok | _ => None end
    | None => None
    end
  | AFlushSend t ch =>
    match find_thread t (threads st) with
    | Some th => match th_pc th with TFlushSend g e => flush_send_step st th g e ch | _ => None end
    | None => None
    end
  | AFlushRecv t ch =>
    match find_thread t (threads st) with
    | Some th => match th_pc th with TFlushWait g e => flush_recv_step st th g e ch | _ => None end
    | None => None
    end
  | AReturn t =>
    match find_thread t (threads st) with
    | Some th =>
      match th_pc th with
      | TRet ok =>
        let ok' := match th_cmd th with CShutdown => true | _ => ok end in
        Some (st_with_threads st (remove_thread t (threads st)), [Rt t (th_cmd th) ok'])
      | _ => None
      end
    | None => None
    end
  | AObserveS => Some (st, [ObS true (sess_file st)])
  | AObserveA => Some (st, [ObA true (arch_file st) (arch_ver st)])
  | AObserveT => Some (st, [ObT true (if mgr_up st && present st then Some (status st) else None)])
  | AEdit s k => Some (st, [Ed s k])
  | ANewManager =>
    match threads st with
    | [] =>
      if mgr_up st || is_some (loop st) then None
      else match sess_file st with
           | Some p =>
             let g := next_gen st in
             let st1 := st_with_status (st_with_flags st (created st) true true false) 0 in
             if p then Some (st_with_loop st1 None, [Nm true])
             else Some (st_with_gen (st_with_loop st1 (Some (new_loop g false false))) (S g), [Nm true; ILoopStart g])
           | None => Some (st_with_loop (st_with_flags st (created st) false true (disabled st)) None, [Nm false])
           end
    | _ => None
    end
  | ALoop la =>
    match loop st with
    | Some l => loop_step st l la
    | None => None
    end
  end.

(* an execution: the trace of a schedule (None = some action was not enabled) *)
Fixpoint run (st : cstate) (sched : list action) : option (cstate * list event) :=
  match sched with
  | [] => Some (st, [])
  | a :: rest =>
    match step st a with
    | None => None
    | Some (st1, evs) =>
      match run st1 rest with
      | None => None
      | Some (st2, tr) => Some (st2, evs ++ tr)
      end
    end
  end.
