(* Checkers for C29 and C11 on histories of observable events (definitions
   only). Each checker is a monitor: a small state folded over the event list;
   [None] is a violation. They are applied to the histories recorded from the
   real synchronization.Manager (verdict bit 2) and, in Proof/Controller.v, shown
   to accept every trace of the model (Model/Controller.v) under every schedule.

   Interval discipline: a command is "active" from its call record to its
   return record; its effect may take place anywhere in between. A monitor
   only draws a conclusion from a command's return when no command that could
   undo the effect was active at any time during the interval, and drops the
   conclusion as soon as such a command is called. Hence an event inside a
   command's interval is never evidence against it, and no timing is assumed. *)
From Coq Require Import List Bool Arith String.
Import ListNotations.
From Mv Require Import Model.Entry Model.Reconcile Model.Safety Model.Controller.
Local Open Scope list_scope.

(* ---------- active commands ---------- *)
Definition active := list (tid * cmd).

Definition act_remove (t : tid) (a : active) : active :=
  filter (fun tc => negb (Nat.eqb (fst tc) t)) a.

Definition act_step (a : active) (e : event) : active :=
  match e with
  | Ca t c => (t, c) :: a
  | Rt t _ _ => act_remove t a
  | _ => a
  end.

Definition is_resume (c : cmd) : bool := match c with CResume => true | _ => false end.
Definition is_reset (c : cmd) : bool := match c with CReset => true | _ => false end.
Definition is_pause (c : cmd) : bool := match c with CPause | CCreate true => true | _ => false end.
Definition is_terminate (c : cmd) : bool := match c with CTerminate => true | _ => false end.
Definition is_wait_flush (c : cmd) : bool := match c with CFlush true => true | _ => false end.
(* commands that change the lifecycle of the loop or the archive *)
Definition is_lifecycle (c : cmd) : bool :=
  match c with CFlush _ => false | _ => true end.

Definition any_active (p : cmd -> bool) (a : active) : bool := existsb (fun tc => p (snd tc)) a.

(* endpoint activity: Connect, and every endpoint method entry/exit *)
Definition is_endpoint (e : event) : bool :=
  match e with
  | Cn _ _ | En _ _ | Ex _ _ _ | Sn _ _ _ | Sx _ _ _ _ | Tn _ _ | Tx _ _ _ => true
  | _ => false
  end.

(* calls that change an endpoint's root or staging area *)
Definition is_mutating (e : event) : bool :=
  match e with
  | En _ MStage | En _ MSupply | Tn _ _ => true
  | _ => false
  end.

(* dirty flags of tracked commands: (tid, dirty) *)
Definition flags := list (tid * bool).
Definition set_all_dirty (f : flags) : flags := map (fun tb => (fst tb, true)) f.
Fixpoint flag_of (t : tid) (f : flags) : option bool :=
  match f with
  | [] => None
  | (t', b) :: rest => if Nat.eqb t' t then Some b else flag_of t rest
  end.
Definition flag_remove (t : tid) (f : flags) : flags :=
  filter (fun tb => negb (Nat.eqb (fst tb) t)) f.

(* ------------------------------------------------------------------ *)
(* C29 (1): after Pause returns nothing touches the endpoints until Resume;
   the paused flag persists, also across a manager restart.

   quiet is set when a Pause (or a Create with paused = true) returns nil and no
   Resume was active at any time during its interval; it is dropped when a
   Resume is called. While quiet: no endpoint event, and the persisted session
   never shows Paused = false. A restart (Nm) keeps quiet. *)
Record pmon := { p_act : active; p_quiet : bool; p_pauses : flags }.

Definition pmon_init : pmon := {| p_act := []; p_quiet := false; p_pauses := [] |}.

Definition pmon_step (m : pmon) (e : event) : option pmon :=
  let a' := act_step (p_act m) e in
  match e with
  | Ca t c =>
    if is_resume c then
      Some {| p_act := a'; p_quiet := false; p_pauses := set_all_dirty (p_pauses m) |}
    else if is_pause c then
      Some {| p_act := a'; p_quiet := p_quiet m;
              p_pauses := (t, any_active is_resume (p_act m)) :: p_pauses m |}
    else Some {| p_act := a'; p_quiet := p_quiet m; p_pauses := p_pauses m |}
  | Rt t c ok =>
    if is_pause c then
      let q := match flag_of t (p_pauses m) with
               | Some false => ok || p_quiet m
               | _ => p_quiet m
               end in
      Some {| p_act := a'; p_quiet := q; p_pauses := flag_remove t (p_pauses m) |}
    else Some {| p_act := a'; p_quiet := p_quiet m; p_pauses := p_pauses m |}
  | ObS true (Some false) =>
    if p_quiet m then None else Some {| p_act := a'; p_quiet := p_quiet m; p_pauses := p_pauses m |}
  | _ =>
    if is_endpoint e && p_quiet m then None
    else Some {| p_act := a'; p_quiet := p_quiet m; p_pauses := p_pauses m |}
  end.

(* ------------------------------------------------------------------ *)
(* C29 (2): after Terminate returns nil the session file is absent, nothing
   touches the endpoints again, commands called afterwards fail, a new manager
   does not load the session; the archive file is absent as well.

   strict = false tolerates the one known class: an archive file present
   after a Terminate whose interval overlapped a Reset's interval
   (controller.reset writes the archive without looking at c.disabled). *)
Record tmon := { t_act : active; t_term : bool; t_arch_unknown : bool; t_terms : flags; t_late : list tid }.

Definition tmon_init : tmon :=
  {| t_act := []; t_term := false; t_arch_unknown := false; t_terms := []; t_late := [] |}.

Definition tmon_step (strict : bool) (m : tmon) (e : event) : option tmon :=
  let a' := act_step (t_act m) e in
  let keep := Some {| t_act := a'; t_term := t_term m; t_arch_unknown := t_arch_unknown m;
                      t_terms := t_terms m; t_late := t_late m |} in
  match e with
  | Ca t c =>
    let terms1 := if is_reset c then set_all_dirty (t_terms m) else t_terms m in
    let terms2 := if is_terminate c then (t, any_active is_reset (t_act m)) :: terms1 else terms1 in
    let late := if t_term m then match c with CShutdown => t_late m | _ => t :: t_late m end else t_late m in
    Some {| t_act := a'; t_term := t_term m; t_arch_unknown := t_arch_unknown m; t_terms := terms2; t_late := late |}
  | Rt t c ok =>
    if ok && mem_tid t (t_late m) then None
    else if is_terminate c then
      let d := match flag_of t (t_terms m) with Some b => b | None => true end in
      Some {| t_act := a'; t_term := t_term m || ok;
              t_arch_unknown := t_arch_unknown m || (ok && d);
              t_terms := flag_remove t (t_terms m); t_late := t_late m |}
    else keep
  | ObS true (Some _) => if t_term m then None else keep
  | ObA true (Some _) _ =>
    if t_term m && (strict || negb (t_arch_unknown m)) then None else keep
  | Nm true => if t_term m then None else keep
  | _ => if is_endpoint e && t_term m then None else keep
  end.

(* the known class as a predicate on the history: some Terminate returned nil
   after an interval that overlapped a Reset's *)
Fixpoint tmon_run (strict : bool) (m : tmon) (evs : list event) : option tmon :=
  match evs with
  | [] => Some m
  | e :: rest => match tmon_step strict m e with
                 | Some m' => tmon_run strict m' rest
                 | None => None
                 end
  end.

(* ------------------------------------------------------------------ *)
(* C29 (3): Flush(wait) returns nil only after a full scan of both endpoints
   that was requested after the call has returned successfully. Per active
   waiting flush: full scan entered on alpha / beta after the call, and
   completed. *)
Record fentry := { f_tid : tid; f_ea : bool; f_eb : bool; f_xa : bool; f_xb : bool }.
Definition fmon := list fentry.

Definition f_on_enter (s : side) (x : fentry) : fentry :=
  match s with
  | Alpha => {| f_tid := f_tid x; f_ea := true; f_eb := f_eb x; f_xa := f_xa x; f_xb := f_xb x |}
  | Beta => {| f_tid := f_tid x; f_ea := f_ea x; f_eb := true; f_xa := f_xa x; f_xb := f_xb x |}
  end.
Definition f_on_exit (s : side) (x : fentry) : fentry :=
  match s with
  | Alpha => {| f_tid := f_tid x; f_ea := f_ea x; f_eb := f_eb x; f_xa := f_xa x || f_ea x; f_xb := f_xb x |}
  | Beta => {| f_tid := f_tid x; f_ea := f_ea x; f_eb := f_eb x; f_xa := f_xa x; f_xb := f_xb x || f_eb x |}
  end.
Fixpoint f_find (t : tid) (m : fmon) : option fentry :=
  match m with
  | [] => None
  | x :: rest => if Nat.eqb (f_tid x) t then Some x else f_find t rest
  end.
Definition f_remove (t : tid) (m : fmon) : fmon :=
  filter (fun x => negb (Nat.eqb (f_tid x) t)) m.
Definition f_complete (x : fentry) : bool := f_ea x && f_eb x && f_xa x && f_xb x.

Definition fmon_step (m : fmon) (e : event) : option fmon :=
  match e with
  | Ca t (CFlush true) => Some ({| f_tid := t; f_ea := false; f_eb := false; f_xa := false; f_xb := false |} :: m)
  | Sn s true _ => Some (map (f_on_enter s) m)
  | Sx s true _ _ => Some (map (f_on_exit s) m)
  | Rt t (CFlush true) ok =>
    if ok then
      match f_find t m with
      | Some x => if f_complete x then Some (f_remove t m) else None
      | None => None
      end
    else Some (f_remove t m)
  | _ => Some m
  end.

(* C29 (3b): the cycle that answered the flush reached the save step before
   the answer. Observable form: when Flush(wait) returns nil, no lifecycle
   command is active and exactly one scan per side was entered since its call,
   the identity of the archive file does not change any more until the next
   scan is entered or a lifecycle command is called. *)
Record smon := {
  s_act : active;
  s_counts : list (tid * (nat * nat));   (* scans entered since the call, per waiting flush *)
  s_anchor : option (option nat)          (* anchored; the stamp seen since *)
}.
Definition smon_init : smon := {| s_act := []; s_counts := []; s_anchor := None |}.

Fixpoint cnt_of (t : tid) (l : list (tid * (nat * nat))) : option (nat * nat) :=
  match l with
  | [] => None
  | (t', c) :: rest => if Nat.eqb t' t then Some c else cnt_of t rest
  end.
Definition cnt_remove (t : tid) (l : list (tid * (nat * nat))) : list (tid * (nat * nat)) :=
  filter (fun tc => negb (Nat.eqb (fst tc) t)) l.
Definition cnt_bump (s : side) (l : list (tid * (nat * nat))) : list (tid * (nat * nat)) :=
  map (fun tc => match s with
                 | Alpha => (fst tc, (S (fst (snd tc)), snd (snd tc)))
                 | Beta => (fst tc, (fst (snd tc), S (snd (snd tc))))
                 end) l.

Definition smon_step (m : smon) (e : event) : option smon :=
  let a' := act_step (s_act m) e in
  match e with
  | Ca t c =>
    Some {| s_act := a';
            s_counts := if is_wait_flush c then (t, (0, 0)) :: s_counts m else s_counts m;
            s_anchor := if is_lifecycle c then None else s_anchor m |}
  | Rt t c ok =>
    if is_wait_flush c then
      let anchor :=
        if ok && negb (any_active is_lifecycle (s_act m)) then
          match cnt_of t (s_counts m) with
          | Some (1, 1) => Some None
          | _ => s_anchor m
          end
        else s_anchor m in
      Some {| s_act := a'; s_counts := cnt_remove t (s_counts m); s_anchor := anchor |}
    else Some {| s_act := a'; s_counts := s_counts m; s_anchor := s_anchor m |}
  | Sn s _ _ => Some {| s_act := a'; s_counts := cnt_bump s (s_counts m); s_anchor := None |}
  | Nm _ => Some {| s_act := a'; s_counts := s_counts m; s_anchor := None |}
  | ObA _ _ stamp =>
    (* the identity of the file is evidence also when the read raced with other
       journal records: it was read after the flush returned, and a scan or
       lifecycle call recorded before it has dropped the anchor already *)
    match s_anchor m with
    | Some None => Some {| s_act := a'; s_counts := s_counts m; s_anchor := Some (Some stamp) |}
    | Some (Some s0) => if Nat.eqb s0 stamp then Some m else None
    | None => Some m
    end
  | _ => Some {| s_act := a'; s_counts := s_counts m; s_anchor := s_anchor m |}
  end.

(* ------------------------------------------------------------------ *)
(* C29 (3c): the cycle that answers a waiting flush completed: when
   Flush(wait) returns nil, the Transition calls of the cycle whose full scans
   satisfied (3) have all returned, and none of them returned an error (the
   loop returns the error of a failed Transition call from the cycle before
   it answers the request). Per active waiting flush: the scan flags of (3);
   the "window" of the candidate cycle runs from the completion of those
   flags to the next scan entered (x_sealed: that next scan was seen, the
   window is over); inside the window a Transition call that is entered must
   return (x_oa, x_ob: entered and not yet returned), and one that returns an
   error discards the candidate: new full scans are required. *)
Record xentry := { x_f : fentry; x_sealed : bool; x_oa : bool; x_ob : bool }.
Definition xmon := list xentry.

Definition x_tid (x : xentry) : tid := f_tid (x_f x).
Definition x_fresh (t : tid) : xentry :=
  {| x_f := {| f_tid := t; f_ea := false; f_eb := false; f_xa := false; f_xb := false |};
     x_sealed := false; x_oa := false; x_ob := false |}.
Definition x_window (x : xentry) : bool := f_complete (x_f x) && negb (x_sealed x).
Definition x_set_open (s : side) (b : bool) (x : xentry) : xentry :=
  match s with
  | Alpha => {| x_f := x_f x; x_sealed := x_sealed x; x_oa := b; x_ob := x_ob x |}
  | Beta => {| x_f := x_f x; x_sealed := x_sealed x; x_oa := x_oa x; x_ob := b |}
  end.

Definition x_step (e : event) (x : xentry) : xentry :=
  match e with
  | Sn s full _ =>
    {| x_f := if full then f_on_enter s (x_f x) else x_f x;
       x_sealed := x_sealed x || f_complete (x_f x); x_oa := x_oa x; x_ob := x_ob x |}
  | Sx s true _ _ => {| x_f := f_on_exit s (x_f x); x_sealed := x_sealed x; x_oa := x_oa x; x_ob := x_ob x |}
  | Tn s _ => if x_window x then x_set_open s true x else x
  | Tx s ok _ => if x_window x then (if ok then x_set_open s false x else x_fresh (x_tid x)) else x
  | _ => x
  end.

Fixpoint x_find (t : tid) (m : xmon) : option xentry :=
  match m with
  | [] => None
  | x :: rest => if Nat.eqb (x_tid x) t then Some x else x_find t rest
  end.
Definition x_remove (t : tid) (m : xmon) : xmon := filter (fun x => negb (Nat.eqb (x_tid x) t)) m.
Definition x_done (x : xentry) : bool := f_complete (x_f x) && negb (x_oa x) && negb (x_ob x).

Definition xmon_step (m : xmon) (e : event) : option xmon :=
  match e with
  | Ca t (CFlush true) => Some (x_fresh t :: m)
  | Rt t (CFlush true) ok =>
    if ok then
      match x_find t m with
      | Some x => if x_done x then Some (x_remove t m) else None
      | None => None
      end
    else Some (x_remove t m)
  | Ca _ _ | Rt _ _ _ => Some m
  | _ => Some (map (x_step e) m)
  end.

(* ------------------------------------------------------------------ *)
(* C29 (4): Reset clears the history while no loop runs. Observable form: when
   a Reset that overlapped no other lifecycle command returns nil and no scan
   was entered during its interval, the archive file holds the empty archive
   until a scan is entered, and the next scan on each side is given the empty
   ancestor (the loop restarted by the Reset read the emptied archive and no
   earlier loop is left to overwrite it) -- until a lifecycle command is
   called.

   r_cur: the tracked Reset (tid, undisturbed so far, a scan was entered).
   r_armed: Some (pa, pb): scans still owed an empty ancestor on alpha / beta.
   r_fresh: the archive must still be the empty one (no scan entered since). *)
Record rmon := {
  r_act : active;
  r_cur : option (tid * (bool * bool));
  r_armed : option (bool * bool);
  r_fresh : bool
}.
Definition rmon_init : rmon := {| r_act := []; r_cur := None; r_armed := None; r_fresh := false |}.

Definition is_none_entry (e : oentry) : bool := match e with None => true | Some _ => false end.

Definition rmon_step (m : rmon) (e : event) : option rmon :=
  let a' := act_step (r_act m) e in
  match e with
  | Ca t c =>
    if is_lifecycle c then
      let cur := if is_reset c && negb (any_active is_lifecycle (r_act m)) then Some (t, (true, false)) else
                 match r_cur m with Some (t0, (_, sn)) => Some (t0, (false, sn)) | None => None end in
      Some {| r_act := a'; r_cur := cur; r_armed := None; r_fresh := false |}
    else Some {| r_act := a'; r_cur := r_cur m; r_armed := r_armed m; r_fresh := r_fresh m |}
  | Rt t c ok =>
    match r_cur m with
    | Some (t0, (good, sn)) =>
      if Nat.eqb t0 t then
        if good && ok && negb sn then
          Some {| r_act := a'; r_cur := None; r_armed := Some (true, true); r_fresh := true |}
        else Some {| r_act := a'; r_cur := None; r_armed := None; r_fresh := false |}
      else Some {| r_act := a'; r_cur := r_cur m; r_armed := r_armed m; r_fresh := r_fresh m |}
    | None => Some {| r_act := a'; r_cur := r_cur m; r_armed := r_armed m; r_fresh := r_fresh m |}
    end
  | Sn s _ anc =>
    let cur := match r_cur m with Some (t0, (good, _)) => Some (t0, (good, true)) | None => None end in
    match r_armed m with
    | Some (pa, pb) =>
      let owed := match s with Alpha => pa | Beta => pb end in
      if owed && negb (is_none_entry anc) then None
      else
        let pa' := match s with Alpha => false | Beta => pa end in
        let pb' := match s with Alpha => pb | Beta => false end in
        Some {| r_act := a'; r_cur := cur;
                r_armed := if pa' || pb' then Some (pa', pb') else None; r_fresh := false |}
    | None => Some {| r_act := a'; r_cur := cur; r_armed := None; r_fresh := false |}
    end
  | Nm _ => Some {| r_act := a'; r_cur := None; r_armed := None; r_fresh := false |}
  | ObA true arch _ =>
    if r_fresh m then
      match arch with
      | Some None => Some m
      | _ => None
      end
    else Some m
  | _ => Some {| r_act := a'; r_cur := r_cur m; r_armed := r_armed m; r_fresh := r_fresh m |}
  end.

(* ------------------------------------------------------------------ *)
(* C11: a cycle whose scans show a deleted root, a root of another kind or a
   one-sided emptying halts the session: no staging, supplying or transition
   call follows, the loop does nothing but shut its endpoints down, and the
   status is the corresponding Halted status, until a lifecycle command is
   called.

   The monitor pairs the scan results of a cycle (the ancestor given to Scan
   and the two returned contents), evaluates the model's safety verdict on
   them, and when it says "halt" while no lifecycle command is active expects
   the halted behaviour. *)
Inductive sst := SIdle | SEnt | SOk (c : oentry) | SErr.
Definition sst_exited (x : sst) : bool := match x with SOk _ | SErr => true | _ => false end.

Record hmon := {
  h_act : active;
  h_anc : oentry;                 (* ancestor given to the scans of the cycle in progress *)
  h_ra : sst;                     (* alpha's scan in the cycle in progress *)
  h_rb : sst;
  h_halt : option (halt_kind * nat)   (* expecting the halted behaviour; shutdown exits seen *)
}.
Definition hmon_init : hmon := {| h_act := []; h_anc := None; h_ra := SIdle; h_rb := SIdle; h_halt := None |}.

Definition hmon_step (md : mode) (m : hmon) (e : event) : option hmon :=
  let a' := act_step (h_act m) e in
  let keep := Some {| h_act := a'; h_anc := h_anc m; h_ra := h_ra m; h_rb := h_rb m; h_halt := h_halt m |} in
  match h_halt m with
  | Some (k, shut) =>
    match e with
    | Ca _ c =>
      if is_lifecycle c then Some {| h_act := a'; h_anc := None; h_ra := SIdle; h_rb := SIdle; h_halt := None |}
      else keep
    | Nm _ => Some {| h_act := a'; h_anc := None; h_ra := SIdle; h_rb := SIdle; h_halt := None |}
    | En _ MShutdown => keep
    | Ex _ MShutdown _ =>
      Some {| h_act := a'; h_anc := h_anc m; h_ra := h_ra m; h_rb := h_rb m; h_halt := Some (k, S shut) |}
    | ObT true (Some st) =>
      if Nat.leb 2 shut && negb (Nat.eqb st (halt_status k)) then None else keep
    | _ => if is_endpoint e then None else keep
    end
  | None =>
    match e with
    | Sn s _ anc =>
      Some {| h_act := a'; h_anc := anc;
              h_ra := match s with Alpha => SEnt | Beta => h_ra m end;
              h_rb := match s with Alpha => h_rb m | Beta => SEnt end; h_halt := None |}
    | Sx s ok _ content =>
      let r := if ok then SOk content else SErr in
      let ra := match s with Alpha => r | Beta => h_ra m end in
      let rb := match s with Alpha => h_rb m | Beta => r end in
      if sst_exited ra && sst_exited rb then
        (* the cycle's scans are complete: both sides start afresh *)
        let halt :=
          match ra, rb with
          | SOk ca, SOk cb =>
            match safety_verdict md (h_anc m) ca cb with
            | Some k => if any_active is_lifecycle (h_act m) then None else Some (k, 0)
            | None => None
            end
          | _, _ => None
          end in
        Some {| h_act := a'; h_anc := h_anc m; h_ra := SIdle; h_rb := SIdle; h_halt := halt |}
      else Some {| h_act := a'; h_anc := h_anc m; h_ra := ra; h_rb := rb; h_halt := None |}
    | _ => keep
    end
  end.

(* ------------------------------------------------------------------ *)
(* running the monitors *)
Fixpoint mon_run {M : Type} (step : M -> event -> option M) (m : M) (evs : list event) : option M :=
  match evs with
  | [] => Some m
  | e :: rest => match step m e with
                 | Some m' => mon_run step m' rest
                 | None => None
                 end
  end.

Definition accepts {M : Type} (step : M -> event -> option M) (m : M) (evs : list event) : bool :=
  match mon_run step m evs with Some _ => true | None => false end.

Definition check_pause (evs : list event) : bool := accepts pmon_step pmon_init evs.
Definition check_terminate (strict : bool) (evs : list event) : bool := accepts (tmon_step strict) tmon_init evs.
Definition check_flush (evs : list event) : bool := accepts fmon_step [] evs.
Definition check_saved (evs : list event) : bool := accepts smon_step smon_init evs.
Definition check_flushtx (evs : list event) : bool := accepts xmon_step [] evs.
Definition check_reset (evs : list event) : bool := accepts rmon_step rmon_init evs.
Definition check_halt (md : mode) (evs : list event) : bool := accepts (hmon_step md) hmon_init evs.

(* C29: all six; the known class is "only the strict form of the terminate
   monitor rejects" *)
Definition check_c29_events (md : mode) (evs : list event) : bool :=
  check_pause evs && check_terminate true evs && check_flush evs && check_saved evs && check_reset evs
  && check_flushtx evs.
Definition check_c29_lenient (md : mode) (evs : list event) : bool :=
  check_pause evs && check_terminate false evs && check_flush evs && check_saved evs && check_reset evs
  && check_flushtx evs.
Definition known_c29_events (md : mode) (evs : list event) : bool :=
  negb (check_terminate true evs) && check_c29_lenient md evs.

Definition check_c11_events (md : mode) (evs : list event) : bool := check_halt md evs.
