(* Model of pkg/daemon/lock.go (AcquireLock, Release) over
   pkg/filesystem/locking/locker.go and locker_posix.go (Locker: held flag,
   Lock(block=false), Unlock, Close), on top of an ASSUMED operating-system
   lock table with the POSIX fcntl rules.  Definitions only.

   Assumed, not proved (this is what makes C28 partial): [os_setlk] and
   [os_drop] below ARE the semantics of fcntl(F_SETLK) with a whole-file
   F_WRLCK: exclusive across processes, granted again to the process that
   already has it, dropped by F_UNLCK, by closing ANY descriptor of the file in
   that process, and by process exit, SIGKILL included.

   Three layers:
   1. Locker and daemon.Lock operations as functions on (table, locker).
   2. A fine-grained transition system of n processes that loop
      acquire -> witness "ok" -> hold -> witness "release" -> release, each
      lock operation and each witness record being a separate atomic step, with
      a parent that may SIGKILL any child at any point; every schedule of
      these steps is a run, and each run produces the witness log.
   3. The checker for an observed witness log. *)
From Coq Require Import List Arith Bool.
Import ListNotations.

Definition pid := nat.

(* ------------------------------------------------------------------ *)
(* 0. the assumed OS lock table for the daemon lock file *)

Definition table := option pid.   (* which process has the write lock *)

Definition os_setlk (t : table) (p : pid) : table * bool :=
  match t with
  | None => (Some p, true)
  | Some q => if Nat.eqb p q then (Some p, true) else (t, false)   (* EAGAIN *)
  end.

Definition os_drop (t : table) (p : pid) : table :=
  match t with
  | Some q => if Nat.eqb p q then None else t
  | None => None
  end.

(* ------------------------------------------------------------------ *)
(* 1. locking.Locker and daemon.Lock *)

Inductive lerr := ENone | EAgain | EHeld | ENotHeld | EBadF.

Record locker := { l_open : bool; l_held : bool }.

(* NewLocker: the file is opened, the lock is not held *)
Definition lk_new : locker := {| l_open := true; l_held := false |}.

(* Locker.Lock(false) *)
Definition lk_lock (t : table) (p : pid) (l : locker) : table * locker * lerr :=
  if l_held l then (t, l, EHeld)                       (* "lock already held" *)
  else if negb (l_open l) then (t, l, EBadF)
  else match os_setlk t p with
       | (t', true) => (t', {| l_open := l_open l; l_held := true |}, ENone)
       | (t', false) => (t', l, EAgain)
       end.

(* Locker.Unlock *)
Definition lk_unlock (t : table) (p : pid) (l : locker) : table * locker * lerr :=
  if negb (l_held l) then (t, l, ENotHeld)              (* "lock not held" *)
  else if negb (l_open l) then (t, l, EBadF)
  else (os_drop t p, {| l_open := l_open l; l_held := false |}, ENone).

(* Locker.Close: closing the descriptor drops the process's lock *)
Definition lk_close (t : table) (p : pid) (l : locker) : table * locker :=
  if l_open l then (os_drop t p, {| l_open := false; l_held := l_held l |}) else (t, l).

(* daemon.AcquireLock: NewLocker; Lock(false); on failure Close *)
Definition acquire_lock (t : table) (p : pid) : table * option locker * lerr :=
  match lk_lock t p lk_new with
  | (t', l', ENone) => (t', Some l', ENone)
  | (t', l', e) => (fst (lk_close t' p l'), None, e)
  end.

(* Lock.Release: Unlock (on error Close and return it); Close *)
Definition release_lock (t : table) (p : pid) (l : locker) : table * locker * lerr :=
  match lk_unlock t p l with
  | (t', l', ENone) => let '(t'', l'') := lk_close t' p l' in (t'', l'', ENone)
  | (t', l', e) => let '(t'', l'') := lk_close t' p l' in (t'', l'', e)
  end.

(* ------------------------------------------------------------------ *)
(* 2. n processes, a parent that kills, and the witness log *)

Inductive kind :=
| KDaemon    (* daemon.AcquireLock / Release every round *)
| KLocker.   (* one locking.Locker for the process's life: Lock / Unlock *)

Inductive pc :=
| Idle              (* no operation in progress, not holding *)
| Trying            (* "acquire call" written; the lock operation not done yet *)
| Got               (* lock operation succeeded; not yet written *)
| Failed (e : lerr) (* lock operation failed; not yet written *)
| Holding           (* "acquire ok" written *)
| Releasing         (* "release call" written; not yet released *)
| Released          (* released; "release ret" not yet written *)
| Dead.

Record pst := {
  p_kind : kind;
  p_pc : pc;
  p_lk : locker;      (* the Locker in use (for KDaemon: the one of the current daemon.Lock) *)
  p_nfd : nat;        (* open descriptors of the lock file *)
  p_kcall : bool;     (* the parent has written "kill call" for it *)
  p_dlog : bool }.    (* the parent has written "dead" for it *)

Definition pst0 (k : kind) : pst :=
  match k with
  | KDaemon => {| p_kind := k; p_pc := Idle; p_lk := {| l_open := false; l_held := false |};
                  p_nfd := 0; p_kcall := false; p_dlog := false |}
  | KLocker => {| p_kind := k; p_pc := Idle; p_lk := lk_new;
                  p_nfd := 1; p_kcall := false; p_dlog := false |}
  end.

Inductive lrec :=
| LAcqCall | LAcqOk | LAcqFail (e : lerr)
| LRelCall | LRelRet (nfd : nat)
| LKillCall | LDead.

Definition wlog := list (pid * lrec).

Record sys := { tbl : table; procs : list pst; wl : wlog (* newest first *) }.

Definition sys0 (ks : list kind) : sys := {| tbl := None; procs := map pst0 ks; wl := [] |}.

Definition dflt : pst :=
  {| p_kind := KDaemon; p_pc := Dead; p_lk := {| l_open := false; l_held := false |};
     p_nfd := 0; p_kcall := true; p_dlog := true |}.

Definition getp (s : sys) (p : pid) : pst := nth p (procs s) dflt.

Fixpoint upd {A} (l : list A) (i : nat) (x : A) : list A :=
  match l, i with
  | [], _ => []
  | _ :: t, O => x :: t
  | h :: t, S i' => h :: upd t i' x
  end.

Definition set_pc (q : pst) (c : pc) : pst :=
  {| p_kind := p_kind q; p_pc := c; p_lk := p_lk q; p_nfd := p_nfd q;
     p_kcall := p_kcall q; p_dlog := p_dlog q |}.

Inductive label :=
| SLog (p : pid)        (* process p writes its next witness record *)
| SEff (p : pid)        (* process p performs its pending lock operation *)
| SKillCall (p : pid)   (* the parent writes "kill call p" (then sends SIGKILL) *)
| SKill (p : pid)       (* the SIGKILL takes effect: p is gone, its locks dropped *)
| SDeadLog (p : pid).   (* the parent has reaped p and writes "dead p" *)

Definition put (s : sys) (p : pid) (q : pst) (t : table) (w : wlog) : sys :=
  {| tbl := t; procs := upd (procs s) p q; wl := w |}.

Definition step (s : sys) (a : label) : option sys :=
  match a with
  | SLog p =>
      if length (procs s) <=? p then None else
      let q := getp s p in
      match p_pc q with
      | Idle => Some (put s p (set_pc q Trying) (tbl s) ((p, LAcqCall) :: wl s))
      | Got => Some (put s p (set_pc q Holding) (tbl s) ((p, LAcqOk) :: wl s))
      | Failed e => Some (put s p (set_pc q Idle) (tbl s) ((p, LAcqFail e) :: wl s))
      | Holding => Some (put s p (set_pc q Releasing) (tbl s) ((p, LRelCall) :: wl s))
      | Released => Some (put s p (set_pc q Idle) (tbl s) ((p, LRelRet (p_nfd q)) :: wl s))
      | _ => None
      end
  | SEff p =>
      if length (procs s) <=? p then None else
      let q := getp s p in
      match p_pc q, p_kind q with
      | Trying, KDaemon =>
          match acquire_lock (tbl s) p with
          | (t', Some l', _) =>
              Some (put s p {| p_kind := KDaemon; p_pc := Got; p_lk := l'; p_nfd := S (p_nfd q);
                               p_kcall := p_kcall q; p_dlog := p_dlog q |} t' (wl s))
          | (t', None, e) =>
              (* opened by NewLocker, closed again on the failure path *)
              Some (put s p (set_pc q (Failed e)) t' (wl s))
          end
      | Trying, KLocker =>
          match lk_lock (tbl s) p (p_lk q) with
          | (t', l', ENone) =>
              Some (put s p {| p_kind := KLocker; p_pc := Got; p_lk := l'; p_nfd := p_nfd q;
                               p_kcall := p_kcall q; p_dlog := p_dlog q |} t' (wl s))
          | (t', l', e) =>
              Some (put s p {| p_kind := KLocker; p_pc := Failed e; p_lk := l'; p_nfd := p_nfd q;
                               p_kcall := p_kcall q; p_dlog := p_dlog q |} t' (wl s))
          end
      | Releasing, KDaemon =>
          let '(t', l', _) := release_lock (tbl s) p (p_lk q) in
          Some (put s p {| p_kind := KDaemon; p_pc := Released; p_lk := l';
                           p_nfd := if l_open l' then p_nfd q else pred (p_nfd q);
                           p_kcall := p_kcall q; p_dlog := p_dlog q |} t' (wl s))
      | Releasing, KLocker =>
          let '(t', l', _) := lk_unlock (tbl s) p (p_lk q) in
          Some (put s p {| p_kind := KLocker; p_pc := Released; p_lk := l'; p_nfd := p_nfd q;
                           p_kcall := p_kcall q; p_dlog := p_dlog q |} t' (wl s))
      | _, _ => None
      end
  | SKillCall p =>
      if length (procs s) <=? p then None else
      let q := getp s p in
      if p_kcall q then None else
      Some (put s p {| p_kind := p_kind q; p_pc := p_pc q; p_lk := p_lk q; p_nfd := p_nfd q;
                       p_kcall := true; p_dlog := p_dlog q |} (tbl s) ((p, LKillCall) :: wl s))
  | SKill p =>
      if length (procs s) <=? p then None else
      let q := getp s p in
      if p_kcall q then
        match p_pc q with
        | Dead => None
        | _ => Some (put s p (set_pc q Dead) (os_drop (tbl s) p) (wl s))
        end
      else None
  | SDeadLog p =>
      if length (procs s) <=? p then None else
      let q := getp s p in
      match p_pc q with
      | Dead => if p_dlog q then None else
                Some (put s p {| p_kind := p_kind q; p_pc := Dead; p_lk := p_lk q; p_nfd := p_nfd q;
                                 p_kcall := p_kcall q; p_dlog := true |} (tbl s) ((p, LDead) :: wl s))
      | _ => None
      end
  end.

Fixpoint run (s : sys) (sched : list label) : option sys :=
  match sched with
  | [] => Some s
  | a :: t => match step s a with Some s' => run s' t | None => None end
  end.

(* a process that believes it has the lock *)
Definition believes (q : pst) : bool :=
  match p_pc q with Got | Holding | Releasing => true | _ => false end.

Fixpoint holders_from (i : nat) (l : list pst) : list pid :=
  match l with
  | [] => []
  | q :: t => if believes q then i :: holders_from (S i) t else holders_from (S i) t
  end.
Definition holders (s : sys) : list pid := holders_from 0 (procs s).

(* ------------------------------------------------------------------ *)
(* 3. the checker for an observed witness log (oldest record first) *)

Definition memb (x : nat) (l : list nat) : bool := existsb (Nat.eqb x) l.
Definition delb (x : nat) (l : list nat) : list nat := filter (fun y => negb (Nat.eqb x y)) l.
Definition others (x : nat) (l : list nat) : bool := existsb (fun y => negb (Nat.eqb x y)) l.

Definition lerr_is_again (e : lerr) : bool := match e with EAgain => true | _ => false end.

Record kst := {
  k_cur : option pid;          (* definitely holding: "ok" written, neither "release call" nor "kill call" yet *)
  k_maybe : list pid;          (* possibly holding or about to: from "acquire call" to "fail" / "release ret" / "dead" *)
  k_pend : list (pid * bool);  (* pending attempts: was another process in k_maybe at some moment of the attempt *)
  k_killed : list pid }.       (* "kill call" written *)

Definition kst0 : kst := {| k_cur := None; k_maybe := []; k_pend := []; k_killed := [] |}.

Fixpoint pend_get (p : pid) (l : list (pid * bool)) : option bool :=
  match l with
  | [] => None
  | (q, b) :: t => if Nat.eqb p q then Some b else pend_get p t
  end.
Definition pend_del (p : pid) (l : list (pid * bool)) : list (pid * bool) :=
  filter (fun x => negb (Nat.eqb p (fst x))) l.
Definition pend_mark (l : list (pid * bool)) : list (pid * bool) :=
  map (fun x => (fst x, true)) l.

Definition clear_cur (c : option pid) (p : pid) : option pid :=
  match c with Some q => if Nat.eqb p q then None else c | None => None end.

(* None = the log violates the property at this record *)
Definition kstep (k : kst) (x : pid * lrec) : option kst :=
  let '(p, r) := x in
  match r with
  | LAcqCall =>
      Some {| k_cur := k_cur k; k_maybe := p :: k_maybe k;
              k_pend := (p, others p (k_maybe k)) :: pend_mark (pend_del p (k_pend k));
              k_killed := k_killed k |}
  | LAcqOk =>
      (* exclusion: nobody else may be definitely holding now *)
      match k_cur k with
      | Some _ => None
      | None =>
          Some {| k_cur := if memb p (k_killed k) then None else Some p;
                  k_maybe := k_maybe k; k_pend := pend_del p (k_pend k); k_killed := k_killed k |}
      end
  | LAcqFail e =>
      (* availability: a refusal needs contention, and somebody else who might
         have had the lock during the attempt *)
      if lerr_is_again e then
        match pend_get p (k_pend k) with
        | Some true =>
            Some {| k_cur := k_cur k; k_maybe := delb p (k_maybe k);
                    k_pend := pend_del p (k_pend k); k_killed := k_killed k |}
        | _ => None
        end
      else None
  | LRelCall =>
      Some {| k_cur := clear_cur (k_cur k) p; k_maybe := k_maybe k; k_pend := k_pend k;
              k_killed := k_killed k |}
  | LRelRet _ =>
      Some {| k_cur := k_cur k; k_maybe := delb p (k_maybe k); k_pend := k_pend k;
              k_killed := k_killed k |}
  | LKillCall =>
      Some {| k_cur := clear_cur (k_cur k) p; k_maybe := k_maybe k; k_pend := k_pend k;
              k_killed := p :: k_killed k |}
  | LDead =>
      Some {| k_cur := k_cur k; k_maybe := delb p (k_maybe k); k_pend := pend_del p (k_pend k);
              k_killed := k_killed k |}
  end.

Fixpoint krun (k : kst) (l : wlog) : option kst :=
  match l with
  | [] => Some k
  | x :: t => match kstep k x with Some k' => krun k' t | None => None end
  end.

Definition check_C28 (l : wlog) : bool :=
  match krun kst0 l with Some _ => true | None => false end.

(* ------------------------------------------------------------------ *)
(* Replay of an observed log through the process model (correspondence):
   each process's own records must follow its program, and a daemon-style
   process has no descriptor of the lock file left after Release, a
   Locker-style one exactly one. *)

Definition rec_ok (k : kind) (c : pc) (r : lrec) : option pc :=
  match c, r with
  | Idle, LAcqCall => Some Trying
  | Trying, LAcqOk => Some Holding
  | Trying, LAcqFail EAgain => Some Idle
  | Holding, LRelCall => Some Releasing
  | Releasing, LRelRet n =>
      if Nat.eqb n (match k with KDaemon => 0 | KLocker => 1 end) then Some Idle else None
  | _, _ => None
  end.

(* per process: (kind, program counter, kill called, dead written) *)
Definition rst := list (kind * pc * bool * bool).

Definition rstep (s : rst) (x : pid * lrec) : option rst :=
  let '(p, r) := x in
  match nth_error s p with
  | None => None
  | Some (k, c, kc, dl) =>
      match r with
      | LKillCall => if kc then None else Some (upd s p (k, c, true, dl))
      | LDead => if kc && negb dl then Some (upd s p (k, Dead, kc, true)) else None
      | _ => if dl then None else
             match rec_ok k c r with
             | Some c' => Some (upd s p (k, c', kc, dl))
             | None => None
             end
      end
  end.

Fixpoint rrun (s : rst) (l : wlog) : option rst :=
  match l with
  | [] => Some s
  | x :: t => match rstep s x with Some s' => rrun s' t | None => None end
  end.

Definition rst0 (ks : list kind) : rst := map (fun k => (k, Idle, false, false)) ks.

Definition replay_ok (ks : list kind) (l : wlog) : bool :=
  match rrun (rst0 ks) l with Some _ => true | None => false end.
