(* C07: specification-side definitions and the checker for diff / apply /
   copy / filter / count (definitions only, no proofs).
   The operations themselves (diff, apply, synchronizable, count, slim) are in
   Model/Entry.v; this file adds
     - Entry.Copy at the value level ([copy]),
     - the list of entries of a tree with the flag "this entry and all of its
       ancestors are of a synchronizable kind" ([entries]), which is the
       specification of Entry.synchronizable and Entry.Count,
     - the case/output records of the harness and [check_C07]. *)
From Coq Require Import List Bool Arith String.
Import ListNotations.
From Mv Require Import Model.Entry.

(* ---------- Entry.Copy (entry.go) at the value level ---------- *)
Inductive copy_behavior :=
| CopyDeep | CopyDeepPreservingLeaves | CopyShallow | CopySlim.

(* Deep, DeepPreservingLeaves and Shallow differ only in which cells are
   shared with the original; as values they are the original. *)
Definition copy (b : copy_behavior) (e : oentry) : oentry :=
  match b with
  | CopySlim => oslim e
  | _ => e
  end.

Definition all_behaviors : list copy_behavior :=
  [CopyDeep; CopyDeepPreservingLeaves; CopyShallow; CopySlim].

(* what the property demands of a copy [c] of [e] *)
Definition copy_ok (b : copy_behavior) (e c : oentry) : bool :=
  match b with
  | CopySlim => oshallow_eqb c e && match contents c with [] => true | _ => false end
  | _ => oentry_eqb c e
  end.

(* ---------- entries of a tree, in depth-first sorted order ---------- *)
(* (path, the entry without its contents, ok) where ok = the entry and every
   ancestor of it (up to the root of the walk) is a directory, file or
   symbolic link, i.e. of a synchronizable kind *)
Fixpoint walk (ok : bool) (p : path) (e : entry) : list (path * entry * bool) :=
  let ok' := ok && kind_sync (kind_of e) in
  let fix go (l : list (name * entry)) : list (path * entry * bool) :=
    match l with
    | [] => []
    | (n, x) :: t => (walk ok' (p ++ [n]) x ++ go t)%list
    end in
  (p, slim e, ok') ::
  match e with
  | EDir c => go c
  | EPhantom c => go c
  | _ => []
  end.

Definition entries (t : oentry) : list (path * entry * bool) :=
  match t with None => [] | Some e => walk true [] e end.

(* every entry of the tree: (path, entry without contents) *)
Definition all_entries (t : oentry) : list (path * entry) := map fst (entries t).

(* the entries that are not inside (or at) an untracked, problematic or
   phantom sub-tree *)
Definition sync_entries (t : oentry) : list (path * entry) :=
  map fst (filter snd (entries t)).

Definition pe_eqb (x y : path * entry) : bool :=
  path_eqb (fst x) (fst y) && entry_eqb (snd x) (snd y).

Fixpoint pes_eqb (x y : list (path * entry)) : bool :=
  match x, y with
  | [], [] => true
  | a :: x', b :: y' => pe_eqb a b && pes_eqb x' y'
  | _, _ => false
  end.

(* ---------- harness case ---------- *)
Definition apply_full_eqb (x y : apply_full) : bool :=
  match x, y with
  | FOk a, FOk b => oentry_eqb a b
  | FErrParent, FErrParent | FPanic, FPanic | FMalformed, FMalformed => true
  | _, _ => false
  end.

(* inputs: two trees and the path used for the unexported diff(path, ., .) *)
Record c07_in := { i_a : oentry; i_b : oentry; i_p : path }.

(* what the implementation returned *)
Record c07_out := {
  o_diff : list change;        (* core.Diff(a, b), implementation order        *)
  o_applied : apply_full;      (* core.Apply(a, core.Diff(a, b))                *)
  o_diff_self : list change;   (* core.Diff(a, a)                               *)
  o_pdiff : list change;       (* diff(p, a, b) through the verif hook          *)
  o_sync : oentry;             (* a.synchronizable() through the verif hook     *)
  o_count : nat;               (* a.Count()                                     *)
  (* for Deep, DeepPreservingLeaves, Shallow, Slim in this order: the copy of
     [a] as returned, and the same copy read again after the original was
     mutated in every way that copy behaviour promises to be isolated from *)
  o_copies : list (oentry * oentry);
  (* core.Apply(nil, [root replacement by a] ++ core.Diff(a, b)): the later
     changes land inside the entry installed by the first one *)
  o_applied2 : apply_full;
  (* a and b read again after all of the above (Apply must not have written
     through to its arguments) *)
  o_a_after : oentry;
  o_b_after : oentry
}.

Fixpoint copies_ok (bs : list copy_behavior) (e : oentry) (cs : list (oentry * oentry)) : bool :=
  match bs, cs with
  | [], [] => true
  | b :: bs', (c1, c2) :: cs' => copy_ok b e c1 && copy_ok b e c2 && copies_ok bs' e cs'
  | _, _ => false
  end.

(* the property, decided on the implementation's outputs *)
Definition check_C07 (i : c07_in) (o : c07_out) : bool :=
  apply_full_eqb (o_applied o) (FOk (i_b i))
  && match o_diff_self o with [] => true | _ => false end
  && pes_eqb (all_entries (o_sync o)) (sync_entries (i_a i))
  && Nat.eqb (o_count o) (List.length (sync_entries (i_a i)))
  && copies_ok all_behaviors (i_a i) (o_copies o)
  && apply_full_eqb (o_applied2 o) (FOk (i_b i))
  && oentry_eqb (o_a_after o) (i_a i)
  && oentry_eqb (o_b_after o) (i_b i).

(* the model's outputs on the same inputs *)
Definition model_C07 (i : c07_in) : c07_out :=
  {| o_diff := diff [] (i_a i) (i_b i);
     o_applied := apply (i_a i) (diff [] (i_a i) (i_b i));
     o_diff_self := diff [] (i_a i) (i_a i);
     o_pdiff := diff (i_p i) (i_a i) (i_b i);
     o_sync := synchronizable (i_a i);
     o_count := count (i_a i);
     o_copies := map (fun b => (copy b (i_a i), copy b (i_a i))) all_behaviors;
     o_applied2 := apply None ({| cpath := []; cold := None; cnew := i_a i |}
                               :: diff [] (i_a i) (i_b i));
     o_a_after := i_a i;
     o_b_after := i_b i |}.

Fixpoint copies_eqb (x y : list (oentry * oentry)) : bool :=
  match x, y with
  | [], [] => true
  | (a1, a2) :: x', (b1, b2) :: y' => oentry_eqb a1 b1 && oentry_eqb a2 b2 && copies_eqb x' y'
  | _, _ => false
  end.

(* correspondence: the implementation's outputs are the model's (change lists
   compared canonically sorted; Apply replayed on the implementation's own
   order of changes) *)
Definition corr_C07 (i : c07_in) (o : c07_out) : bool :=
  let m := model_C07 i in
  changes_eqb (sort_changes (o_diff o)) (sort_changes (o_diff m))
  && apply_full_eqb (o_applied o) (apply (i_a i) (o_diff o))
  && changes_eqb (sort_changes (o_diff_self o)) (sort_changes (o_diff_self m))
  && changes_eqb (sort_changes (o_pdiff o)) (sort_changes (o_pdiff m))
  && oentry_eqb (o_sync o) (o_sync m)
  && Nat.eqb (o_count o) (o_count m)
  && copies_eqb (o_copies o) (o_copies m)
  && apply_full_eqb (o_applied2 o)
       (apply None ({| cpath := []; cold := None; cnew := i_a i |} :: o_diff o))
  && oentry_eqb (o_a_after o) (o_a_after m)
  && oentry_eqb (o_b_after o) (o_b_after m).

Definition wf_C07 (i : c07_in) : bool := wf false (i_a i) && wf false (i_b i).
