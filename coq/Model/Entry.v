(* M-Tree: model of pkg/synchronization/core entry.go, diff.go, apply.go,
   change.go, conflict.go (definitions only, no proofs).

   A Go *Entry is an [oentry] (nil = None). Directory contents (a Go map) are
   association lists; well-formed trees keep them strictly sorted by name
   (bytewise, String.ltb), so that deep equality is Leibniz equality and the
   unordered map iteration of the Go code is represented by one canonical
   order. Strings are Coq [string]s (sequences of bytes). *)
From Coq Require Import List Bool Arith String Ascii.
Import ListNotations.
Open Scope string_scope.

Definition name := string.
Definition path := list name.   (* "" = []; "a/b" = ["a"; "b"] *)

Inductive entry :=
| EDir (c : list (name * entry))             (* EntryKind_Directory        *)
| EFile (exec : bool) (digest : string)      (* EntryKind_File             *)
| ELink (target : string)                    (* EntryKind_SymbolicLink     *)
| EUntracked                                 (* EntryKind_Untracked        *)
| EProblem (msg : string)                    (* EntryKind_Problematic      *)
| EPhantom (c : list (name * entry)).        (* EntryKind_PhantomDirectory *)

Definition oentry := option entry.

Inductive kind := KDir | KFile | KLink | KUntracked | KProblem | KPhantom.

Definition kind_of (e : entry) : kind :=
  match e with
  | EDir _ => KDir | EFile _ _ => KFile | ELink _ => KLink
  | EUntracked => KUntracked | EProblem _ => KProblem | EPhantom _ => KPhantom
  end.

Definition kind_eqb (a b : kind) : bool :=
  match a, b with
  | KDir, KDir | KFile, KFile | KLink, KLink | KUntracked, KUntracked
  | KProblem, KProblem | KPhantom, KPhantom => true
  | _, _ => false
  end.

(* EntryKind.synchronizable *)
Definition kind_sync (k : kind) : bool :=
  match k with KDir | KFile | KLink => true | _ => false end.

(* Entry.GetContents (nil-safe) *)
Definition contents (e : oentry) : list (name * entry) :=
  match e with
  | Some (EDir c) | Some (EPhantom c) => c
  | _ => []
  end.

Fixpoint lookup (n : name) (c : list (name * entry)) : oentry :=
  match c with
  | [] => None
  | (m, e) :: t => if String.eqb n m then Some e else lookup n t
  end.

(* Entry.Equal(other, false): kind, executability, digest, target, problem *)
Definition shallow_eqb (a b : entry) : bool :=
  match a, b with
  | EDir _, EDir _ => true
  | EFile x d, EFile x' d' => Bool.eqb x x' && String.eqb d d'
  | ELink t, ELink t' => String.eqb t t'
  | EUntracked, EUntracked => true
  | EProblem m, EProblem m' => String.eqb m m'
  | EPhantom _, EPhantom _ => true
  | _, _ => false
  end.

Definition oshallow_eqb (a b : oentry) : bool :=
  match a, b with
  | None, None => true
  | Some x, Some y => shallow_eqb x y
  | _, _ => false
  end.

(* deep structural equality (Entry.Equal(other, true) on well-formed trees) *)
Fixpoint entry_eqb (a b : entry) {struct a} : bool :=
  let fix list_eqb (x y : list (name * entry)) {struct x} : bool :=
    match x, y with
    | [], [] => true
    | (n, e) :: x', (m, f) :: y' => String.eqb n m && entry_eqb e f && list_eqb x' y'
    | _, _ => false
    end in
  match a, b with
  | EDir c, EDir c' => list_eqb c c'
  | EPhantom c, EPhantom c' => list_eqb c c'
  | _, _ => shallow_eqb a b
  end.

Definition oentry_eqb (a b : oentry) : bool :=
  match a, b with
  | None, None => true
  | Some x, Some y => entry_eqb x y
  | _, _ => false
  end.

(* ---------- well-formedness = Entry.EnsureValid(false) + sorted contents --- *)
Definition name_valid (n : name) : bool :=
  negb (String.eqb n "") && negb (String.eqb n ".") && negb (String.eqb n "..")
  && negb (existsb (fun a => Ascii.eqb a "/"%char) (list_ascii_of_string n)).

Fixpoint sorted_names (l : list name) : bool :=
  match l with
  | [] => true
  | a :: t => match t with
              | [] => true
              | b :: _ => String.ltb a b && sorted_names t
              end
  end.

(* [synchronizable = true] is EnsureValid(true): no untracked/problematic/phantom *)
Fixpoint wf_entry (synchronizable : bool) (e : entry) : bool :=
  let fix wf_list (l : list (name * entry)) : bool :=
    match l with
    | [] => true
    | (n, x) :: t => name_valid n && wf_entry synchronizable x && wf_list t
    end in
  match e with
  | EDir c => wf_list c && sorted_names (map fst c)
  | EFile _ d => negb (String.eqb d "")
  | ELink t => negb (String.eqb t "")
  | EUntracked => negb synchronizable
  | EProblem m => negb synchronizable && negb (String.eqb m "")
  | EPhantom c => negb synchronizable && wf_list c && sorted_names (map fst c)
  end.

Definition wf (synchronizable : bool) (e : oentry) : bool :=
  match e with None => true | Some x => wf_entry synchronizable x end.

(* ---------- Entry.synchronizable() ---------- *)
Fixpoint sync_entry (e : entry) : oentry :=
  let fix go (l : list (name * entry)) : list (name * entry) :=
    match l with
    | [] => []
    | (n, x) :: t => match sync_entry x with
                     | Some x' => (n, x') :: go t
                     | None => go t
                     end
    end in
  match e with
  | EDir c => Some (EDir (go c))
  | EFile _ _ | ELink _ => Some e
  | EUntracked | EProblem _ | EPhantom _ => None
  end.

Definition synchronizable (e : oentry) : oentry :=
  match e with None => None | Some x => sync_entry x end.

(* ---------- Entry.Count ---------- *)
Fixpoint count_entry (e : entry) : nat :=
  let fix go (l : list (name * entry)) : nat :=
    match l with
    | [] => 0
    | (_, x) :: t => count_entry x + go t
    end in
  match e with
  | EDir c => 1 + go c
  | EFile _ _ | ELink _ => 1
  | _ => 0
  end.

Definition count (e : oentry) : nat :=
  match e with None => 0 | Some x => count_entry x end.

(* depth, used as fuel for the recursions over name unions *)
Fixpoint depth_entry (e : entry) : nat :=
  let fix go (l : list (name * entry)) : nat :=
    match l with
    | [] => 0
    | (_, x) :: t => Nat.max (depth_entry x) (go t)
    end in
  match e with
  | EDir c | EPhantom c => S (go c)
  | _ => 1
  end.

Definition depth (e : oentry) : nat :=
  match e with None => 0 | Some x => depth_entry x end.

(* ---------- Entry.Copy ---------- *)
(* At the value level every deep/shallow copy is the identity; the slim copy
   drops contents. (Aliasing is a separate heap-level model.) *)
Definition slim (e : entry) : entry :=
  match e with
  | EDir _ => EDir []
  | EPhantom _ => EPhantom []
  | x => x
  end.
Definition oslim (e : oentry) : oentry := option_map slim e.

(* ---------- name union (sorted merge, duplicates removed) ---------- *)
Fixpoint insert_name (n : name) (l : list name) : list name :=
  match l with
  | [] => [n]
  | m :: t => if String.eqb n m then l
              else if String.ltb n m then n :: l
              else m :: insert_name n t
  end.

Definition name_union (ls : list (list (name * entry))) : list name :=
  fold_left (fun acc c => fold_left (fun acc' ne => insert_name (fst ne) acc') c acc) ls [].

(* ---------- changes and conflicts ---------- *)
Record change := { cpath : path; cold : oentry; cnew : oentry }.
Record conflict := { root : path; alpha_changes : list change; beta_changes : list change }.

(* ---------- diff (diff.go), on fuel = depth ---------- *)
Fixpoint diff_f (fuel : nat) (p : path) (base target : oentry) : list change :=
  if negb (oshallow_eqb target base) then
    [{| cpath := p; cold := base; cnew := target |}]
  else
    match fuel with
    | O => []
    | S fuel' =>
      let bc := contents base in
      let tc := contents target in
      flat_map (fun n => diff_f fuel' (p ++ [n])%list (lookup n bc) (lookup n tc))
               (name_union [bc; tc])
    end.

Definition diff (p : path) (base target : oentry) : list change :=
  diff_f (S (Nat.max (depth base) (depth target))) p base target.

(* ---------- apply (apply.go) ---------- *)
(* set/delete the child named n in a contents list, keeping it sorted *)
Fixpoint set_child (n : name) (v : oentry) (c : list (name * entry)) : list (name * entry) :=
  match c with
  | [] => match v with Some x => [(n, x)] | None => [] end
  | (m, e) :: t =>
    if String.eqb n m then match v with Some x => (n, x) :: t | None => t end
    else if String.ltb n m then match v with Some x => (n, x) :: c | None => c end
    else (m, e) :: set_child n v t
  end.

(* Go assigns parent.Contents on whatever entry the walk reached: for a
   non-directory parent this gives an entry with contents, which the model
   cannot represent; [with_contents] reports that case as None. *)
Definition with_contents (e : entry) (c : list (name * entry)) : option entry :=
  match e with
  | EDir _ => Some (EDir c)
  | EPhantom _ => Some (EPhantom c)
  | _ => None
  end.

Inductive apply1_result :=
| A1Ok (e : entry)
| A1ErrParent
| A1Panic
| A1Malformed.  (* contents attached to a non-directory: invalid entry *)

Fixpoint apply_at (e : entry) (p : path) (v : oentry) : apply1_result :=
  match p with
  | [] => A1Malformed (* not used: root handled by the caller *)
  | [n] =>
    match e with
    | EDir c => A1Ok (EDir (set_child n v c))
    | EPhantom c => A1Ok (EPhantom (set_child n v c))
    | _ => match v with
           | None => A1Ok e          (* delete on a nil map: no-op *)
           | Some _ => A1Malformed
           end
    end
  | n :: rest =>
    match lookup n (contents (Some e)) with
    | None => A1ErrParent
    | Some child =>
      match apply_at child rest v with
      | A1Ok child' =>
        match with_contents e (set_child n (Some child') (contents (Some e))) with
        | Some e' => A1Ok e'
        | None => A1Malformed
        end
      | r => r
      end
    end
  end.

Inductive apply_full :=
| FOk (e : oentry) | FErrParent | FPanic | FMalformed.

Definition apply_one (base : oentry) (ch : change) : apply_full :=
  match cpath ch with
  | [] => FOk (cnew ch)
  | p =>
    match base with
    | None => FPanic
    | Some e => match apply_at e p (cnew ch) with
                | A1Ok e' => FOk (Some e')
                | A1ErrParent => FErrParent
                | A1Panic => FPanic
                | A1Malformed => FMalformed
                end
    end
  end.

Fixpoint apply (base : oentry) (chs : list change) : apply_full :=
  match chs with
  | [] => FOk base
  | ch :: rest =>
    match apply_one base ch with
    | FOk b' => apply b' rest
    | r => r
    end
  end.

(* ---------- entry at a path ---------- *)
Fixpoint at_path (e : oentry) (p : path) : oentry :=
  match p with
  | [] => e
  | n :: rest => at_path (lookup n (contents e)) rest
  end.

(* ---------- Change / Conflict validity (change.go, conflict.go) ---------- *)
Definition change_valid (synchronizable : bool) (c : change) : bool :=
  wf synchronizable (cold c) && wf synchronizable (cnew c).

Definition conflict_valid (c : conflict) : bool :=
  negb (Nat.eqb (List.length (alpha_changes c)) 0) && forallb (change_valid false) (alpha_changes c)
  && negb (Nat.eqb (List.length (beta_changes c)) 0) && forallb (change_valid false) (beta_changes c).

Definition is_root_deletion (c : change) : bool :=
  match cpath c, cold c, cnew c with
  | [], Some _, None => true
  | _, _, _ => false
  end.

Definition is_root_type_change (c : change) : bool :=
  match cpath c, cold c, cnew c with
  | [], Some o, Some n => negb (kind_eqb (kind_of o) (kind_of n))
  | _, _, _ => false
  end.

(* ---------- path utilities ---------- *)
Fixpoint path_eqb (a b : path) : bool :=
  match a, b with
  | [], [] => true
  | x :: a', y :: b' => String.eqb x y && path_eqb a' b'
  | _, _ => false
  end.

Fixpoint is_prefix (a b : path) : bool :=   (* a is a (non-strict) prefix of b *)
  match a, b with
  | [], _ => true
  | x :: a', y :: b' => String.eqb x y && is_prefix a' b'
  | _ :: _, [] => false
  end.

(* fastpath.Less on component lists: parents before children, siblings bytewise *)
Fixpoint path_ltb (a b : path) : bool :=
  match a, b with
  | [], [] => false
  | [], _ :: _ => true
  | _ :: _, [] => false
  | x :: a', y :: b' =>
    if String.ltb x y then true
    else if String.ltb y x then false
    else path_ltb a' b'
  end.

Definition change_eqb (a b : change) : bool :=
  path_eqb (cpath a) (cpath b) && oentry_eqb (cold a) (cold b) && oentry_eqb (cnew a) (cnew b).

Fixpoint changes_eqb (x y : list change) : bool :=
  match x, y with
  | [], [] => true
  | a :: x', b :: y' => change_eqb a b && changes_eqb x' y'
  | _, _ => false
  end.

Definition conflict_eqb (a b : conflict) : bool :=
  path_eqb (root a) (root b) && changes_eqb (alpha_changes a) (alpha_changes b)
  && changes_eqb (beta_changes a) (beta_changes b).

Fixpoint conflicts_eqb (x y : list conflict) : bool :=
  match x, y with
  | [], [] => true
  | a :: x', b :: y' => conflict_eqb a b && conflicts_eqb x' y'
  | _, _ => false
  end.

(* insertion sort of changes by path (canonical order for comparison) *)
Fixpoint insert_change (c : change) (l : list change) : list change :=
  match l with
  | [] => [c]
  | d :: t => if path_ltb (cpath d) (cpath c) then d :: insert_change c t else c :: l
  end.
Definition sort_changes (l : list change) : list change := fold_right insert_change [] l.

Fixpoint insert_conflict (c : conflict) (l : list conflict) : list conflict :=
  match l with
  | [] => [c]
  | d :: t => if path_ltb (root d) (root c) then d :: insert_conflict c t else c :: l
  end.
Definition sort_conflicts (l : list conflict) : list conflict :=
  fold_right insert_conflict []
    (map (fun c => {| root := root c; alpha_changes := sort_changes (alpha_changes c);
                      beta_changes := sort_changes (beta_changes c) |}) l).
