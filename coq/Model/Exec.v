(* C18: model of pkg/synchronization/core/executability.go (definitions only,
   no proofs), the part of a cycle that uses it (controller.go:synchronize:
   PropagateExecutability is applied to the side that does not preserve
   executability, then core.Reconcile runs on the result), and the
   specification side of C18 with its executable checker.

   P = the endpoint that preserves executability bits,
   N = the endpoint that does not (it scans every file as non-executable). *)
From Coq Require Import List Bool Arith String.
Import ListNotations.
From Mv Require Import Model.Entry Model.Reconcile Model.C04Cycle.

(* ---------- executability.go ---------- *)

Definition exec_of (e : oentry) : bool :=
  match e with Some (EFile x _) => x | _ => false end.

(* e is a file whose digest is d *)
Definition file_with (e : oentry) (d : string) : bool :=
  match e with Some (EFile _ d') => String.eqb d' d | _ => false end.

(* both are files with the same digest *)
Definition same_file_digest (s a : oentry) : bool :=
  match s, a with
  | Some (EFile _ sd), Some (EFile _ ad) => String.eqb sd ad
  | _, _ => false
  end.

(* the three rules of propagateExecutabilityRecursive for a target file
   (xt, d): the new executability bit *)
Definition rule_bit (anc src : oentry) (xt : bool) (d : string) : bool :=
  if file_with src d then exec_of src              (* source has the same content     *)
  else if file_with anc d then exec_of anc         (* ancestor has the same content   *)
  else if same_file_digest src anc then exec_of src (* source unmodified from ancestor *)
  else xt.                                         (* both modified: no propagation   *)

(* propagateExecutabilityRecursive(ancestor, source, target), target non-nil *)
Fixpoint prop_exec_entry (anc src : oentry) (t : entry) : entry :=
  let fix go (l : list (name * entry)) : list (name * entry) :=
    match l with
    | [] => []
    | (n, x) :: r =>
      (n, prop_exec_entry (lookup n (contents anc)) (lookup n (contents src)) x) :: go r
    end in
  match anc, src with
  | None, None => t
  | _, _ =>
    match t with
    | EDir c =>
      match contents src, contents anc with
      | [], [] => t
      | _, _ => EDir (go c)
      end
    | EFile xt d => EFile (rule_bit anc src xt d) d
    | _ => t
    end
  end.

(* PropagateExecutability(ancestor, source, target) *)
Definition propagate_exec (anc src tgt : oentry) : oentry :=
  option_map (prop_exec_entry anc src) tgt.

(* ---------- the part of a cycle C18 is about ---------- *)

(* which side is which *)
Record c18_in := {
  x_mode : mode;
  x_n_alpha : bool;      (* true: N is alpha and P is beta; false: P is alpha, N is beta *)
  x_anc : oentry;
  x_p : oentry;          (* P's snapshot                                   *)
  x_n : oentry           (* N's snapshot as scanned (no executability)     *)
}.

Definition sides (n_alpha : bool) (p n1 : oentry) : oentry * oentry :=
  if n_alpha then (n1, p) else (p, n1).

(* the changes a plan applies to P *)
Definition p_changes (n_alpha : bool) (pl : plan) : list change :=
  if n_alpha then beta_ch pl else alpha_ch pl.

Definition c18_plan (i : c18_in) : oentry * plan :=
  let n1 := propagate_exec (x_anc i) (x_p i) (x_n i) in
  let '(a, b) := sides (x_n_alpha i) (x_p i) n1 in
  (n1, reconcile (x_mode i) (x_anc i) a b).

(* every file of the tree is non-executable (a scan by N) *)
Fixpoint nonexec_entry (e : entry) : bool :=
  let fix go (l : list (name * entry)) : bool :=
    match l with
    | [] => true
    | (_, x) :: t => nonexec_entry x && go t
    end in
  match e with
  | EDir c => go c
  | EPhantom c => go c
  | EFile x _ => negb x
  | _ => true
  end.
Definition nonexec (e : oentry) : bool :=
  match e with None => true | Some x => nonexec_entry x end.

Definition wf_c18 (i : c18_in) : bool :=
  wf true (x_anc i) && wf false (x_p i) && wf false (x_n i)
  && phantom_free (x_p i) && phantom_free (x_n i) && nonexec (x_n i).

(* ---------- specification side ---------- *)

Definition is_file (e : oentry) : bool :=
  match e with Some (EFile _ _) => true | _ => false end.

(* The known-finding class, at one path: the file exists on both sides with
   different content, N is alpha, the bit N carries after propagation differs
   from P's, and the mode overwrites P with N's version:
   - two-way-resolved: N's content is not the ancestor's (so both sides are
     modified and alpha wins),
   - one-way-replica: always (beta is a mirror of alpha). *)
Definition flips_at (m : mode) (n_alpha : bool) (anc_p p_p n_p : oentry) : bool :=
  match p_p, n_p with
  | Some (EFile xp dp), Some (EFile xn dn) =>
    n_alpha && negb (String.eqb dn dp)
    && negb (Bool.eqb (rule_bit anc_p p_p xn dn) xp)
    && match m with
       | TwoWayResolved => negb (file_with anc_p dn)
       | OneWayReplica => true
       | _ => false
       end
  | _, _ => false
  end.

Definition known_C18 (i : c18_in) : bool :=
  existsb (fun p => flips_at (x_mode i) (x_n_alpha i)
                      (at_path (x_anc i) p) (at_path (x_p i) p) (at_path (x_n i) p))
          (paths (x_p i)).

(* one change of the plan for P keeps P's bit at every path where the file
   exists on both sides *)
Definition change_keeps_bits (p n : oentry) (ch : change) : bool :=
  forallb (fun r =>
             let q := (cpath ch ++ r)%list in
             match at_path (cnew ch) r, at_path p q, at_path n q with
             | Some (EFile x' _), Some (EFile xp _), Some (EFile _ _) => Bool.eqb x' xp
             | _, _, _ => true
             end)
          (paths (cnew ch)).

(* N's notion of executability at a path comes from matching content: its
   own scanned bit, or P's bit when P has the same content as N or as the
   ancestor, or the ancestor's bit when the ancestor has the same content *)
Definition bit_justified (anc_p p_p : oentry) (xn : bool) (dn : string) (x1 : bool) : bool :=
  Bool.eqb x1 xn
  || (file_with p_p dn && Bool.eqb x1 (exec_of p_p))
  || (file_with anc_p dn && Bool.eqb x1 (exec_of anc_p))
  || (same_file_digest p_p anc_p && Bool.eqb x1 (exec_of p_p)).

(* n1 is n with some executability bits changed, every changed bit justified *)
Fixpoint same_but_bits (anc p : oentry) (n n1 : entry) : bool :=
  let fix go (l l1 : list (name * entry)) : bool :=
    match l, l1 with
    | [], [] => true
    | (k, x) :: t, (k1, x1) :: t1 =>
      String.eqb k k1
      && same_but_bits (lookup k (contents anc)) (lookup k (contents p)) x x1
      && go t t1
    | _, _ => false
    end in
  match n, n1 with
  | EDir c, EDir c1 => go c c1
  | EFile xn dn, EFile x1 d1 => String.eqb dn d1 && bit_justified anc p xn dn x1
  | _, _ => entry_eqb n n1
  end.

Definition osame_but_bits (anc p n n1 : oentry) : bool :=
  match n, n1 with
  | None, None => true
  | Some x, Some x1 => same_but_bits anc p x x1
  | _, _ => false
  end.

(* what the implementation returned *)
Record c18_out := {
  y_n1 : oentry;   (* core.PropagateExecutability(anc, P, N)                  *)
  y_plan : plan    (* core.Reconcile(anc, alpha, beta, mode) on P and y_n1     *)
}.

Definition check_c18 (i : c18_in) (o : c18_out) : bool :=
  osame_but_bits (x_anc i) (x_p i) (x_n i) (y_n1 o)
  && forallb (change_keeps_bits (x_p i) (x_n i)) (p_changes (x_n_alpha i) (y_plan o)).

Definition model_c18 (i : c18_in) : c18_out :=
  let '(n1, pl) := c18_plan i in {| y_n1 := n1; y_plan := pl |}.

Definition corr_c18 (i : c18_in) (o : c18_out) : bool :=
  oentry_eqb (propagate_exec (x_anc i) (x_p i) (x_n i)) (y_n1 o)
  && (let '(a, b) := sides (x_n_alpha i) (x_p i) (y_n1 o) in
      plan_eqb (canon (reconcile (x_mode i) (x_anc i) a b)) (canon (y_plan o))).

(* ---------- histories (c18_history) ---------- *)

(* One cycle of a session in which exactly one endpoint preserves
   executability: propagate, reconcile, apply every change exactly, save the
   new ancestor (the controller refuses an invalid one). Result: the new
   ancestor and P after the cycle. *)
Definition c18_cycle (m : mode) (n_alpha : bool) (anc p n : oentry) : option (oentry * oentry) :=
  let n1 := propagate_exec anc p n in
  let '(a, b) := sides n_alpha p n1 in
  let pl := reconcile m anc a b in
  match apply a (alpha_ch pl), apply b (beta_ch pl), apply anc (anc_updates pl) with
  | FOk a', FOk b', FOk anc' =>
    if wf true anc' then Some (anc', if n_alpha then b' else a') else None
  | _, _, _ => None
  end.

(* A history: before every cycle both endpoints are edited arbitrarily (on P:
   content and chmods; on N: content only, N has no bits), given as the
   snapshots (P_k, N_k) the cycle scans. The trace records, per executed
   cycle, (P_k, N_k, P after the cycle). *)
Fixpoint c18_run (m : mode) (n_alpha : bool) (anc : oentry) (steps : list (oentry * oentry))
  : list (oentry * oentry * oentry) :=
  match steps with
  | [] => []
  | (p, n) :: rest =>
    match c18_cycle m n_alpha anc p n with
    | Some (anc', p') => (p, n, p') :: c18_run m n_alpha anc' rest
    | None => []
    end
  end.
