(* Model of pkg/forwarding/forwarding.go (ForwardAndClose and its two io.Copy
   loops through stream.NewAuditWriter) and of the connection counters kept by
   controller.forward in pkg/forwarding/controller.go.  Definitions only.

   The model is an explicit transition system whose labels are the externally
   visible calls the code makes on its two connections, together with the
   result the ENVIRONMENT gave (any result at any time):

     ERd c d e      c.Read returned the bytes d with error class e
     EWr c d n ok   c.Write(d) returned (n, err) with ok = (err == nil)
     ECW c          c.CloseWrite() was called
     ECl c          c.Close() was called
     ECancel        the context was cancelled

   (ForwardAndClose returns right after second.Close(); the return itself is
   observed at the session level as the OpenConnections decrement.)

   c = Fi is the first connection (the controller's "incoming"), c = Se the
   second ("outgoing").  A list of labels is at the same time a schedule (which
   goroutine moves) and a behaviour of the environment (what each call
   returned), so "for every accepted list" quantifies over both.

   Assumed, not modelled: sockets (TCP half-close, reset), the Go scheduler,
   channels (the buffered result channel never blocks; a result counts as sent
   with the goroutine's last call, which is sound for the observable order
   because the real send and the real receive both come later). *)
From Coq Require Import List Arith Bool.
From Coq Require Import Strings.Byte.
Import ListNotations.

Definition bytes := list byte.

Inductive side := Fi | Se.
Definition other (c : side) : side := match c with Fi => Se | Se => Fi end.

Inductive rerr := RNil | REOF | RErr.

Inductive ev :=
| ERd (c : side) (d : bytes) (e : rerr)
| EWr (c : side) (d : bytes) (n : nat) (ok : bool)
| ECW (c : side)
| ECl (c : side)
| ECancel.

Fixpoint leqb (a b : bytes) : bool :=
  match a, b with
  | [], [] => true
  | x :: a', y :: b' => Byte.eqb x y && leqb a' b'
  | _, _ => false
  end.

Fixpoint prefixb (a b : bytes) : bool :=
  match a, b with
  | [], _ => true
  | x :: a', y :: b' => Byte.eqb x y && prefixb a' b'
  | _ :: _, [] => false
  end.

(* ------------------------------------------------------------------ *)
(* One direction: io.Copy(NewAuditWriter(dst, auditor), src) followed by
   "if err == nil { dst.CloseWrite() }; copyErrors <- err".              *)

Inductive phase :=
| PRead                              (* about to call src.Read *)
| PWrite (d : bytes) (e : rerr)   (* src.Read gave d (non-empty) and e; about to dst.Write(d) *)
| PCW                                (* io.Copy returned nil; about to dst.CloseWrite() *)
| PEnd (failed : bool).              (* result sent: failed = (err != nil) *)

Record dirst := { ph : phase; rd : bytes; wr : bytes; cw : bool }.

Definition dir0 : dirst := {| ph := PRead; rd := []; wr := []; cw := false |}.

Inductive dev :=
| DRd (d : bytes) (e : rerr)
| DWr (d : bytes) (n : nat) (ok : bool)
| DCW.

(* io.Copy after the chunk (if any) of this iteration has been written:
   "if er != nil { if er != EOF { err = er }; break }" *)
Definition after_chunk (e : rerr) : phase :=
  match e with RNil => PRead | REOF => PCW | RErr => PEnd true end.

Definition dir_step (x : dirst) (a : dev) : option dirst :=
  match ph x, a with
  | PRead, DRd d e =>
      Some {| ph := match d with [] => after_chunk e | _ :: _ => PWrite d e end;
              rd := rd x ++ d; wr := wr x; cw := cw x |}
  | PWrite d e, DWr d' n ok =>
      (* the loop writes exactly the chunk it read; "ew != nil" or
         "nr != nw" (ErrShortWrite) end the copy with an error *)
      if leqb d d' && (n <=? length d) then
        Some {| ph := if ok && (n =? length d) then after_chunk e else PEnd true;
                rd := rd x; wr := wr x ++ firstn n d; cw := cw x |}
      else None
  | PCW, DCW => Some {| ph := PEnd false; rd := rd x; wr := wr x; cw := true |}
  | _, _ => None
  end.

Definition failed (x : dirst) : bool :=
  match ph x with PEnd true => true | _ => false end.
Definition ended (x : dirst) : bool :=
  match ph x with PEnd _ => true | _ => false end.

(* ------------------------------------------------------------------ *)
(* ForwardAndClose: two directions, the waiting loop, the deferred closes. *)

Inductive mphase :=
| MWait     (* in the select loop *)
| MClose2   (* first.Close() called; about to second.Close() *)
| MDone.    (* both closed; the function returns *)

(* [da] writes to Fi (= reads Se): io.Copy(AuditWriter(first), second);
   [db] writes to Se (= reads Fi). *)
Record st := { da : dirst; db : dirst; mp : mphase; canc : bool }.

Definition init : st := {| da := dir0; db := dir0; mp := MWait; canc := false |}.

Definition dir_of (s : st) (c : side) : dirst :=
  match c with Fi => da s | Se => db s end.
Definition set_dir (s : st) (c : side) (x : dirst) : st :=
  match c with
  | Fi => {| da := x; db := db s; mp := mp s; canc := canc s |}
  | Se => {| da := da s; db := x; mp := mp s; canc := canc s |}
  end.
Definition set_mp (s : st) (m : mphase) : st :=
  {| da := da s; db := db s; mp := m; canc := canc s |}.

(* the loop leaves the select: a non-nil result, two results, or ctx.Done *)
Definition may_close (s : st) : bool :=
  canc s || failed (da s) || failed (db s) || (ended (da s) && ended (db s)).

Definition step (s : st) (e : ev) : option st :=
  match e with
  | ERd c d r => option_map (set_dir s (other c)) (dir_step (dir_of s (other c)) (DRd d r))
  | EWr c d n ok => option_map (set_dir s c) (dir_step (dir_of s c) (DWr d n ok))
  | ECW c => option_map (set_dir s c) (dir_step (dir_of s c) DCW)
  | ECl Fi => match mp s with
             | MWait => if may_close s then Some (set_mp s MClose2) else None
             | _ => None
             end
  | ECl Se => match mp s with MClose2 => Some (set_mp s MDone) | _ => None end
  | ECancel => Some {| da := da s; db := db s; mp := mp s; canc := true |}
  end.

Fixpoint run (s : st) (tr : list ev) : option st :=
  match tr with
  | [] => Some s
  | e :: t => match step s e with Some s' => run s' t | None => None end
  end.

Definition closedF (s : st) : bool := match mp s with MWait => false | _ => true end.
Definition closedS (s : st) : bool := match mp s with MDone => true | _ => false end.

(* nothing of this forward is still running *)
Definition quiescent (s : st) : bool :=
  ended (da s) && ended (db s) && match mp s with MDone => true | _ => false end.

(* ------------------------------------------------------------------ *)
(* Trace functions used in the statements. *)

Fixpoint readfrom (c : side) (tr : list ev) : bytes :=
  match tr with
  | [] => []
  | ERd c' d _ :: t => (match c, c' with Fi, Fi | Se, Se => d | _, _ => [] end) ++ readfrom c t
  | _ :: t => readfrom c t
  end.

Fixpoint delivered (c : side) (tr : list ev) : bytes :=
  match tr with
  | [] => []
  | EWr c' d n _ :: t => (match c, c' with Fi, Fi | Se, Se => firstn n d | _, _ => [] end) ++ delivered c t
  | _ :: t => delivered c t
  end.

(* sum of the amounts handed to the auditor of connection c: the audit writer
   calls it with the count every Write returned *)
Fixpoint audited (c : side) (tr : list ev) : nat :=
  match tr with
  | [] => 0
  | EWr c' _ n _ :: t => (match c, c' with Fi, Fi | Se, Se => n | _, _ => 0 end) + audited c t
  | _ :: t => audited c t
  end.

Definition is_rerr (e : rerr) : bool := match e with RErr => true | _ => false end.
Definition is_eof (e : rerr) : bool := match e with REOF => true | _ => false end.

(* ------------------------------------------------------------------ *)
(* The property checker for an OBSERVED trace.  It is independent of the
   transition system above and demands only what C33 states:
   - bytes written to a side are, at every moment, a prefix of the bytes read
     from the other side (so: the same bytes in the same order);
   - CloseWrite on a side only after a clean EOF on the other side with every
     byte delivered, and no byte after it;
   - Close only once cancellation, a failure, or both half-closes happened;
   - in a complete trace: both connections were closed, and a direction that
     ended cleanly has forwarded the half-close. *)

Record per (X : Type) := mkper { pF : X; pS : X }.
Arguments mkper {X}. Arguments pF {X}. Arguments pS {X}.
Definition pget {X} (p : per X) (c : side) : X := match c with Fi => pF p | Se => pS p end.
Definition pset {X} (p : per X) (c : side) (x : X) : per X :=
  match c with Fi => mkper x (pS p) | Se => mkper (pF p) x end.

Record cst := {
  k_rd : per bytes;   (* read from each side *)
  k_wr : per bytes;   (* delivered to each side *)
  k_cw : per bool;         (* CloseWrite seen on the side *)
  k_eof : per bool;        (* the last read on the side returned EOF *)
  k_rfail : per bool;      (* a read on the side returned an error *)
  k_wfail : per bool;      (* a write on the side failed or was short *)
  k_canc : bool;
  k_cl : per bool }.

Definition k0 : cst :=
  {| k_rd := mkper [] []; k_wr := mkper [] []; k_cw := mkper false false;
     k_eof := mkper false false; k_rfail := mkper false false; k_wfail := mkper false false;
     k_canc := false; k_cl := mkper false false |}.

Definition k_fail (k : cst) : bool :=
  pF (k_rfail k) || pS (k_rfail k) || pF (k_wfail k) || pS (k_wfail k).

Definition enabled (k : cst) : bool :=
  k_canc k || k_fail k || (pF (k_cw k) && pS (k_cw k)).

Definition cstep (k : cst) (e : ev) : option cst :=
  match e with
  | ERd c d r =>
      Some {| k_rd := pset (k_rd k) c (pget (k_rd k) c ++ d); k_wr := k_wr k; k_cw := k_cw k;
              k_eof := pset (k_eof k) c (is_eof r);
              k_rfail := pset (k_rfail k) c (pget (k_rfail k) c || is_rerr r);
              k_wfail := k_wfail k; k_canc := k_canc k; k_cl := k_cl k |}
  | EWr c d n ok =>
      let w := pget (k_wr k) c ++ firstn n d in
      if negb (pget (k_cw k) c) && prefixb w (pget (k_rd k) (other c)) then
        Some {| k_rd := k_rd k; k_wr := pset (k_wr k) c w; k_cw := k_cw k; k_eof := k_eof k;
                k_rfail := k_rfail k;
                k_wfail := pset (k_wfail k) c (pget (k_wfail k) c || negb ok || (n <? length d));
                k_canc := k_canc k; k_cl := k_cl k |}
      else None
  | ECW c =>
      if leqb (pget (k_wr k) c) (pget (k_rd k) (other c)) && pget (k_eof k) (other c) then
        Some {| k_rd := k_rd k; k_wr := k_wr k; k_cw := pset (k_cw k) c true; k_eof := k_eof k;
                k_rfail := k_rfail k; k_wfail := k_wfail k; k_canc := k_canc k;
                k_cl := k_cl k |}
      else None
  | ECl c =>
      if enabled k then
        Some {| k_rd := k_rd k; k_wr := k_wr k; k_cw := k_cw k; k_eof := k_eof k;
                k_rfail := k_rfail k; k_wfail := k_wfail k; k_canc := k_canc k;
                k_cl := pset (k_cl k) c true |}
      else None
  | ECancel =>
      Some {| k_rd := k_rd k; k_wr := k_wr k; k_cw := k_cw k; k_eof := k_eof k;
              k_rfail := k_rfail k; k_wfail := k_wfail k; k_canc := true;
              k_cl := k_cl k |}
  end.

Fixpoint crun (k : cst) (tr : list ev) : option cst :=
  match tr with
  | [] => Some k
  | e :: t => match cstep k e with Some k' => crun k' t | None => None end
  end.

(* direction towards c ended cleanly: EOF on the other side, no error, every
   byte written *)
Definition clean_dir (k : cst) (c : side) : bool :=
  pget (k_eof k) (other c) && negb (pget (k_rfail k) (other c)) && negb (pget (k_wfail k) c)
  && leqb (pget (k_wr k) c) (pget (k_rd k) (other c)).

Definition cfinal (complete : bool) (k : cst) : bool :=
  if complete then
    pF (k_cl k) && pS (k_cl k) && implb (clean_dir k Fi) (pF (k_cw k)) && implb (clean_dir k Se) (pS (k_cw k))
  else true.

Definition check_trace (complete : bool) (tr : list ev) : bool :=
  match crun k0 tr with Some k => cfinal complete k | None => false end.

(* well-formedness of a recorded trace (a harness obligation): a Write never
   reports more bytes than it was given *)
Fixpoint wf_trace (tr : list ev) : bool :=
  match tr with
  | [] => true
  | EWr _ d n _ :: t => (n <=? length d) && wf_trace t
  | _ :: t => wf_trace t
  end.

(* ------------------------------------------------------------------ *)
(* controller.forward: the counters in the session state.  Many forwards run
   concurrently; a schedule interleaves their counter updates arbitrarily.
   The auditor call is merged with the Write's return (the auditor only adds
   under the state lock). *)

Inductive sev :=
| SOpen (id : nat)                      (* OpenConnections++, TotalConnections++ *)
| SAud (id : nat) (c : side) (n : nat)  (* incoming (c = Fi) / outgoing (c = Se) auditor *)
| SDone (id : nat).                     (* ForwardAndClose returned: OpenConnections-- *)

Record cnt := { c_open : nat; c_total : nat; c_in : nat; c_out : nat }.

Record sst := { cn : cnt; running : list nat; opened : list nat }.

Definition sst0 : sst :=
  {| cn := {| c_open := 0; c_total := 0; c_in := 0; c_out := 0 |}; running := []; opened := [] |}.

Definition mem (x : nat) (l : list nat) : bool := existsb (Nat.eqb x) l.
Definition remove1 (x : nat) (l : list nat) : list nat := filter (fun y => negb (Nat.eqb x y)) l.

Definition sstep (s : sst) (e : sev) : option sst :=
  match e with
  | SOpen id =>
      if mem id (opened s) then None else
      Some {| cn := {| c_open := S (c_open (cn s)); c_total := S (c_total (cn s));
                       c_in := c_in (cn s); c_out := c_out (cn s) |};
              running := id :: running s; opened := id :: opened s |}
  | SAud id c n =>
      (* a copy goroutine may outlive ForwardAndClose, so an audit only needs
         the connection to have been opened *)
      if mem id (opened s) then
        Some {| cn := {| c_open := c_open (cn s); c_total := c_total (cn s);
                         c_in := match c with Fi => c_in (cn s) + n | Se => c_in (cn s) end;
                         c_out := match c with Fi => c_out (cn s) | Se => c_out (cn s) + n end |};
                running := running s; opened := opened s |}
      else None
  | SDone id =>
      if mem id (running s) then
        Some {| cn := {| c_open := pred (c_open (cn s)); c_total := c_total (cn s);
                         c_in := c_in (cn s); c_out := c_out (cn s) |};
                running := remove1 id (running s); opened := opened s |}
      else None
  end.

Fixpoint srun (s : sst) (tr : list sev) : option sst :=
  match tr with
  | [] => Some s
  | e :: t => match sstep s e with Some s' => srun s' t | None => None end
  end.

(* audit events of connection [id] in a session schedule *)
Fixpoint auds_of_sched (id : nat) (tr : list sev) : list (side * nat) :=
  match tr with
  | [] => []
  | SAud id' c n :: t => if Nat.eqb id id' then (c, n) :: auds_of_sched id t else auds_of_sched id t
  | _ :: t => auds_of_sched id t
  end.

(* audit events a forward produces: one per Write, with the count returned *)
Fixpoint auds_of_trace (tr : list ev) : list (side * nat) :=
  match tr with
  | [] => []
  | EWr c _ n _ :: t => (c, n) :: auds_of_trace t
  | _ :: t => auds_of_trace t
  end.

Fixpoint aud_sum (c : side) (l : list (side * nat)) : nat :=
  match l with
  | [] => 0
  | (c', n) :: t => (match c, c' with Fi, Fi | Se, Se => n | _, _ => 0 end) + aud_sum c t
  end.

Fixpoint count_opens (tr : list sev) : nat :=
  match tr with [] => 0 | SOpen _ :: t => S (count_opens t) | _ :: t => count_opens t end.
Fixpoint count_dones (tr : list sev) : nat :=
  match tr with [] => 0 | SDone _ :: t => S (count_dones t) | _ :: t => count_dones t end.
Fixpoint sched_sum (c : side) (tr : list sev) : nat :=
  match tr with
  | [] => 0
  | SAud _ c' n :: t => (match c, c' with Fi, Fi | Se, Se => n | _, _ => 0 end) + sched_sum c t
  | _ :: t => sched_sum c t
  end.
Fixpoint sched_ids_below (k : nat) (tr : list sev) : bool :=
  match tr with
  | [] => true
  | SOpen id :: t | SAud id _ _ :: t | SDone id :: t => (id <? k) && sched_ids_below k t
  end.

(* the canonical sequential schedule of a list of forwards (used to compute
   the counters the model predicts; by [c33_stats] every interleaving gives
   the same) *)
Fixpoint seq_sched (id : nat) (trs : list (list ev)) : list sev :=
  match trs with
  | [] => []
  | tr :: t => SOpen id :: map (fun p => SAud id (fst p) (snd p)) (auds_of_trace tr)
               ++ SDone id :: seq_sched (S id) t
  end.

(* ------------------------------------------------------------------ *)
(* What the two far ends of one forwarded connection did and saw, and the
   end-to-end part of the checker.  "C" is the peer of the first (incoming)
   connection, "S" the peer of the second (outgoing) one. *)

Inductive endk :=
| HC     (* send the payload, half-close, read to EOF, close *)
| HCW    (* read to EOF first, then send the payload and close *)
| RST    (* send the payload, then reset the connection *)
| HOLD.  (* send the payload and keep the connection open, reading *)

Inductive cank :=
| NoCancel
| CancelEarly   (* cancelled at an arbitrary moment *)
| CancelLate.   (* cancelled only after every byte sent had arrived *)

Record scen := { s_endC : endk; s_endS : endk; s_faults : bool; s_cancel : cank }.
Record peer_obs := { sent : bytes; recv : bytes; eof : bool }.

Definition is_rst (e : endk) : bool := match e with RST => true | _ => false end.
Definition half_closes (e : endk) : bool := match e with HC | HCW => true | _ => false end.

(* every byte sent must arrive: nothing failed, nobody reset, and the
   forwarding was not cancelled while bytes were in flight *)
Definition demand_full (sc : scen) : bool :=
  negb (s_faults sc) && negb (is_rst (s_endC sc)) && negb (is_rst (s_endS sc))
  && match s_cancel sc with CancelEarly => false | _ => true end.

(* the receiver must see the half-close of a sender that half-closed *)
Definition demand_eof (sc : scen) (sender : endk) : bool :=
  demand_full sc && match s_cancel sc with NoCancel => true | _ => false end
  && half_closes sender.

Definition check_ends (sc : scen) (c s : peer_obs) : bool :=
  prefixb (recv s) (sent c) && prefixb (recv c) (sent s)
  && implb (demand_full sc) (leqb (recv s) (sent c) && leqb (recv c) (sent s))
  && implb (demand_eof sc (s_endC sc)) (eof s)
  && implb (demand_eof sc (s_endS sc)) (eof c).

Record conn_case := {
  cc_scen : scen;
  cc_complete : bool;   (* the harness saw both closes and both directions end *)
  cc_stuck : bool;      (* the scenario had to end by itself and did not *)
  cc_tr : list ev;
  cc_c : peer_obs;
  cc_s : peer_obs }.

Definition check_conn (x : conn_case) : bool :=
  negb (cc_stuck x) && check_trace (cc_complete x) (cc_tr x)
  && check_ends (cc_scen x) (cc_c x) (cc_s x).

Definition sum_audited (c : side) (cs : list conn_case) : nat :=
  list_sum (map (fun x => audited c (cc_tr x)) cs).

(* [mid]: counters read while all connections were open and idle;
   [fin]: counters read at quiescence *)
Definition check_counters (cs : list conn_case) (mid fin : cnt) : bool :=
  let k := length cs in
  (c_open mid =? k) && (c_total mid =? k) && (c_in mid =? 0) && (c_out mid =? 0)
  && (c_open fin =? 0) && (c_total fin =? k)
  && (c_in fin =? sum_audited Fi cs) && (c_out fin =? sum_audited Se cs).

Definition session_case := (list conn_case * cnt * cnt)%type.

Definition check_C33 (x : session_case) : bool :=
  let '(cs, mid, fin) := x in
  forallb check_conn cs && check_counters cs mid fin.

(* ------------------------------------------------------------------ *)
(* Plain trace predicates in which the property is stated. *)

Fixpoint has_cw (c : side) (tr : list ev) : bool :=
  match tr with
  | [] => false
  | ECW c' :: t => (match c, c' with Fi, Fi | Se, Se => true | _, _ => false end) || has_cw c t
  | _ :: t => has_cw c t
  end.

Fixpoint has_cl (c : side) (tr : list ev) : bool :=
  match tr with
  | [] => false
  | ECl c' :: t => (match c, c' with Fi, Fi | Se, Se => true | _, _ => false end) || has_cl c t
  | _ :: t => has_cl c t
  end.

Fixpoint has_cancel (tr : list ev) : bool :=
  match tr with [] => false | ECancel :: _ => true | _ :: t => has_cancel t end.

Fixpoint has_wr (c : side) (tr : list ev) : bool :=
  match tr with
  | [] => false
  | EWr c' _ _ _ :: t => (match c, c' with Fi, Fi | Se, Se => true | _, _ => false end) || has_wr c t
  | _ :: t => has_wr c t
  end.

(* did the last Read on c (if any; [b] otherwise) return EOF *)
Fixpoint eof_last (c : side) (b : bool) (tr : list ev) : bool :=
  match tr with
  | [] => b
  | ERd c' _ r :: t => eof_last c (match c, c' with Fi, Fi | Se, Se => is_eof r | _, _ => b end) t
  | _ :: t => eof_last c b t
  end.

(* a Read on c returned an error *)
Fixpoint rfail_in (c : side) (tr : list ev) : bool :=
  match tr with
  | [] => false
  | ERd c' _ r :: t => (match c, c' with Fi, Fi | Se, Se => is_rerr r | _, _ => false end) || rfail_in c t
  | _ :: t => rfail_in c t
  end.

(* a Write on c failed or was short *)
Fixpoint wfail_in (c : side) (tr : list ev) : bool :=
  match tr with
  | [] => false
  | EWr c' d n ok :: t =>
      (match c, c' with Fi, Fi | Se, Se => negb ok || (n <? length d) | _, _ => false end) || wfail_in c t
  | _ :: t => wfail_in c t
  end.

Definition fail_in (tr : list ev) : bool :=
  rfail_in Fi tr || rfail_in Se tr || wfail_in Fi tr || wfail_in Se tr.

(* the direction towards c ended cleanly in tr *)
Definition clean_in (c : side) (tr : list ev) : bool :=
  eof_last (other c) false tr && negb (rfail_in (other c) tr) && negb (wfail_in c tr)
  && leqb (delivered c tr) (readfrom (other c) tr).
