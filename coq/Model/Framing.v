(* Control-stream framing (C22).  Definitions only.

   Go sources modelled:
     pkg/encoding/protobuf.go
        ProtobufEncoder.Encode            -> [frame], [encode_all]
        ProtobufDecoder.Decode            -> [feed1] / [feed] / [feed_all] (incremental),
                                             [parse_frames] (specification, whole stream)
        ProtobufDecoder.bufferWithSize    -> [buffer_with_size]
        protobufDecoderMaximumAllowedMessageSize -> [go_max_message_size]
     bufio.Writer.Write / Flush           -> [bufio_write], [flush_layer]
     pkg/stream/multi_flusher.go Flush    -> [flush_all]
     pkg/synchronization/endpoint/remote/{client,server}.go
        NewMultiFlusher(outbound, compressor, compressedOutbound) -> [go_flush_order]
     pkg/synchronization/compression      -> the compressor is abstract
        (Section variables [cwrite], [cflush]); its flush contract is
        [compressor_contract], an explicit premise of the theorems.

   A protocol message is represented by its marshalled body (list byte);
   proto.Marshal / proto.Unmarshal stay outside the model. *)
From Coq Require Import List NArith Bool Strings.Byte.
Import ListNotations.
From Mv Require Import Model.Varint.
Local Open Scope N_scope.

Definition msg := list byte.

(* ---- constants of pkg/encoding/protobuf.go and remote/protocol.go ------ *)
Definition go_max_message_size : N := 100 * 1024 * 1024.
Definition go_decoder_initial_buffer : N := 32 * 1024.
Definition go_decoder_max_persistent : N := 1024 * 1024.
Definition go_control_stream_buffer : N := 64 * 1024.

(* ---- encoder ----------------------------------------------------------- *)
(* Encode: AppendVarint(size) ++ marshalled body, handed over in one Write. *)
Definition frame (m : msg) : list byte := uvarint (lenN m) ++ m.
Definition encode_all (ms : list msg) : list byte := concat (map frame ms).

(* the same stream, computed with accumulators (for 10^6-byte messages) *)
Definition encode_all_fast (ms : list msg) : list byte :=
  rev' (fold_left (fun acc m => rev_append (frame m) acc) ms []).

(* ---- decoder ----------------------------------------------------------- *)
Inductive derr := EOverflow | ETooLarge.

Inductive dphase :=
| PLen (v : vstate)                       (* inside binary.ReadUvarint *)
| PBody (need : N) (racc : list byte)     (* inside io.ReadFull: bytes still missing, bytes so far (reversed) *)
| PErr (e : derr).                        (* Decode returned an error: the decoder is corrupted *)

Record dstate := {
  ph : dphase;
  consumed : N;      (* bytes taken from the reader so far *)
  cap : N;           (* capacity of the cached buffer d.buffer *)
  allocated : N      (* total size of the buffers made by bufferWithSize *)
}.

Record dconf := { limit : N; persist : N }.
Definition go_dconf : dconf :=
  {| limit := go_max_message_size; persist := go_decoder_max_persistent |}.

Definition d_init (cap0 : N) : dstate :=
  {| ph := PLen v0; consumed := 0; cap := cap0; allocated := 0 |}.
Definition go_d_init : dstate := d_init go_decoder_initial_buffer.

(* bufferWithSize: (new cached capacity, bytes newly allocated) *)
Definition buffer_with_size (cf : dconf) (cap0 size : N) : N * N :=
  if size <=? cap0 then (cap0, 0)
  else (if size <=? persist cf then size else cap0, size).

(* Decode has read the length n (the reader has handed over c bytes so far):
   the size check precedes bufferWithSize; an empty body needs no read. *)
Definition on_length (cf : dconf) (cap0 al0 c n : N) : dstate * option msg :=
  if limit cf <? n then
    ({| ph := PErr ETooLarge; consumed := c; cap := cap0; allocated := al0 |}, None)
  else
    let (cap', al) := buffer_with_size cf cap0 n in
    if n =? 0 then
      ({| ph := PLen v0; consumed := c; cap := cap'; allocated := al0 + al |}, Some [])
    else
      ({| ph := PBody n []; consumed := c; cap := cap'; allocated := al0 + al |}, None).

(* The decoder consumes one more byte. *)
Definition feed1 (cf : dconf) (st : dstate) (b : byte) : dstate * option msg :=
  match ph st with
  | PErr _ => (st, None)
  | PLen v =>
      let c := N.succ (consumed st) in
      match vstep v b with
      | VCont v' => ({| ph := PLen v'; consumed := c; cap := cap st; allocated := allocated st |}, None)
      | VOver => ({| ph := PErr EOverflow; consumed := c; cap := cap st; allocated := allocated st |}, None)
      | VDone n => on_length cf (cap st) (allocated st) c n
      end
  | PBody need racc =>
      let c := N.succ (consumed st) in
      if need =? 1 then
        ({| ph := PLen v0; consumed := c; cap := cap st; allocated := allocated st |},
         Some (rev' (b :: racc)))
      else
        ({| ph := PBody (N.pred need) (b :: racc); consumed := c; cap := cap st; allocated := allocated st |},
         None)
  end.

Definition push {A} (o : option A) (acc : list A) : list A :=
  match o with Some m => m :: acc | None => acc end.

(* One fragment (whatever a Read of the underlying reader returned). *)
Fixpoint feed_acc (cf : dconf) (st : dstate) (l : list byte) (racc : list msg) : dstate * list msg :=
  match l with
  | [] => (st, racc)
  | b :: t =>
      let (st', o) := feed1 cf st b in
      feed_acc cf st' t (push o racc)
  end.
Definition feed (cf : dconf) (st : dstate) (l : list byte) : dstate * list msg :=
  let (st', r) := feed_acc cf st l [] in (st', rev' r).

(* A sequence of fragments. *)
Fixpoint feed_all_acc (cf : dconf) (st : dstate) (frags : list (list byte)) (racc : list msg)
  : dstate * list msg :=
  match frags with
  | [] => (st, racc)
  | f :: t => let (st', r) := feed_acc cf st f racc in feed_all_acc cf st' t r
  end.
Definition feed_all (cf : dconf) (st : dstate) (frags : list (list byte)) : dstate * list msg :=
  let (st', r) := feed_all_acc cf st frags [] in (st', rev' r).

(* What the pending Decode returns when the stream ends here. *)
Inductive dend :=
| DClean        (* EOF before the first length byte: "unable to read message length: EOF" *)
| DShortLen     (* EOF inside the length *)
| DShortBody    (* EOF inside the body: "unable to read message" *)
| DFailed (e : derr).
Definition finish (st : dstate) : dend :=
  match ph st with
  | PLen v => if Nat.eqb (vi v) 0 then DClean else DShortLen
  | PBody _ _ => DShortBody
  | PErr e => DFailed e
  end.

(* ---- specification: the frames of a whole stream ------------------------ *)
Fixpoint split_acc {A} (n : N) (l : list A) (racc : list A) : list A * list A :=
  match l with
  | [] => (rev' racc, [])
  | x :: t => if n =? 0 then (rev' racc, l) else split_acc (N.pred n) t (x :: racc)
  end.
Definition split_at {A} (n : N) (l : list A) : list A * list A := split_acc n l [].

(* None = out of fuel (never for fuel > length). *)
Fixpoint parse_frames (fuel : nat) (lim : N) (l : list byte) : option (list msg * dend) :=
  match fuel with
  | O => None
  | S f =>
      match l with
      | [] => Some ([], DClean)
      | _ =>
          match read_uvarint l with
          | UvShort => Some ([], DShortLen)
          | UvOverflow => Some ([], DFailed EOverflow)
          | UvOk n r =>
              if lim <? n then Some ([], DFailed ETooLarge)
              else if lenN r <? n then Some ([], DShortBody)
              else let (m, r') := split_at n r in
                   match parse_frames f lim r' with
                   | Some (ms, e) => Some (m :: ms, e)
                   | None => None
                   end
          end
      end
  end.
Definition parse_stream (lim : N) (l : list byte) : option (list msg * dend) :=
  parse_frames (S (length l)) lim l.

(* ---- the writer pipeline  bufio(n1) -> compressor -> bufio(n2) -> transport *)
Inductive layer := LOuter | LComp | LInner.

(* streampkg.NewMultiFlusher(outbound, compressor, compressedOutbound) *)
Definition go_flush_order : list layer := [LOuter; LComp; LInner].

(* bufio.Writer.Write on a buffer of size n holding buf: the new buffer
   content and the Write calls issued to the underlying writer, in order.
   The Go loop runs at most twice (after a flush the buffer is empty). *)
Definition bufio_write (n : N) (buf p : list byte) : list byte * list (list byte) :=
  if lenN p <=? n - lenN buf then (buf ++ p, [])
  else if lenN buf =? 0 then ([], [p])
  else let (p1, p2) := split_at (n - lenN buf) p in
       if lenN p2 <=? n then (p2, [buf ++ p1]) else ([], [buf ++ p1; p2]).

Section Pipeline.
Variable C : Type.                                   (* compressor state *)
Variable cwrite : C -> list byte -> C * list byte.   (* Write: new state, bytes emitted downstream *)
Variable cflush : C -> C * list byte.                (* Flush *)

Record pstate := {
  outer : list byte;       (* buffered in outbound (uncompressed) *)
  comp : C;
  inner : list byte;       (* buffered in compressedOutbound *)
  transport : list byte;   (* everything handed to the stream so far *)
  written : list byte      (* ghost: everything the encoder wrote so far *)
}.

Definition p_init (c0 : C) : pstate :=
  {| outer := []; comp := c0; inner := []; transport := []; written := [] |}.

Definition inner_write (n2 : N) (st : pstate) (e : list byte) : pstate :=
  let (buf', chunks) := bufio_write n2 (inner st) e in
  {| outer := outer st; comp := comp st; inner := buf';
     transport := transport st ++ concat chunks; written := written st |}.

Definition comp_write (n2 : N) (st : pstate) (chunk : list byte) : pstate :=
  let (c', e) := cwrite (comp st) chunk in
  inner_write n2 {| outer := outer st; comp := c'; inner := inner st;
                    transport := transport st; written := written st |} e.

(* the encoder's Write into outbound *)
Definition outer_write (n1 n2 : N) (st : pstate) (p : list byte) : pstate :=
  let (buf', chunks) := bufio_write n1 (outer st) p in
  fold_left (comp_write n2) chunks
    {| outer := buf'; comp := comp st; inner := inner st;
       transport := transport st; written := written st ++ p |}.

Definition flush_layer (n2 : N) (st : pstate) (l : layer) : pstate :=
  match l with
  | LOuter =>
      match outer st with
      | [] => st
      | _ => comp_write n2 {| outer := []; comp := comp st; inner := inner st;
                              transport := transport st; written := written st |} (outer st)
      end
  | LComp =>
      let (c', e) := cflush (comp st) in
      inner_write n2 {| outer := outer st; comp := c'; inner := inner st;
                        transport := transport st; written := written st |} e
  | LInner =>
      {| outer := outer st; comp := comp st; inner := [];
         transport := transport st ++ inner st; written := written st |}
  end.

(* multiFlusher.Flush (no layer reports an error) *)
Definition flush_all (n2 : N) (order : list layer) (st : pstate) : pstate :=
  fold_left (flush_layer n2) order st.

Inductive pop := OpWrite (p : list byte) | OpFlush (order : list layer).

Definition p_step (n1 n2 : N) (st : pstate) (o : pop) : pstate :=
  match o with
  | OpWrite p => outer_write n1 n2 st p
  | OpFlush order => flush_all n2 order st
  end.
Definition p_run (n1 n2 : N) (st : pstate) (ops : list pop) : pstate :=
  fold_left (p_step n1 n2) ops st.

(* The histories a compressor can be in: total input, total output. *)
Inductive creach (c0 : C) : C -> list byte -> list byte -> Prop :=
| cr_init : creach c0 c0 [] []
| cr_write : forall c i o p c' e,
    creach c0 c i o -> cwrite c p = (c', e) -> creach c0 c' (i ++ p) (o ++ e)
| cr_flush : forall c i o c' e,
    creach c0 c i o -> cflush c = (c', e) -> creach c0 c' i (o ++ e).

(* The flush contract assumed of a compression algorithm, relative to the
   decompression function [decomp] (what the peer's decompressor has produced
   once it has received a given prefix of the compressed stream):
   - after Flush, everything written so far can be recovered;
   - the peer never sees bytes that were not written;
   - more compressed input never retracts decompressed output. *)
Definition compressor_contract (c0 : C) (decomp : list byte -> list byte) : Prop :=
  (forall c i o c' e, creach c0 c i o -> cflush c = (c', e) -> decomp (o ++ e) = i)
  /\ (forall c i o, creach c0 c i o -> exists rest, i = decomp o ++ rest)
  /\ (forall a b, exists more, decomp (a ++ b) = decomp a ++ more).

End Pipeline.

Arguments outer {C}. Arguments comp {C}. Arguments inner {C}.
Arguments transport {C}. Arguments written {C}.

(* what a sequence of pipeline operations wrote, and the operations of an
   endpoint that encodes each segment of messages and then flushes *)
Definition writes_of (ops : list pop) : list byte :=
  concat (map (fun o => match o with OpWrite p => p | OpFlush _ => [] end) ops).
Definition ops_of_segments (segs : list (list msg)) : list pop :=
  concat (map (fun seg => map (fun m => OpWrite (frame m)) seg ++ [OpFlush go_flush_order]) segs).

(* Two concrete compressors.
   [none_*]: compression.Algorithm_AlgorithmNone (noneCompressor: Write passes
   through, Flush does nothing).
   [hold_*]: a lawful compressor that keeps everything until Flush; it is the
   witness that the flush order matters. *)
Definition none_write (c : unit) (p : list byte) : unit * list byte := (tt, p).
Definition none_flush (c : unit) : unit * list byte := (tt, []).
Definition hold_write (c : list byte) (p : list byte) : list byte * list byte := (c ++ p, []).
Definition hold_flush (c : list byte) : list byte * list byte := ([], c).
Definition id_decomp (l : list byte) : list byte := l.

Definition all_orders : list (list layer) :=
  [ [LOuter; LComp; LInner]; [LOuter; LInner; LComp]; [LComp; LOuter; LInner];
    [LComp; LInner; LOuter]; [LInner; LOuter; LComp]; [LInner; LComp; LOuter] ].

Definition layer_eqb (a b : layer) : bool :=
  match a, b with LOuter, LOuter | LComp, LComp | LInner, LInner => true | _, _ => false end.
Fixpoint order_eqb (a b : list layer) : bool :=
  match a, b with
  | [], [] => true
  | x :: a', y :: b' => layer_eqb x y && order_eqb a' b'
  | _, _ => false
  end.

(* ---- equality tests (tail calls only) ---------------------------------- *)
Fixpoint msgs_eqb (a b : list msg) : bool :=
  match a, b with
  | [], [] => true
  | x :: a', y :: b' => if bytes_eqb x y then msgs_eqb a' b' else false
  | _, _ => false
  end.

(* ---- what the harness observes, and the checkers ------------------------ *)
(* Result codes of Decode as the harness classifies them:
   0 ok, 1 EOF before a length, 2 EOF inside a length, 3 varint overflow,
   4 message size too large, 5 EOF inside a body, 6 unmarshal error,
   7 the reader had no more data (pipeline runs), 8 anything else. *)
Definition dend_code (e : dend) : N :=
  match e with
  | DClean => 1 | DShortLen => 2 | DFailed EOverflow => 3
  | DFailed ETooLarge => 4 | DShortBody => 5
  end.

(* Pipeline run.  Input: the messages written before each flush.
   Output of the implementation: for each flush, the messages the peer's
   decoder returned without further data, and the first non-zero code. *)
Definition pipe_in := list (list msg).
Definition pipe_out := list (list msg * N).

Fixpoint check_pipe (i : pipe_in) (o : pipe_out) : bool :=
  match i, o with
  | [], [] => true
  | seg :: i', (d, code) :: o' => msgs_eqb seg d && (code =? 0) && check_pipe i' o'
  | _, _ => false
  end.

(* Raw decoder run on an arbitrary byte stream (until the first error).
   Output: decoded messages and the code of the final error. *)
Definition raw_out := (list msg * N)%type.

Definition check_raw (lim : N) (stream : list byte) (o : raw_out) : bool :=
  match parse_stream lim stream with
  | None => false
  | Some (ms, e) =>
      msgs_eqb ms (fst o)
      && match e with DFailed ETooLarge => snd o =? 4 | _ => true end
  end.

(* the model's own answer on a fragmented raw stream *)
Definition model_raw (cf : dconf) (st : dstate) (frags : list (list byte)) : raw_out :=
  let (st', ms) := feed_all cf st frags in (ms, dend_code (finish st')).

(* the model's own answer on a pipeline run, given the fragments the
   decompressor handed to the decoder during each segment: code 0 when the
   decoder is back at a frame boundary, 7 when it is waiting for more data *)
Definition pipe_code (st : dstate) : N :=
  match finish st with
  | DClean => 0
  | DShortLen | DShortBody => 7
  | DFailed e => dend_code (DFailed e)
  end.
Fixpoint model_pipe (cf : dconf) (st : dstate) (segfrags : list (list (list byte))) : pipe_out :=
  match segfrags with
  | [] => []
  | fs :: t => let (st', ms) := feed_all cf st fs in (ms, pipe_code st') :: model_pipe cf st' t
  end.
