(* M-FS: the shared filesystem model (definitions only, no proofs).

   Models what pkg/filesystem offers to the rest of mutagen on POSIX:
   filesystem.Open (open_root), filesystem.Directory methods
   (directory_posix.go) and filesystem.Rename.  A filesystem is a tree of
   [node]s; a directory handle is the path of names from the root of the tree
   to the directory (what a directory file descriptor obtained by successive
   openat(O_NOFOLLOW) calls denotes, as long as no ancestor of it is renamed or
   removed while it is held).  Every primitive takes ONE name relative to a
   handle, consults the environment for the outcome of the n-th primitive call
   (n = [calls] of the state) and returns the new state and a result.  A
   primitive that fails (by injection or by its own POSIX error) has no effect
   on the tree; it still consumes one call index.  A name rejected by
   ensureValidName fails before any call is issued (no index consumed).

   Names, link targets, file contents are Coq [string]s (byte sequences) as in
   Model/Entry.v; directory contents are association lists kept strictly
   sorted by name (String.ltb) in well-formed trees. *)
From Coq Require Import List Bool Arith String Ascii NArith.
From Mv Require Import Model.Entry.
Import ListNotations.
Open Scope string_scope.

(* ---------- nodes ---------- *)

(* What lstat reports apart from the type: m_mode = st_mode & 07777. *)
Record meta := {
  m_mode : N;     (* permission bits (incl. setuid/setgid/sticky)      *)
  m_size : N;     (* st_size                                           *)
  m_mtime : N;    (* modification time, nanoseconds since the epoch    *)
  m_fid : N;      (* st_ino  (Metadata.FileID)                         *)
  m_dev : N       (* st_dev  (Metadata.DeviceID)                       *)
}.

Inductive node :=
| NDir (m : meta) (c : list (name * node))
| NFile (m : meta) (data : string)
| NLink (m : meta) (target : string)
| NOther (m : meta) (ty : N).   (* fifo/socket/device; ty = st_mode & S_IFMT *)

Definition S_IFMT : N := 61440.   (* 0170000 *)
Definition S_IFDIR : N := 16384.  (* 0040000 *)
Definition S_IFREG : N := 32768.  (* 0100000 *)
Definition S_IFLNK : N := 40960.  (* 0120000 *)
Definition S_IFIFO : N := 4096.   (* 0010000 *)
Definition S_IFSOCK : N := 49152. (* 0140000 *)
Definition S_IFCHR : N := 8192.   (* 0020000 *)
Definition S_IFBLK : N := 24576.  (* 0060000 *)

Definition node_meta (x : node) : meta :=
  match x with NDir m _ | NFile m _ | NLink m _ | NOther m _ => m end.

Definition type_bits (x : node) : N :=
  match x with
  | NDir _ _ => S_IFDIR | NFile _ _ => S_IFREG | NLink _ _ => S_IFLNK
  | NOther _ ty => ty
  end.

(* Metadata.Mode: type bits + permission bits *)
Definition full_mode (x : node) : N := (type_bits x + m_mode (node_meta x))%N.

Definition is_dir (x : node) : bool := match x with NDir _ _ => true | _ => false end.

Definition with_meta (x : node) (m : meta) : node :=
  match x with
  | NDir _ c => NDir m c | NFile _ b => NFile m b
  | NLink _ t => NLink m t | NOther _ ty => NOther m ty
  end.

Definition set_mode (m : meta) (p : N) : meta :=
  {| m_mode := p; m_size := m_size m; m_mtime := m_mtime m; m_fid := m_fid m; m_dev := m_dev m |}.

Definition strlen (s : string) : N := N.of_nat (String.length s).

(* ---------- tree access ---------- *)

Fixpoint nlookup (n : name) (c : list (name * node)) : option node :=
  match c with
  | [] => None
  | (m, x) :: t => if String.eqb n m then Some x else nlookup n t
  end.

(* set (Some) or delete (None) the child named n, keeping the list sorted *)
Fixpoint nset (n : name) (v : option node) (c : list (name * node)) : list (name * node) :=
  match c with
  | [] => match v with Some x => [(n, x)] | None => [] end
  | (m, e) :: t =>
    if String.eqb n m then match v with Some x => (n, x) :: t | None => t end
    else if String.ltb n m then match v with Some x => (n, x) :: c | None => c end
    else (m, e) :: nset n v t
  end.

Definition nchildren (x : node) : list (name * node) :=
  match x with NDir _ c => c | _ => [] end.

(* the node at a path below [x] (no link is ever followed) *)
Fixpoint get (p : path) (x : node) : option node :=
  match p with
  | [] => Some x
  | n :: rest =>
    match x with
    | NDir _ c => match nlookup n c with Some y => get rest y | None => None end
    | _ => None
    end
  end.

(* replace / delete the node at a non-empty path; None when the parent is not
   an existing directory (or the path is empty) *)
Fixpoint put (p : path) (v : option node) (x : node) : option node :=
  match p with
  | [] => None
  | [n] =>
    match x with
    | NDir m c => Some (NDir m (nset n v c))
    | _ => None
    end
  | n :: rest =>
    match x with
    | NDir m c =>
      match nlookup n c with
      | Some y => match put rest v y with
                  | Some y' => Some (NDir m (nset n (Some y') c))
                  | None => None
                  end
      | None => None
      end
    | _ => None
    end
  end.

(* the directory a handle denotes *)
Definition dir_at (h : path) (x : node) : option (meta * list (name * node)) :=
  match get h x with
  | Some (NDir m c) => Some (m, c)
  | _ => None
  end.

(* ---------- well-formedness ---------- *)

Definition meta_wf (m : meta) : bool := N.ltb (m_mode m) 4096.

Fixpoint wf_node (x : node) : bool :=
  let fix wf_list (l : list (name * node)) : bool :=
    match l with
    | [] => true
    | (n, y) :: t => negb (String.eqb n "") && negb (String.eqb n ".") && negb (String.eqb n "..")
                     && negb (existsb (fun a => Ascii.eqb a "/"%char) (list_ascii_of_string n))
                     && wf_node y && wf_list t
    end in
  meta_wf (node_meta x) &&
  match x with
  | NDir _ c => wf_list c && sorted_names (map fst c)
  | NFile m b => N.eqb (m_size m) (strlen b)
  | NLink _ _ => true
  | NOther _ ty => N.eqb (N.land ty S_IFMT) ty && negb (N.eqb ty S_IFDIR)
                   && negb (N.eqb ty S_IFREG) && negb (N.eqb ty S_IFLNK)
  end.

(* ---------- the environment: faults, clock, inode allocator ---------- *)

Inductive errno :=
| ENOENT | EEXIST | ENOTDIR | EISDIR | ENOTEMPTY | ELOOP | EINVAL | EXDEV
| EACCES | EPERM | EIO | ENOSPC
| EBADNAME      (* ensureValidName rejected the name (no syscall issued)     *)
| ENOTFILE      (* Directory.open: "path is not a file"                      *)
| EUNSUPPORTED  (* filesystem.Open: ErrUnsupportedOpenType                   *)
| ESTALE        (* the handle no longer denotes a directory                  *)
| EOTHER (code : N).

Definition errno_eqb (a b : errno) : bool :=
  match a, b with
  | ENOENT, ENOENT | EEXIST, EEXIST | ENOTDIR, ENOTDIR | EISDIR, EISDIR
  | ENOTEMPTY, ENOTEMPTY | ELOOP, ELOOP | EINVAL, EINVAL | EXDEV, EXDEV
  | EACCES, EACCES | EPERM, EPERM | EIO, EIO | ENOSPC, ENOSPC
  | EBADNAME, EBADNAME | ENOTFILE, ENOTFILE | EUNSUPPORTED, EUNSUPPORTED
  | ESTALE, ESTALE => true
  | EOTHER x, EOTHER y => N.eqb x y
  | _, _ => false
  end.

(* os.IsNotExist / os.IsExist / filesystem.IsCrossDeviceError *)
Definition is_not_exist (e : errno) : bool := match e with ENOENT => true | _ => false end.
Definition is_exist (e : errno) : bool := match e with EEXIST => true | _ => false end.
Definition is_cross_device (e : errno) : bool := match e with EXDEV => true | _ => false end.

Inductive outcome := Ok | Fail (e : errno) | Cancelled.

Record env := {
  oracle : nat -> outcome;   (* fate of the n-th primitive call             *)
  clock : nat -> N;          (* mtime stamped by the n-th call if it writes  *)
  fresh_id : nat -> N;       (* inode number allocated by the n-th call      *)
  temp_tag : nat -> string   (* random component chosen by create_temp       *)
}.

Definition no_faults : nat -> outcome := fun _ => Ok.

Record state := { fs : node; calls : nat }.

Inductive result (A : Type) :=
| ROk (a : A)
| RErr (e : errno)
| RCancelled.
Arguments ROk {A} a.
Arguments RErr {A} e.
Arguments RCancelled {A}.

(* ensureValidName *)
Definition prim_name_ok (n : name) : bool :=
  negb (String.eqb n ".") && negb (String.eqb n "..")
  && negb (existsb (fun a => Ascii.eqb a "/"%char) (list_ascii_of_string n)).

(* One primitive call: name check, then the environment, then the action on the
   tree.  [act k x] gets the call index (for clock/fresh_id) and the tree and
   returns either a value and the new tree, or an error (tree unchanged). *)
Definition prim {A : Type} (E : env) (name_ok : bool)
           (act : nat -> node -> (A * node) + errno) (s : state) : state * result A :=
  if negb name_ok then (s, RErr EBADNAME) else
  let k := calls s in
  let s1 := {| fs := fs s; calls := S k |} in
  match oracle E k with
  | Fail e => (s1, RErr e)
  | Cancelled => (s1, RCancelled)
  | Ok => match act k (fs s) with
          | inl (a, x') => ({| fs := x'; calls := S k |}, ROk a)
          | inr e => (s1, RErr e)
          end
  end.

(* a read-only action *)
Definition reading {A : Type} (f : node -> A + errno) : nat -> node -> (A * node) + errno :=
  fun _ x => match f x with inl a => inl (a, x) | inr e => inr e end.

(* ---------- Metadata (metadata.go) ---------- *)

Record metadata := {
  md_name : name;
  md_mode : N;    (* full st_mode: type bits + permission bits *)
  md_size : N;
  md_mtime : N;
  md_dev : N;
  md_fid : N
}.

Definition metadata_of (n : name) (x : node) : metadata :=
  let m := node_meta x in
  {| md_name := n; md_mode := full_mode x; md_size := m_size m;
     md_mtime := m_mtime m; md_dev := m_dev m; md_fid := m_fid m |}.

(* an opened regular file: fstat at open time + the bytes a read will return *)
Record ofile := { of_meta : metadata; of_data : string }.

Definition in_dir {A : Type} (h : path) (x : node)
           (k : meta -> list (name * node) -> A + errno) : A + errno :=
  match dir_at h x with
  | Some (m, c) => k m c
  | None => inr ESTALE
  end.

(* ---------- read-only primitives ---------- *)

(* Directory.OpenDirectory: openat(O_NOFOLLOW|O_DIRECTORY); "." re-opens *)
Definition open_dir (E : env) (h : path) (n : name) : state -> state * result path :=
  prim E (String.eqb n "." || prim_name_ok n)
       (reading (fun x => in_dir h x (fun _ c =>
          if String.eqb n "." then inl h else
          match nlookup n c with
          | None => inr ENOENT
          | Some (NDir _ _) => inl (h ++ [n])%list
          | Some _ => inr ENOTDIR
          end))).

(* Directory.ReadContentNames *)
Definition read_names (E : env) (h : path) : state -> state * result (list name) :=
  prim E true (reading (fun x => in_dir h x (fun _ c => inl (map fst c)))).

(* Directory.ReadContents: names + lstat of each, in the model's sorted order
   (the callers put the result into maps). One primitive of the Directory API. *)
Definition read_contents (E : env) (h : path) : state -> state * result (list metadata) :=
  prim E true (reading (fun x => in_dir h x (fun _ c =>
     inl (map (fun ny => metadata_of (fst ny) (snd ny)) c)))).

(* Directory.ReadContentMetadata: fstatat(AT_SYMLINK_NOFOLLOW) *)
Definition read_meta (E : env) (h : path) (n : name) : state -> state * result metadata :=
  prim E (prim_name_ok n) (reading (fun x => in_dir h x (fun _ c =>
     match nlookup n c with
     | None => inr ENOENT
     | Some y => inl (metadata_of n y)
     end))).

(* Directory.ReadSymbolicLink: readlinkat *)
Definition read_link (E : env) (h : path) (n : name) : state -> state * result string :=
  prim E (prim_name_ok n) (reading (fun x => in_dir h x (fun _ c =>
     match nlookup n c with
     | None => inr ENOENT
     | Some (NLink _ t) => inl t
     | Some _ => inr EINVAL
     end))).

(* Directory.OpenFile: openat(O_RDONLY|O_NOFOLLOW) + fstat + type check.
   (Opening a FIFO would block in reality; no caller opens one because the
   type from ReadContents is checked first.) *)
Definition open_file (E : env) (h : path) (n : name) : state -> state * result ofile :=
  prim E (prim_name_ok n) (reading (fun x => in_dir h x (fun _ c =>
     match nlookup n c with
     | None => inr ENOENT
     | Some (NFile m b) => inl {| of_meta := metadata_of n (NFile m b); of_data := b |}
     | Some (NLink _ _) => inr ELOOP
     | Some _ => inr ENOTFILE
     end))).

(* reading an opened file to its end (io.Copy from the descriptor) *)
Definition read_data (E : env) (f : ofile) : state -> state * result string :=
  prim E true (reading (fun _ => inl (of_data f))).

(* filesystem.Open(path, false) on the path [r] from the root of the model tree *)
Inductive root_object :=
| RootDir (md : metadata)          (* a Directory handle on r *)
| RootFile (f : ofile).

Definition open_root (E : env) (r : path) : state -> state * result root_object :=
  prim E true (reading (fun x =>
     let nm := last r "" in
     match get r x with
     | None => inr ENOENT
     | Some (NDir m c) => inl (RootDir (metadata_of nm (NDir m c)))
     | Some (NFile m b) => inl (RootFile {| of_meta := metadata_of nm (NFile m b); of_data := b |})
     | Some (NLink _ _) => inr ELOOP
     | Some (NOther _ _) => inr EUNSUPPORTED
     end)).

(* ---------- mutating primitives ---------- *)

Definition new_meta (E : env) (k : nat) (perm size dev : N) : meta :=
  {| m_mode := perm; m_size := size; m_mtime := clock E k; m_fid := fresh_id E k; m_dev := dev |}.

(* run [f] on the directory a handle denotes and store the new contents *)
Definition in_dir_upd {A : Type} (h : path) (x : node)
           (k : meta -> list (name * node) -> (A * list (name * node)) + errno)
  : (A * node) + errno :=
  match dir_at h x with
  | None => inr ESTALE
  | Some (m, c) =>
    match k m c with
    | inr e => inr e
    | inl (a, c') =>
      match h with
      | [] => inl (a, NDir m c')
      | _ => match put h (Some (NDir m c')) x with
             | Some x' => inl (a, x')
             | None => inr ESTALE
             end
      end
    end
  end.

(* Directory.CreateDirectory: mkdirat(0700) *)
Definition mkdir (E : env) (h : path) (n : name) : state -> state * result unit :=
  prim E (prim_name_ok n) (fun k x => in_dir_upd h x (fun m c =>
     match nlookup n c with
     | Some _ => inr EEXIST
     | None => if String.eqb n "" then inr ENOENT else
               inl (tt, nset n (Some (NDir (new_meta E k 448 0 (m_dev m)) [])) c)
     end)).

(* Directory.CreateSymbolicLink: symlinkat *)
Definition symlink (E : env) (h : path) (n : name) (target : string) : state -> state * result unit :=
  prim E (prim_name_ok n) (fun k x => in_dir_upd h x (fun m c =>
     match nlookup n c with
     | Some _ => inr EEXIST
     | None => if String.eqb n "" || String.eqb target "" then inr ENOENT else
               inl (tt, nset n (Some (NLink (new_meta E k 511 (strlen target) (m_dev m)) target)) c)
     end)).

(* Directory.RemoveFile / RemoveSymbolicLink: unlinkat(0) *)
Definition unlink (E : env) (h : path) (n : name) : state -> state * result unit :=
  prim E (prim_name_ok n) (fun _ x => in_dir_upd h x (fun _ c =>
     match nlookup n c with
     | None => inr ENOENT
     | Some (NDir _ _) => inr EISDIR
     | Some _ => inl (tt, nset n None c)
     end)).

(* Directory.RemoveDirectory: unlinkat(AT_REMOVEDIR) *)
Definition rmdir (E : env) (h : path) (n : name) : state -> state * result unit :=
  prim E (prim_name_ok n) (fun _ x => in_dir_upd h x (fun _ c =>
     match nlookup n c with
     | None => inr ENOENT
     | Some (NDir _ []) => inl (tt, nset n None c)
     | Some (NDir _ (_ :: _)) => inr ENOTEMPTY
     | Some _ => inr ENOTDIR
     end)).

(* the fchmod half of Directory.SetPermissions on Linux:
   openat(O_RDONLY|O_NOFOLLOW) + fchmod(mode & 0777) *)
Definition chmod (E : env) (h : path) (n : name) (perm : N) : state -> state * result unit :=
  prim E (prim_name_ok n) (fun _ x => in_dir_upd h x (fun _ c =>
     match nlookup n c with
     | None => inr ENOENT
     | Some (NLink _ _) => inr ELOOP
     | Some y => inl (tt, nset n (Some (with_meta y (set_mode (node_meta y) (N.land perm 511)))) c)
     end)).

(* the fchownat(AT_SYMLINK_NOFOLLOW) half; ownership is not part of [meta] *)
Definition chown (E : env) (h : path) (n : name) : state -> state * result unit :=
  prim E (prim_name_ok n) (reading (fun x => in_dir h x (fun _ c =>
     match nlookup n c with
     | None => inr ENOENT
     | Some _ => inl tt
     end))).

(* Directory.SetPermissions(name, ownership, mode): ownership first (if any
   component is set), then permissions (if mode & 0777 is non-zero) *)
Definition set_permissions (E : env) (h : path) (n : name) (set_owner : bool) (mode : N)
  : state -> state * result unit :=
  fun s =>
    if negb (prim_name_ok n) then (s, RErr EBADNAME) else
    let '(s1, r1) := if set_owner then chown E h n s else (s, ROk tt) in
    match r1 with
    | ROk _ => if N.eqb (N.land mode 511) 0 then (s1, ROk tt) else chmod E h n mode s1
    | r => (s1, r)
    end.

(* filesystem.Rename(sourceDirectory, sourceName, targetDirectory, targetName,
   replace): renameat / renameat2(RENAME_NOREPLACE). Locations given by path in
   the Go code are (handle of the parent, base name) here. *)
Definition rename (E : env) (sh : path) (sn : name) (th : path) (tn : name) (replace : bool)
  : state -> state * result unit :=
  prim E (prim_name_ok sn && prim_name_ok tn) (fun _ x =>
    match dir_at sh x, dir_at th x with
    | Some (sm, sc), Some (tm, tc) =>
      match nlookup sn sc with
      | None => inr ENOENT
      | Some src =>
        if path_eqb (sh ++ [sn])%list (th ++ [tn])%list then inl (tt, x) else
        let clash :=
          match nlookup tn tc with
          | None => if String.eqb tn "" then Some ENOENT else None
          | Some t =>
            if negb replace then Some EEXIST else
            match src, t with
            | NDir _ _, NDir _ [] => None
            | NDir _ _, NDir _ (_ :: _) => Some ENOTEMPTY
            | NDir _ _, _ => Some ENOTDIR
            | _, NDir _ _ => Some EISDIR
            | _, _ => None
            end
          end in
        match clash with
        | Some e => inr e
        | None =>
          if negb (N.eqb (m_dev sm) (m_dev tm)) then inr EXDEV else
          if is_dir src && is_prefix (sh ++ [sn])%list th then inr EINVAL else
          match put (sh ++ [sn])%list None x with
          | None => inr ESTALE
          | Some x1 => match put (th ++ [tn])%list (Some src) x1 with
                       | None => inr ESTALE
                       | Some x2 => inl (tt, x2)
                       end
          end
        end
      end
    | _, _ => inr ESTALE
    end).

(* Directory.CreateTemporaryFile(pattern): prefix ++ random ++ suffix split at
   the last '*'; openat(O_CREAT|O_EXCL, 0600). The retry loop on EEXIST is not
   modelled: a taken name is reported as EEXIST ("exhausted"). *)
Fixpoint split_last_star (s : string) : option (string * string) :=
  match s with
  | EmptyString => None
  | String a rest =>
    match split_last_star rest with
    | Some (p, q) => Some (String a p, q)
    | None => if Ascii.eqb a "*"%char then Some (EmptyString, rest) else None
    end
  end.

Definition temp_name (pattern tag : string) : string :=
  match split_last_star pattern with
  | Some (p, q) => p ++ tag ++ q
  | None => pattern ++ tag
  end.

Definition create_temp (E : env) (h : path) (pattern : string) : state -> state * result name :=
  prim E (prim_name_ok pattern) (fun k x => in_dir_upd h x (fun m c =>
     let n := temp_name pattern (temp_tag E k) in
     match nlookup n c with
     | Some _ => inr EEXIST
     | None => inl (n, nset n (Some (NFile (new_meta E k 384 0 (m_dev m)) "")) c)
     end)).

(* writing the whole content through the descriptor create_temp returned
   (the descriptor is identified by handle + name in the model) *)
Definition write_file (E : env) (h : path) (n : name) (data : string) : state -> state * result unit :=
  prim E true (fun k x => in_dir_upd h x (fun _ c =>
     match nlookup n c with
     | Some (NFile m _) =>
       inl (tt, nset n (Some (NFile {| m_mode := m_mode m; m_size := strlen data;
                                       m_mtime := clock E k; m_fid := m_fid m; m_dev := m_dev m |}
                                    data)) c)
     | Some _ => inr EINVAL
     | None => inr ENOENT
     end)).

(* ---------- sequencing helper for callers ---------- *)
Definition bind {A B : Type} (m : state -> state * result A) (f : A -> state -> state * result B)
  : state -> state * result B :=
  fun s => let '(s1, r) := m s in
           match r with
           | ROk a => f a s1
           | RErr e => (s1, RErr e)
           | RCancelled => (s1, RCancelled)
           end.
