(* Extensions of the shared filesystem model (Model/Fs.v) needed by the
   transition model (Model/Transition.v).  Definitions only, no proofs.

   1. The staging area.  core.Transition obtains new file contents from a
      Provider that maps (path, digest) to a filesystem path OUTSIDE the
      synchronization root.  The model keeps the staging area as a separate
      partial map [store] next to the tree instead of as a second subtree: a
      key (path, digest) is bound to a [slot] that says whether the staging
      directory lies on another device than the synchronization root
      ([sl_xdev]) and what, if anything, is found at the provided path
      ([sl_obj]: a regular file with its permission bits and content, a
      directory, or nothing = "the staged file is missing").  The primitives on
      it are the path-based calls findAndMoveStagedFileIntoPlace issues:
      filesystem.SetPermissionsByPath (os.Chown, os.Chmod), filesystem.Rename
      with a nil source directory, os.Open, reading the opened file, os.Remove.
      Each consults the same call-indexed oracle as the primitives of Fs.v and
      has no effect when it fails.

   2. [rename_local]: filesystem.Rename with source and target in the SAME
      directory handle (the cross-device fallback renames the temporary file
      inside the parent directory).  It is Fs.rename specialised to sh = th,
      written in the in_dir_upd style of the other one-directory primitives.

   3. The world state [xstate] = tree + call counter + staging store, with
      [liftF] running an Fs.v primitive on it.

   4. Cancellation.  In Go the context is cancelled asynchronously and the
      transition polls it at check points; a system call is never cancelled.
      The model reads the oracle outcome [Cancelled] at index k as "the
      context is cancelled at the moment the k-th primitive is issued": that
      primitive itself proceeds normally ([quiet] maps Cancelled to Ok for the
      primitives) and every check point reached when [calls >= k] observes the
      cancellation ([cancelled_at], monotone in the call counter). *)
From Coq Require Import List Bool Arith String Ascii NArith.
From Mv Require Import Model.Entry Model.Fs.
Import ListNotations.
Open Scope string_scope.

(* ---------- the staging store ---------- *)

Inductive sobj :=
| SFile (mode : N) (data : string)   (* regular file: permission bits, content *)
| SDir (mode : N).                   (* an (empty) directory where a file should be *)

Record slot := { sl_xdev : bool; sl_obj : option sobj }.

Definition skey := (path * string)%type.    (* Provide(path, digest) *)

Definition skey_eqb (a b : skey) : bool :=
  path_eqb (fst a) (fst b) && String.eqb (snd a) (snd b).

Definition store := list (skey * slot).

Definition empty_slot : slot := {| sl_xdev := false; sl_obj := None |}.

Fixpoint sget (k : skey) (st : store) : slot :=
  match st with
  | [] => empty_slot
  | (k', v) :: t => if skey_eqb k k' then v else sget k t
  end.

Fixpoint sset (k : skey) (v : slot) (st : store) : store :=
  match st with
  | [] => [(k, v)]
  | (k', v') :: t => if skey_eqb k k' then (k, v) :: t else (k', v') :: sset k v t
  end.

Definition sobj_with_mode (o : sobj) (p : N) : sobj :=
  match o with SFile _ d => SFile p d | SDir _ => SDir p end.

(* ---------- world state ---------- *)

Record xstate := { x_fs : node; x_calls : nat; x_stg : store }.

Definition liftF {A : Type} (m : state -> state * result A) (x : xstate) : xstate * result A :=
  let '(s', r) := m {| fs := x_fs x; calls := x_calls x |} in
  ({| x_fs := fs s'; x_calls := calls s'; x_stg := x_stg x |}, r).

(* one call on the staging area / between staging area and tree *)
Definition xprim {A : Type} (E : env) (name_ok : bool)
           (act : nat -> node -> store -> (A * node * store) + errno) (x : xstate)
  : xstate * result A :=
  if negb name_ok then (x, RErr EBADNAME) else
  let k := x_calls x in
  let x1 := {| x_fs := x_fs x; x_calls := S k; x_stg := x_stg x |} in
  match oracle E k with
  | Fail e => (x1, RErr e)
  | Cancelled => (x1, RCancelled)
  | Ok => match act k (x_fs x) (x_stg x) with
          | inl (a, t', st') => ({| x_fs := t'; x_calls := S k; x_stg := st' |}, ROk a)
          | inr e => (x1, RErr e)
          end
  end.

Definition xbind {A B : Type} (m : xstate -> xstate * result A)
           (f : A -> xstate -> xstate * result B) : xstate -> xstate * result B :=
  fun x => let '(x1, r) := m x in
           match r with
           | ROk a => f a x1
           | RErr e => (x1, RErr e)
           | RCancelled => (x1, RCancelled)
           end.

(* ---------- primitives on the staging area ---------- *)

(* os.Chown(stagedPath, uid, gid): ownership is not modelled, existence is *)
Definition stage_chown (E : env) (k : skey) : xstate -> xstate * result unit :=
  xprim E true (fun _ t st =>
    match sl_obj (sget k st) with
    | None => inr ENOENT
    | Some _ => inl (tt, t, st)
    end).

(* os.Chmod(stagedPath, mode) *)
Definition stage_chmod (E : env) (k : skey) (perm : N) : xstate -> xstate * result unit :=
  xprim E true (fun _ t st =>
    let sl := sget k st in
    match sl_obj sl with
    | None => inr ENOENT
    | Some o => inl (tt, t, sset k {| sl_xdev := sl_xdev sl;
                                      sl_obj := Some (sobj_with_mode o (N.land perm 511)) |} st)
    end).

(* filesystem.SetPermissionsByPath(stagedPath, ownership, mode): ownership
   first (if specified), then permissions (if mode & 0777 is non-zero) *)
Definition stage_set_permissions (E : env) (k : skey) (set_owner : bool) (mode : N)
  : xstate -> xstate * result unit :=
  fun x =>
    let '(x1, r1) := if set_owner then stage_chown E k x else (x, ROk tt) in
    match r1 with
    | ROk _ => if N.eqb (N.land mode 511) 0 then (x1, ROk tt) else stage_chmod E k mode x1
    | r => (x1, r)
    end.

Definition node_of_sobj (E : env) (k : nat) (dev : N) (o : sobj) : node :=
  match o with
  | SFile p d => NFile (new_meta E k p (strlen d) dev) d
  | SDir p => NDir (new_meta E k p 0 dev) []
  end.

(* the type clash rules of rename(2) when the target name exists *)
Definition rename_clash (src : node) (tgt : option node) (tn : name) (replace : bool)
  : option errno :=
  match tgt with
  | None => if String.eqb tn "" then Some ENOENT else None
  | Some t =>
    if negb replace then Some EEXIST else
    match src, t with
    | NDir _ _, NDir _ [] => None
    | NDir _ _, NDir _ (_ :: _) => Some ENOTEMPTY
    | NDir _ _, _ => Some ENOTDIR
    | _, NDir _ _ => Some EISDIR
    | _, _ => None
    end
  end.

(* filesystem.Rename(nil, stagedPath, parent, name, replace): renameat /
   renameat2(RENAME_NOREPLACE) from the staging area into the directory [h].
   Linux compares the mounts of the two parent directories before it looks up
   either name, hence EXDEV comes first (even for a missing source). *)
Definition rename_in (E : env) (k : skey) (h : path) (n : name) (replace : bool)
  : xstate -> xstate * result unit :=
  xprim E (prim_name_ok n) (fun i t st =>
    let sl := sget k st in
    match dir_at h t with
    | None => inr ESTALE
    | Some (m, c) =>
      if sl_xdev sl then inr EXDEV else
      match sl_obj sl with
      | None => inr ENOENT
      | Some o =>
        let src := node_of_sobj E i (m_dev m) o in
        match rename_clash src (nlookup n c) n replace with
        | Some e => inr e
        | None =>
          match in_dir_upd h t (fun _ c0 => inl (tt, nset n (Some src) c0)) with
          | inl (_, t') => inl (tt, t', sset k {| sl_xdev := sl_xdev sl; sl_obj := None |} st)
          | inr e => inr e
          end
        end
      end
    end).

(* os.Open(stagedPath): opening a directory read-only succeeds as well *)
Definition stage_open (E : env) (k : skey) : xstate -> xstate * result sobj :=
  xprim E true (fun _ t st =>
    match sl_obj (sget k st) with
    | None => inr ENOENT
    | Some o => inl (o, t, st)
    end).

(* reading the opened staged file to its end (the source half of io.CopyBuffer) *)
Definition stage_read (E : env) (o : sobj) : xstate -> xstate * result string :=
  xprim E true (fun _ t st =>
    match o with
    | SFile _ d => inl (d, t, st)
    | SDir _ => inr EISDIR
    end).

(* os.Remove(stagedPath) *)
Definition stage_remove (E : env) (k : skey) : xstate -> xstate * result unit :=
  xprim E true (fun _ t st =>
    let sl := sget k st in
    match sl_obj sl with
    | None => inr ENOENT
    | Some _ => inl (tt, t, sset k {| sl_xdev := sl_xdev sl; sl_obj := None |} st)
    end).

(* ---------- rename inside one directory ---------- *)

(* filesystem.Rename(parent, sn, parent, tn, replace) *)
Definition rename_local (E : env) (h : path) (sn tn : name) (replace : bool)
  : state -> state * result unit :=
  prim E (prim_name_ok sn && prim_name_ok tn) (fun _ x => in_dir_upd h x (fun _ c =>
    match nlookup sn c with
    | None => inr ENOENT
    | Some src =>
      if String.eqb sn tn then inl (tt, c) else
      match rename_clash src (nlookup tn c) tn replace with
      | Some e => inr e
      | None => inl (tt, nset tn (Some src) (nset sn None c))
      end
    end)).

(* ---------- cancellation ---------- *)

Definition is_cancel (o : outcome) : bool :=
  match o with Cancelled => true | _ => false end.

(* the context has been cancelled by the time [k] primitives have been issued *)
Definition cancelled_at (E : env) (k : nat) : bool :=
  existsb (fun j => is_cancel (oracle E j)) (seq 0 (S k)).

(* what the primitives see: a cancellation does not fail a system call *)
Definition quiet (E : env) : env :=
  {| oracle := fun k => match oracle E k with Cancelled => Ok | o => o end;
     clock := clock E; fresh_id := fresh_id E; temp_tag := temp_tag E |}.
