(* Agent handshakes (C34).  Definitions only.

   Go sources modelled:
     pkg/agent/handshake.go
        serverMagicNumber / clientMagicNumber        -> [go_server_magic], [go_client_magic]
        ClientHandshake, ServerHandshake             -> first halves of [client], [server]
     pkg/mutagen/version.go
        VersionMajor/Minor/Patch                     -> [go_version]
        sendVersion / receiveVersion                 -> [enc_version], [dec_version]
        ClientVersionHandshake, ServerVersionHandshake -> second halves of [client], [server]
     The composition (magic handshake, then version handshake if it succeeded)
     is the one of pkg/agent/dial.go (client) and cmd/mutagen-agent (server).

   Each side is a function of the bytes it receives before the stream ends
   (reads are io.ReadFull: fewer bytes than requested is an error) and returns
   the bytes it sent and its result.  Writes do not fail in the model. *)
From Coq Require Import List NArith Bool Strings.Byte.
Import ListNotations.
From Mv Require Import Model.Varint.
Local Open Scope N_scope.

(* ---- constants of the code (tied to the code by the harness on every run) -- *)
Definition go_server_magic : list byte := [x05; x27; x87].
Definition go_client_magic : list byte := [x87; x27; x05].
Definition version := (N * N * N)%type.
Definition go_version : version := (0, 19, 0).

(* ---- binary.BigEndian.PutUint32 / Uint32 -------------------------------------- *)
Definition be32 (n : N) : list byte :=
  [b8 (n / 16777216); b8 (n / 65536); b8 (n / 256); b8 n].
Definition be32_dec (l : list byte) : N :=
  match l with
  | [a; b; c; d] => ((bval a * 256 + bval b) * 256 + bval c) * 256 + bval d
  | _ => 0
  end.

Definition enc_version (v : version) : list byte :=
  let '(a, b, c) := v in be32 a ++ be32 b ++ be32 c.
Definition dec_version (l : list byte) : version :=
  (be32_dec (firstn 4 l), be32_dec (firstn 4 (skipn 4 l)), be32_dec (firstn 4 (skipn 8 l))).

Definition version_eqb (a b : version) : bool :=
  let '(a1, a2, a3) := a in let '(b1, b2, b3) := b in
  (a1 =? b1) && (a2 =? b2) && (a3 =? b3).


(* io.ReadFull of n bytes from what is still to come *)
Definition read_full (n : nat) (inp : list byte) : option (list byte * list byte) :=
  if Nat.ltb (length inp) n then None else Some (firstn n inp, skipn n inp).

(* what one build believes *)
Record conf := {
  c_smagic : list byte;   (* serverMagicNumber *)
  c_cmagic : list byte;   (* clientMagicNumber *)
  c_ver : version
}.
Definition go_conf : conf :=
  {| c_smagic := go_server_magic; c_cmagic := go_client_magic; c_ver := go_version |}.

Definition wf_version (v : version) : Prop :=
  let '(a, b, c) := v in a < 2 ^ 32 /\ b < 2 ^ 32 /\ c < 2 ^ 32.
Definition wf_conf (c : conf) : Prop :=
  length (c_smagic c) = 3%nat /\ length (c_cmagic c) = 3%nat /\ wf_version (c_ver c).

Inductive hres :=
| HOk
| HRecvMagic        (* unable to receive the peer's magic number (short read) *)
| HBadMagic         (* magic number incorrect *)
| HRecvVersion      (* unable to receive the peer's version (short read) *)
| HVersionMismatch.

(* ClientHandshake; ClientVersionHandshake *)
Definition client (c : conf) (inp : list byte) : list byte * hres :=
  match read_full 3 inp with
  | None => ([], HRecvMagic)
  | Some (m, r1) =>
      if negb (bytes_eqb m (c_smagic c)) then ([], HBadMagic)
      else
        (* send the client magic; receive the server's version *)
        match read_full 12 r1 with
        | None => (c_cmagic c, HRecvVersion)
        | Some (vb, _) =>
            (* the client sends its version BEFORE comparing *)
            (c_cmagic c ++ enc_version (c_ver c),
             if version_eqb (dec_version vb) (c_ver c) then HOk else HVersionMismatch)
        end
  end.

(* ServerHandshake; ServerVersionHandshake *)
Definition server (c : conf) (inp : list byte) : list byte * hres :=
  (* send the server magic; receive the client's *)
  match read_full 3 inp with
  | None => (c_smagic c, HRecvMagic)
  | Some (m, r1) =>
      if negb (bytes_eqb m (c_cmagic c)) then (c_smagic c, HBadMagic)
      else
        (* send the version; receive the client's *)
        match read_full 12 r1 with
        | None => (c_smagic c ++ enc_version (c_ver c), HRecvVersion)
        | Some (vb, _) =>
            (c_smagic c ++ enc_version (c_ver c),
             if version_eqb (dec_version vb) (c_ver c) then HOk else HVersionMismatch)
        end
  end.

(* ---- both sides together ----------------------------------------------------------- *)
(* One fault per direction: the stream as the receiver sees it. *)
Inductive fault :=
| NoFault
| Alter (p : nat) (v : byte)   (* byte number p replaced by v *)
| Trunc (p : nat).             (* the stream ends after p bytes *)

Fixpoint set_nth (p : nat) (v : byte) (l : list byte) : list byte :=
  match l, p with
  | [], _ => []
  | _ :: t, O => v :: t
  | x :: t, S p' => x :: set_nth p' v t
  end.

Definition apply_fault (f : fault) (l : list byte) : list byte :=
  match f with
  | NoFault => l
  | Alter p v => set_nth p v l
  | Trunc p => firstn p l
  end.

(* What each side has sent depends only on what it has received so far, and
   grows with it; the exchange is the least fixpoint, reached after three
   rounds (server magic; client magic; server version; client version).  A
   side that has returned closes the stream, so the other side's pending read
   ends there.  [fsc] acts on the server-to-client stream, [fcs] on the other. *)
Definition joint (cc sc : conf) (fsc fcs : fault) : hres * hres :=
  let s0 := fst (server sc []) in
  let c1 := fst (client cc (apply_fault fsc s0)) in
  let s1 := fst (server sc (apply_fault fcs c1)) in
  let c2 := fst (client cc (apply_fault fsc s1)) in
  let s2 := fst (server sc (apply_fault fcs c2)) in
  (snd (client cc (apply_fault fsc s2)), snd (server sc (apply_fault fcs c2))).

(* the complete input each side expects from a peer of the same build *)
Definition client_expects (c : conf) : list byte := c_smagic c ++ enc_version (c_ver c).
Definition server_expects (c : conf) : list byte := c_cmagic c ++ enc_version (c_ver c).

(* ---- checkers ------------------------------------------------------------------------ *)
Definition is_ok (r : hres) : bool := match r with HOk => true | _ => false end.

Fixpoint is_prefix (p l : list byte) : bool :=
  match p, l with
  | [], _ => true
  | x :: p', y :: l' => if Byte.eqb x y then is_prefix p' l' else false
  | _ :: _, [] => false
  end.

(* One side against a byte-level peer: the side must accept exactly when its
   whole expected input arrived intact. *)
Definition check_side (expects inp : list byte) (r : hres) : bool :=
  Bool.eqb (is_ok r) (is_prefix expects inp).

(* Both real sides of one build through a faulty channel: a fault that changes
   what a receiver sees must make that receiver fail; without an effective
   fault both must accept. *)
Definition effective (f : fault) (full : list byte) : bool :=
  negb (bytes_eqb (apply_fault f full) full).
Definition check_joint (c : conf) (fsc fcs : fault) (r : hres * hres) : bool :=
  let esc := effective fsc (client_expects c) in
  let ecs := effective fcs (server_expects c) in
  (if esc then negb (is_ok (fst r)) else true)
  && (if ecs then negb (is_ok (snd r)) else true)
  && (if orb esc ecs then true else is_ok (fst r) && is_ok (snd r)).
