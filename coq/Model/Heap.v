(* M-Heap: Go *Entry values as heap cells, for the aliasing clause of C07
   (definitions only, no proofs).

   A Go pointer is a location [loc]; the heap maps locations to cells; a cell
   holds the entry's own fields and, for directory kinds, its contents map as
   name -> location.  Only cells that Entry.EnsureValid(false) accepts are
   representable, as in Model/Entry.v (one constructor per kind).  Locations
   are indices into a list, allocation appends, so "fresh" means "index >= the
   length of the heap before".

   Entry.Copy (entry.go) is transcribed for its four behaviours with exactly
   the sharing of the Go code; the mutators are the ones the code base applies
   to trees: contents insert/delete on a directory cell (Apply) and the
   kind/contents rewrite of a directory cell (phantom reification), plus an
   arbitrary overwrite of a cell ([MScribble]) that the code base never does
   but the isolation of a deep copy also covers. *)
From Coq Require Import List Bool Arith String.
Import ListNotations.
From Mv Require Import Model.Entry Model.DiffApply.

Definition loc := nat.

Inductive cell :=
| CDir (cs : list (name * loc))
| CFile (exec : bool) (digest : string)
| CLink (target : string)
| CUntracked
| CProblem (msg : string)
| CPhantom (cs : list (name * loc)).

Definition heap := list cell.

Definition hget (h : heap) (l : loc) : option cell := nth_error h l.

Fixpoint hset (h : heap) (l : loc) (c : cell) : heap :=
  match h, l with
  | [], _ => []
  | _ :: t, O => c :: t
  | x :: t, S l' => x :: hset t l' c
  end.

(* new(Entry) *)
Definition alloc (h : heap) (c : cell) : heap * loc := ((h ++ [c])%list, List.length h).

Definition is_leaf_cell (c : cell) : bool :=
  match c with CDir _ | CPhantom _ => false | _ => true end.

Definition cell_children (c : cell) : list (name * loc) :=
  match c with CDir cs | CPhantom cs => cs | _ => [] end.

(* ---------- abstraction into Model/Entry.v trees (on fuel) ---------- *)
Fixpoint abs_f (fuel : nat) (h : heap) (l : loc) : option entry :=
  match fuel with
  | O => None
  | S f =>
    let fix go (cs : list (name * loc)) : option (list (name * entry)) :=
      match cs with
      | [] => Some []
      | (n, l') :: t =>
        match abs_f f h l', go t with
        | Some e, Some r => Some ((n, e) :: r)
        | _, _ => None
        end
      end in
    match hget h l with
    | None => None
    | Some (CDir cs) => option_map EDir (go cs)
    | Some (CPhantom cs) => option_map EPhantom (go cs)
    | Some (CFile x d) => Some (EFile x d)
    | Some (CLink t) => Some (ELink t)
    | Some CUntracked => Some EUntracked
    | Some (CProblem m) => Some (EProblem m)
    end
  end.

(* every acyclic chain of cells is shorter than the heap *)
Definition abs (h : heap) (l : loc) : option entry := abs_f (S (List.length h)) h l.

(* ---------- the abstraction as a relation: location l represents e,
              visiting only locations that satisfy P ---------- *)
Fixpoint reprP (P : loc -> Prop) (h : heap) (l : loc) (e : entry) {struct e} : Prop :=
  let fix go (cs : list (name * loc)) (es : list (name * entry)) {struct es} : Prop :=
    match cs, es with
    | [], [] => True
    | (n, l') :: cs', (m, e') :: es' => n = m /\ reprP P h l' e' /\ go cs' es'
    | _, _ => False
    end in
  P l /\
  match e with
  | EDir es => exists cs, hget h l = Some (CDir cs) /\ go cs es
  | EPhantom es => exists cs, hget h l = Some (CPhantom cs) /\ go cs es
  | EFile x d => hget h l = Some (CFile x d)
  | ELink t => hget h l = Some (CLink t)
  | EUntracked => hget h l = Some CUntracked
  | EProblem m => hget h l = Some (CProblem m)
  end.

Definition repr (h : heap) (l : loc) (e : entry) : Prop := reprP (fun _ => True) h l e.

(* nil pointers *)
Definition oloc := option loc.
Definition orepr (h : heap) (l : oloc) (e : oentry) : Prop :=
  match l, e with
  | None, None => True
  | Some l', Some e' => repr h l' e'
  | _, _ => False
  end.

(* ---------- building a tree in the heap (children first, then the cell) ---- *)
Fixpoint alloc_tree (h : heap) (e : entry) : heap * loc :=
  let fix go (h : heap) (es : list (name * entry)) : heap * list (name * loc) :=
    match es with
    | [] => (h, [])
    | (n, x) :: t =>
      let '(h1, l) := alloc_tree h x in
      let '(h2, r) := go h1 t in
      (h2, (n, l) :: r)
    end in
  match e with
  | EDir es => let '(h1, cs) := go h es in alloc h1 (CDir cs)
  | EPhantom es => let '(h1, cs) := go h es in alloc h1 (CPhantom cs)
  | EFile x d => alloc h (CFile x d)
  | ELink t => alloc h (CLink t)
  | EUntracked => alloc h CUntracked
  | EProblem m => alloc h (CProblem m)
  end.

(* ---------- Entry.Copy (entry.go), the four behaviours ---------- *)
(* The result cell is allocated after its children (the order of allocation is
   not observable).  Recursion follows pointers, hence fuel; None = out of fuel
   or dangling pointer. *)

(* EntryCopyBehaviorDeep: every cell is new *)
Fixpoint copy_deep_f (fuel : nat) (h : heap) (l : loc) : option (heap * loc) :=
  match fuel with
  | O => None
  | S f =>
    let fix go (h : heap) (cs : list (name * loc)) : option (heap * list (name * loc)) :=
      match cs with
      | [] => Some (h, [])
      | (n, l') :: t =>
        match copy_deep_f f h l' with
        | Some (h1, c') =>
          match go h1 t with
          | Some (h2, r) => Some (h2, (n, c') :: r)
          | None => None
          end
        | None => None
        end
      end in
    match hget h l with
    | None => None
    | Some (CDir cs) =>
      match go h cs with Some (h1, cs') => Some (alloc h1 (CDir cs')) | None => None end
    | Some (CPhantom cs) =>
      match go h cs with Some (h1, cs') => Some (alloc h1 (CPhantom cs')) | None => None end
    | Some c => Some (alloc h c)
    end
  end.

(* EntryCopyBehaviorDeepPreservingLeaves: directory kinds are copied, any other
   child is shared by pointer *)
Fixpoint copy_dpl_f (fuel : nat) (h : heap) (l : loc) : option (heap * loc) :=
  match fuel with
  | O => None
  | S f =>
    let fix go (h : heap) (cs : list (name * loc)) : option (heap * list (name * loc)) :=
      match cs with
      | [] => Some (h, [])
      | (n, l') :: t =>
        match hget h l' with
        | None => None
        | Some c =>
          if is_leaf_cell c then
            match go h t with
            | Some (h2, r) => Some (h2, (n, l') :: r)      (* shared *)
            | None => None
            end
          else
            match copy_dpl_f f h l' with
            | Some (h1, c') =>
              match go h1 t with
              | Some (h2, r) => Some (h2, (n, c') :: r)
              | None => None
              end
            | None => None
            end
        end
      end in
    match hget h l with
    | None => None
    | Some (CDir cs) =>
      match go h cs with Some (h1, cs') => Some (alloc h1 (CDir cs')) | None => None end
    | Some (CPhantom cs) =>
      match go h cs with Some (h1, cs') => Some (alloc h1 (CPhantom cs')) | None => None end
    | Some c => Some (alloc h c)
    end
  end.

(* EntryCopyBehaviorShallow: a new cell whose contents map holds the same
   pointers *)
Definition copy_shallow (h : heap) (l : loc) : option (heap * loc) :=
  match hget h l with
  | None => None
  | Some c => Some (alloc h c)
  end.

(* EntryCopyBehaviorSlim: a new cell without contents *)
Definition slim_cell (c : cell) : cell :=
  match c with
  | CDir _ => CDir []
  | CPhantom _ => CPhantom []
  | x => x
  end.

Definition copy_slim (h : heap) (l : loc) : option (heap * loc) :=
  match hget h l with
  | None => None
  | Some c => Some (alloc h (slim_cell c))
  end.

Definition copy_heap (b : copy_behavior) (fuel : nat) (h : heap) (l : loc) : option (heap * loc) :=
  match b with
  | CopyDeep => copy_deep_f fuel h l
  | CopyDeepPreservingLeaves => copy_dpl_f fuel h l
  | CopyShallow => copy_shallow h l
  | CopySlim => copy_slim h l
  end.

(* ---------- mutators ---------- *)
Fixpoint set_loc (n : name) (v : loc) (cs : list (name * loc)) : list (name * loc) :=
  match cs with
  | [] => [(n, v)]
  | (m, x) :: t =>
    if String.eqb n m then (n, v) :: t
    else if String.ltb n m then (n, v) :: cs
    else (m, x) :: set_loc n v t
  end.

Fixpoint del_loc (n : name) (cs : list (name * loc)) : list (name * loc) :=
  match cs with
  | [] => []
  | (m, x) :: t => if String.eqb n m then t else (m, x) :: del_loc n t
  end.

Inductive mutation :=
| MSetLeaf (l : loc) (n : name) (c : cell)  (* parent.Contents[n] = <new entry>  (Apply) *)
| MDel (l : loc) (n : name)                 (* delete(parent.Contents, n)        (Apply) *)
| MReify (l : loc) (tracked : bool)         (* phantom reification (phantom.go)          *)
| MScribble (l : loc) (c : cell).           (* overwrite the whole cell (never done by
                                               the code base; leaf cells are immutable
                                               by convention)                            *)

Definition target (m : mutation) : loc :=
  match m with
  | MSetLeaf l _ _ | MDel l _ | MReify l _ | MScribble l _ => l
  end.

(* the mutators the code base applies: they act on directory cells only *)
Definition listed (m : mutation) : bool :=
  match m with MScribble _ _ => false | _ => true end.

Definition step (m : mutation) (h : heap) : heap :=
  match m with
  | MSetLeaf l n c =>
    match hget h l with
    | Some (CDir cs) => let '(h1, v) := alloc h c in hset h1 l (CDir (set_loc n v cs))
    | Some (CPhantom cs) => let '(h1, v) := alloc h c in hset h1 l (CPhantom (set_loc n v cs))
    | _ => h
    end
  | MDel l n =>
    match hget h l with
    | Some (CDir cs) => hset h l (CDir (del_loc n cs))
    | Some (CPhantom cs) => hset h l (CPhantom (del_loc n cs))
    | _ => h
    end
  | MReify l tracked =>
    match hget h l with
    | Some (CPhantom cs) => hset h l (if tracked then CDir cs else CUntracked)
    | _ => h
    end
  | MScribble l c =>
    match hget h l with
    | Some _ => hset h l c
    | None => h
    end
  end.

Definition run (ms : list mutation) (h : heap) : heap := fold_left (fun h m => step m h) ms h.

(* ---------- reachability ---------- *)
Inductive reach (h : heap) : loc -> loc -> Prop :=
| reach_refl : forall l, reach h l l
| reach_child : forall l c n l' l'',
    hget h l = Some c -> In (n, l') (cell_children c) -> reach h l' l'' -> reach h l l''.

(* ---------- the harness's prediction ---------- *)
(* Build the original, copy it with behaviour b, run the mutations on the
   original's cells, read the copy. *)
Definition predict (b : copy_behavior) (a : entry) (ms : list mutation) : option entry :=
  let '(h, l) := alloc_tree [] a in
  match copy_heap b (S (List.length h)) h l with
  | None => None
  | Some (h1, c) => abs (run ms h1) c
  end.

Definition oentry_opt_eqb (x : option entry) (y : oentry) : bool := oentry_eqb x y.

(* observed: the copy read after the mutations, per behaviour in the order of
   all_behaviors *)
Definition heap_check (a : oentry) (ms : list mutation) (observed : list oentry) : bool :=
  match a with
  | None => forallb (fun o => match o with None => true | Some _ => false end) observed
  | Some e =>
    (fix go (bs : list copy_behavior) (os : list oentry) : bool :=
       match bs, os with
       | [], [] => true
       | b :: bs', o :: os' => oentry_eqb (predict b e ms) o && go bs' os'
       | _, _ => false
       end) all_behaviors observed
  end.
