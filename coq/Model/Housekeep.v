(* Model of housekeeping (C43). Go: pkg/housekeeping/housekeep.go
   (Housekeep, housekeepAgents, housekeepCaches, housekeepStaging).
   Definitions only.

   The file system is data: for each of the three directories
   <data>/agents, <data>/caches, <data>/staging what the code observes of each
   direct child - its name, the age the code computes for it, and whether the
   removal primitive the code uses on it can succeed. Ages are nanoseconds
   (time.Duration), signed: a timestamp in the future gives a negative age.
   Everything else in the world is an opaque value [outside]. *)
From Coq Require Import List String Bool ZArith.
Import ListNotations.
Local Open Scope string_scope.
Local Open Scope list_scope.
Local Open Scope Z_scope.

(* thresholds: 30 * 24 * time.Hour, 7 * 24 * time.Hour, 7 * 24 * time.Hour *)
Definition hour : Z := 3600 * 1000000000.
Definition maximum_agent_idle_period : Z := 30 * 24 * hour.
Definition maximum_cache_age : Z := 7 * 24 * hour.
Definition maximum_staging_root_age : Z := 7 * 24 * hour.

(* One direct child of one of the three directories.
   [age]: agents   now - AccessTime of stat(<agents>/<name>/mutagen-agent)
          caches   now - ModTime of stat(<caches>/<name>)
          staging  now - ModTime of stat(<staging>/<name>)
          (stat follows symbolic links); None = the stat call fails (no agent
          binary inside, dangling link, not a directory ...): the code skips it.
   [removable]: the removal call used can succeed. os.RemoveAll (agents,
          staging) always can; os.Remove (caches) cannot remove a non-empty
          directory. *)
Record child := {
  name : string;
  age : option Z;
  removable : bool
}.

(* now.Sub(t) > maximum...: the three age tests *)
Definition agent_idle_too_long (a : Z) : bool := a >? maximum_agent_idle_period.
Definition cache_too_old (a : Z) : bool := a >? maximum_cache_age.
Definition staging_root_too_old (a : Z) : bool := a >? maximum_staging_root_age.

Definition stale (test : Z -> bool) (c : child) : bool :=
  match age c with Some a => test a | None => false end.

(* the loop over the directory contents: what is removed, what stays *)
Definition goes (test : Z -> bool) (c : child) : bool := stale test c && removable c.

Definition removed_names (test : Z -> bool) (l : list child) : list string :=
  map name (filter (goes test) l).

Definition survivors (test : Z -> bool) (l : list child) : list child :=
  filter (fun c => negb (goes test c)) l.

(* a directory listing; None = the directory cannot be listed (does not exist):
   the function returns without doing anything *)
Definition listing := option (list child).

Definition keep (test : Z -> bool) (d : listing) : listing :=
  match d with None => None | Some l => Some (survivors test l) end.

Definition gone (test : Z -> bool) (d : listing) : list string :=
  match d with None => [] | Some l => removed_names test l end.

Record state (O : Type) := {
  sidecar : bool;           (* sidecar.EnvironmentIsSidecar(): agents are skipped *)
  agents : listing;
  caches : listing;
  staging : listing;
  outside : O               (* everything that is not a direct child of the three directories *)
}.
Arguments sidecar {O}. Arguments agents {O}. Arguments caches {O}.
Arguments staging {O}. Arguments outside {O}.

Definition never (_ : Z) : bool := false.
Definition agents_test {O} (s : state O) : Z -> bool :=
  if sidecar s then never else agent_idle_too_long.

(* Housekeep(): the state afterwards *)
Definition housekeep {O} (s : state O) : state O :=
  {| sidecar := sidecar s;
     agents := keep (agents_test s) (agents s);
     caches := keep cache_too_old (caches s);
     staging := keep staging_root_too_old (staging s);
     outside := outside s |}.

(* the removal calls it makes, as paths relative to the data directory *)
Definition removals {O} (s : state O) : list (string * string) :=
  map (pair "agents") (gone (agents_test s) (agents s))
  ++ map (pair "caches") (gone cache_too_old (caches s))
  ++ map (pair "staging") (gone staging_root_too_old (staging s)).

(* ---- checker, applied to what the real Housekeep() did ----
   The harness cannot know the instant [now] the code sampled; it brackets it:
   each child carries the age computed with a clock reading taken before the
   call ([lo]) and after it ([hi]), lo <= real age <= hi. *)
Record ochild := {
  oname : string;
  lo : option Z;
  hi : option Z;            (* None together with [lo] *)
  oremovable : bool;
  proper : bool             (* an artifact of the kind the directory is meant to hold *)
}.

Definition with_lo (c : ochild) : child := {| name := oname c; age := lo c; removable := oremovable c |}.
Definition with_hi (c : ochild) : child := {| name := oname c; age := hi c; removable := oremovable c |}.

Fixpoint mem (n : string) (l : list string) : bool :=
  match l with [] => false | m :: t => String.eqb m n || mem n t end.

(* one directory: [after] = names present after the call.
   - nothing more recent than the threshold is removed (even by the later clock);
   - a proper artifact older than the threshold (even by the earlier clock) is
     removed;
   - nothing appears. *)
Definition check_dir (test : Z -> bool) (before : list ochild) (after : list string) : bool :=
  forallb (fun c => if stale test (with_hi c) then true else mem (oname c) after) before
  && forallb (fun c => if stale test (with_lo c) && proper c && oremovable c then negb (mem (oname c) after) else true) before
  && forallb (fun n => mem n (map oname before)) after.

(* correspondence with the model: removed by the earlier clock => gone;
   kept by the later clock => still there *)
Definition corr_dir (test : Z -> bool) (before : list ochild) (after : list string) : bool :=
  forallb (fun c => if goes test (with_lo c) then negb (mem (oname c) after) else true) before
  && forallb (fun c => if goes test (with_hi c) then true else mem (oname c) after) before
  && forallb (fun n => mem n (map oname before)) after.

Record observation := {
  b_agents : list ochild;  a_agents : list string;
  b_caches : list ochild;  a_caches : list string;
  b_staging : list ochild; a_staging : list string;
  outside_intact : bool     (* canary, other data-directory content, inner content of survivors *)
}.

Definition check_C43 (o : observation) : bool :=
  check_dir agent_idle_too_long (b_agents o) (a_agents o)
  && check_dir cache_too_old (b_caches o) (a_caches o)
  && check_dir staging_root_too_old (b_staging o) (a_staging o)
  && outside_intact o.

Definition corr_C43 (o : observation) : bool :=
  corr_dir agent_idle_too_long (b_agents o) (a_agents o)
  && corr_dir cache_too_old (b_caches o) (a_caches o)
  && corr_dir staging_root_too_old (b_staging o) (a_staging o).

(* the harness's stated domain: names distinct within a directory, lo <= hi *)
Fixpoint nodup_names (l : list string) : bool :=
  match l with [] => true | n :: t => negb (mem n t) && nodup_names t end.

Definition bracket_ok (c : ochild) : bool :=
  match lo c, hi c with
  | Some a, Some b => a <=? b
  | None, None => true
  | _, _ => false
  end.

Definition domain_C43 (o : observation) : bool :=
  nodup_names (map oname (b_agents o)) && nodup_names (map oname (b_caches o))
  && nodup_names (map oname (b_staging o))
  && forallb bracket_ok (b_agents o) && forallb bracket_ok (b_caches o) && forallb bracket_ok (b_staging o).
