(* Model of pkg/identifier/identifier.go, pkg/encoding/base62.go and
   pkg/selection/names.go (definitions only, no proofs).

   Strings are lists of bytes ([nat] < 256); numbers are [N].
   The third-party base-x encoder (github.com/eknkc/basex) is a parameter
   [enc] of the model; its specification [basex_spec] (positional base-62
   conversion of the big-endian value, one leading '0' per leading zero byte)
   is a hypothesis of the theorems and is validated against the real
   encoding.EncodeBase62 by the harness.

   Go -> model:
     encoding.Base62Alphabet        alpha / alphabet
     basex.Encoding.Encode (spec)   basex_spec
     identifier.New                 new_id
     identifier.matcher             matcher        "^[a-z]{4}_[0-9a-zA-Z]{43}$"
     identifier.legacyMatcher       legacy_matcher "^[0-9a-f]{8}-...-[0-9a-f]{12}$"
     identifier.IsValid / Truncated is_valid / truncated
     uuid.Parse (err == nil)        uuid_parse_ok
     selection.EnsureNameValid      ensure_name_valid   (ASCII names; see NOutside) *)
From Coq Require Import List Arith Bool NArith.
Import ListNotations.

(* ---------- character classes and anchored shapes ---------- *)
Definition in_range (lo hi c : nat) : bool := Nat.leb lo c && Nat.leb c hi.
Definition is_lower (c : nat) : bool := in_range 97 122 c.
Definition is_upper (c : nat) : bool := in_range 65 90 c.
Definition is_digit (c : nat) : bool := in_range 48 57 c.
Definition is_alnum (c : nat) : bool := is_digit c || is_lower c || is_upper c.
Definition is_lhex (c : nat) : bool := is_digit c || in_range 97 102 c.
Definition is_hex (c : nat) : bool := is_lhex c || in_range 65 70 c.

Inductive pat := PLow | PLHex | PHex | PAlnum | PCh (c : nat) | PAny.
Definition pat_ok (p : pat) (c : nat) : bool :=
  match p with
  | PLow => is_lower c | PLHex => is_lhex c | PHex => is_hex c | PAlnum => is_alnum c
  | PCh x => Nat.eqb c x | PAny => true
  end.

(* the first [length sh] characters of s have the shape sh *)
Fixpoint match_shape (sh : list pat) (s : list nat) : bool :=
  match sh, s with
  | [], _ => true
  | p :: sh', c :: s' => pat_ok p c && match_shape sh' s'
  | _ :: _, [] => false
  end.
(* "^shape$" *)
Definition match_exact (sh : list pat) (s : list nat) : bool :=
  match_shape sh s && Nat.eqb (length s) (length sh).

Definition DASH := 45.
Definition USCORE := 95.
Definition uuid_shape_of (h : pat) : list pat :=
  repeat h 8 ++ [PCh DASH] ++ repeat h 4 ++ [PCh DASH] ++ repeat h 4 ++ [PCh DASH]
  ++ repeat h 4 ++ [PCh DASH] ++ repeat h 12.
Definition legacy_shape : list pat := uuid_shape_of PLHex.
Definition id_shape : list pat := repeat PLow 4 ++ [PCh USCORE] ++ repeat PAlnum 43.

Definition legacy_matcher (s : list nat) : bool := match_exact legacy_shape s.
Definition matcher (s : list nat) : bool := match_exact id_shape s.

(* IsValid, Truncated *)
Definition is_valid (s : list nat) : bool := matcher s || legacy_matcher s.
Definition truncated (s : list nat) : list nat :=
  if matcher s then firstn (4 + 1 + 8) s
  else if legacy_matcher s then firstn 8 s
  else [].

(* ---------- base 62 ---------- *)
(* Base62Alphabet = "0123456789abcdefghijklmnopqrstuvwxyzABCDEFGHIJKLMNOPQRSTUVWXYZ" *)
Definition alpha (d : N) : nat :=
  if N.ltb d 10 then 48 + N.to_nat d
  else if N.ltb d 36 then 97 + N.to_nat (d - 10)
  else 65 + N.to_nat (d - 36).
Definition alphabet : list nat := map (fun i => alpha (N.of_nat i)) (seq 0 62).

(* inverse of alpha on alphanumerics *)
Definition digit_of_char (c : nat) : N :=
  if is_digit c then N.of_nat (c - 48)
  else if is_lower c then N.of_nat (c - 97 + 10)
  else N.of_nat (c - 65 + 36).

(* big-endian bytes -> number *)
Definition bytes_to_N (bs : list nat) : N :=
  fold_left (fun acc b => acc * 256 + N.of_nat b)%N bs 0%N.

(* number -> base-62 digits, most significant first; 0 -> [0].
   None = out of fuel (never: fuel = bit size) *)
Fixpoint digits62_aux (fuel : nat) (n : N) (acc : list N) : option (list N) :=
  if N.ltb n 62 then Some (n :: acc)
  else match fuel with
       | O => None
       | S f => digits62_aux f (n / 62)%N ((n mod 62)%N :: acc)
       end.
Definition digits62 (n : N) : option (list N) := digits62_aux (N.to_nat (N.size n)) n [].

(* digits (most significant first) -> number *)
Definition from_digits (ds : list N) : N := fold_left (fun acc d => acc * 62 + d)%N ds 0%N.
(* value of a base-62 numeral written with the alphabet *)
Definition value62 (s : list nat) : N := from_digits (map digit_of_char s).

Fixpoint leading_zeros (bs : list nat) : nat :=
  match bs with
  | 0 :: t => S (leading_zeros t)
  | _ => 0
  end.

Definition ZERO_CHAR := 48.

(* what basex's Encode computes: for k leading zero bytes (at most len-1 are
   counted) k '0's, then the base-62 digits of the big-endian value *)
Definition basex_spec (bs : list nat) : option (list nat) :=
  match bs with
  | [] => Some []
  | _ => match digits62 (bytes_to_N bs) with
         | None => None
         | Some ds => Some (repeat ZERO_CHAR (Nat.min (leading_zeros bs) (length bs - 1))
                            ++ map alpha ds)
         end
  end.

(* ---------- identifier.New ---------- *)
Inductive idres := IdOk (id : list nat) | IdErr | IdPanic.

Definition prefix_ok (p : list nat) : bool := Nat.eqb (length p) 4 && forallb is_lower p.
Definition TARGET := 43.

Section New.
(* the base-x encoder; [enc bs] = the string EncodeBase62 returns *)
Variable enc : list nat -> list nat.

Definition new_id (prefix rnd : list nat) : idres :=
  if negb (Nat.eqb (length prefix) 4) then IdErr
  else if negb (forallb is_lower prefix) then IdErr
  else
    let encoded := enc rnd in
    if Nat.ltb TARGET (length encoded) then IdPanic
    else IdOk (prefix ++ [USCORE] ++ repeat ZERO_CHAR (TARGET - length encoded) ++ encoded).
End New.

(* the executable instance used by the harness: enc := the specification *)
Definition spec_enc (bs : list nat) : list nat :=
  match basex_spec bs with Some s => s | None => [] end.

(* ---------- uuid.Parse succeeded ---------- *)
Definition uuid_body : list pat := uuid_shape_of PHex.
Definition ascii_lower (c : nat) : nat := if is_upper c then c + 32 else c.
Definition urn_prefix : list nat := [117; 114; 110; 58; 117; 117; 105; 100; 58].   (* "urn:uuid:" *)
Fixpoint list_eqb (x y : list nat) : bool :=
  match x, y with
  | [], [] => true
  | a :: x', b :: y' => Nat.eqb a b && list_eqb x' y'
  | _, _ => false
  end.
Definition uuid_parse_ok (s : list nat) : bool :=
  match length s with
  | 36 => match_shape uuid_body s
  | 45 => list_eqb (map ascii_lower (firstn 9 s)) urn_prefix && match_shape uuid_body (skipn 9 s)
  | 38 => match_shape uuid_body (skipn 1 s)
  | 32 => forallb is_hex s
  | _ => false
  end.

(* ---------- selection.EnsureNameValid ---------- *)
Inductive nres :=
| NOk
| NErrStart                (* "name does not start with Unicode letter" *)
| NErrChar (i : nat)       (* "invalid name character at index i" *)
| NErrUUID                 (* "name must not be a UUID" *)
| NErrDefaults             (* "defaults" is disallowed *)
| NOutside.                (* a byte >= 128: outside the model (Unicode tables) *)

Definition is_letter (c : nat) : bool := is_lower c || is_upper c.
Definition defaults : list nat := [100; 101; 102; 97; 117; 108; 116; 115].

(* the loop over the characters: an error, or containsDash *)
Fixpoint name_loop (i : nat) (s : list nat) (dash : bool) : nres + bool :=
  match s with
  | [] => inr dash
  | c :: t =>
    if Nat.leb 128 c then inl NOutside
    else if is_letter c then name_loop (S i) t dash
    else if Nat.eqb i 0 then inl NErrStart
    else if is_digit c then name_loop (S i) t dash
    else if Nat.eqb c DASH then name_loop (S i) t true
    else inl (NErrChar i)
  end.

Definition ensure_name_valid (name : list nat) : nres :=
  match name_loop 0 name false with
  | inl e => e
  | inr dash =>
    if dash && uuid_parse_ok name then NErrUUID
    else if list_eqb name defaults then NErrDefaults
    else NOk
  end.

Definition nres_eqb (a b : nres) : bool :=
  match a, b with
  | NOk, NOk | NErrStart, NErrStart | NErrUUID, NErrUUID
  | NErrDefaults, NErrDefaults | NOutside, NOutside => true
  | NErrChar i, NErrChar j => Nat.eqb i j
  | _, _ => false
  end.

(* ---------- harness cases ---------- *)
Fixpoint starts_with (p s : list nat) : bool :=
  match p, s with
  | [], _ => true
  | a :: p', b :: s' => Nat.eqb a b && starts_with p' s'
  | _ :: _, [] => false
  end.

Inductive icase :=
(* identifier.New(prefix) with the random reader scripted to deliver [rnd]:
   the result, IsValid of it, Truncated of it *)
| INew (prefix rnd : list nat) (res : idres) (valid : bool) (trunc : list nat)
(* encoding.EncodeBase62(bs) *)
| IEnc (bs out : list nat)
(* encoding.Base62Alphabet *)
| IAlpha (a : list nat)
(* selection.EnsureNameValid(name) *)
| IName (name : list nat) (res : nres)
(* identifier.IsValid(s), identifier.Truncated(s) *)
| IId (s : list nat) (valid : bool) (trunc : list nat).

Definition idres_eqb (a b : idres) : bool :=
  match a, b with
  | IdOk x, IdOk y => list_eqb x y
  | IdErr, IdErr | IdPanic, IdPanic => true
  | _, _ => false
  end.

Definition bytes_ok (bs : list nat) : bool := forallb (fun b => Nat.ltb b 256) bs.

Definition model_agrees_c39 (c : icase) : bool :=
  match c with
  | INew p r res v t =>
    idres_eqb (new_id spec_enc p r) res
    && match new_id spec_enc p r with
       | IdOk id => Bool.eqb (is_valid id) v && list_eqb (truncated id) t
       | _ => negb v && list_eqb t []
       end
  | IEnc bs out => match basex_spec bs with Some s => list_eqb s out | None => false end
  | IAlpha a => list_eqb a alphabet
  | IName n res => nres_eqb (ensure_name_valid n) res
  | IId s v t => Bool.eqb (is_valid s) v && list_eqb (truncated s) t
  end.

(* the property on the implementation's outputs *)
Definition check_c39 (c : icase) : bool :=
  match c with
  | INew p r res v t =>
    if prefix_ok p && Nat.eqb (length r) 32 then
      match res with
      | IdOk id =>
        (* documented prefix and fixed length; accepted by validation *)
        Nat.eqb (length id) 48 && starts_with (p ++ [USCORE]) id
        && forallb is_alnum (skipn 5 id) && matcher id && v
        (* the 43-digit numeral denotes the random value: distinct values
           cannot give the same identifier *)
        && N.eqb (value62 (skipn 5 id)) (bytes_to_N r)
        (* the display form is a prefix *)
        && starts_with t id && Nat.eqb (length t) 13
      | _ => false
      end
    else true
  | IEnc _ _ => true      (* validates a hypothesis; judged by bit 1 *)
  | IAlpha _ => true
  | IName n res =>
    (* looks like an identifier (either form) or is the reserved word: rejected *)
    if legacy_matcher n || matcher n || list_eqb n defaults
    then negb (nres_eqb res NOk) else true
  | IId s v t => starts_with t s && (if v then negb (Nat.eqb (length t) 0) else true)
  end.

(* inputs inside the model's domain *)
Definition in_domain_c39 (c : icase) : bool :=
  match c with
  | INew p r _ _ _ => bytes_ok p && bytes_ok r
  | IEnc bs _ => bytes_ok bs
  | IName n _ => forallb (fun b => Nat.ltb b 128) n
  | _ => true
  end.
