(* C15. Docker-style ignores (definitions only, no proofs).

   REFERENCE (what Docker does with a .dockerignore):
     [mopm]        PatternMatcher.MatchesOrParentMatches of the vendored upstream
                   moby/patternmatcher (patternmatcher.go), transcribed with its
                   skip rule;
     [docker_walk] the directory-walk rule of moby pkg/archive TarWithOptions:
                   a path is skipped when [mopm] says so, and a skipped
                   DIRECTORY is still descended into exactly when some "!"
                   pattern has "dir/" as a textual prefix.
   MUTAGEN:
     [mfm]         PatternMatcher.MatchesForMutagen (exact-path trinary status
                   with its short-circuit loop, plus traversal continuation);
     the ignore mask and phantom directories are Model/IgnoreScan.v [scan_node];
     [reify]       core.ReifyPhantomDirectories (phantom.go).
   The per-pattern matcher (Pattern.match: string compare or compiled regexp)
   is ABSTRACT: a function [m] from patterns and paths to booleans. The
   harness supplies it as a table obtained from the real matcher.

   Paths are reversed component lists (see Model/IgnoreScan.v). *)
From Coq Require Import List Bool Arith String Ascii.
Import ListNotations.
From Mv Require Import Model.Entry Model.IgnoreScan Model.IgnoreMutagen.
Open Scope list_scope.

Section Docker.
Variable P : Type.                    (* *Pattern *)
Variable excl : P -> bool.            (* Pattern.exclusion: a "!" pattern *)
Variable ptext : P -> string.         (* Pattern.cleanedPattern *)
Variable m : P -> rpath -> bool.      (* Pattern.match(path), abstract *)

(* the proper ancestors of a path below the root *)
Definition ancestors (q : rpath) : list rpath := chain (tl q).

(* ---------- upstream: MatchesOrParentMatches ---------- *)
Fixpoint mopm_loop (pats : list P) (file : rpath) (matched : bool) : bool :=
  match pats with
  | [] => matched
  | p :: t =>
    if negb (Bool.eqb (excl p) matched) then mopm_loop t file matched     (* continue *)
    else
      let mt := m p file || existsb (m p) (ancestors file) in
      mopm_loop t file (if mt then negb (excl p) else matched)
  end.

Definition mopm (pats : list P) (file : rpath) : bool := mopm_loop pats file false.

(* its declarative reading: the polarity of the LAST pattern, in list order,
   that matches the path or any ancestor *)
Definition matches_chain (q : rpath) (p : P) : bool := existsb (m p) (chain q).

Fixpoint last_such (f : P -> bool) (pats : list P) : option P :=
  match pats with
  | [] => None
  | p :: t => match last_such f t with
              | Some x => Some x
              | None => if f p then Some p else None
              end
  end.

Definition excluded_by (o : option P) : bool :=
  match o with Some p => negb (excl p) | None => false end.

Definition docker_excluded (pats : list P) (q : rpath) : bool :=
  excluded_by (last_such (matches_chain q) pats).

(* "dir/" is a textual prefix of some "!" pattern followed by "/" *)
Definition has_excl_prefix (pats : list P) (q : rpath) : bool :=
  let dir_slash := (path_string q ++ "/")%string in
  existsb (fun p => excl p && String.prefix dir_slash (ptext p ++ "/")%string) pats.

(* ---------- upstream: the walk of the build context ---------- *)
(* the paths Docker puts into the build context, with their nodes *)
Fixpoint docker_walk (pats : list P) (rp : rpath) (node : fnode) {struct node}
  : list (rpath * fnode) :=
  match node with
  | FDir c =>
    (fix go (l : list (name * fnode)) : list (rpath * fnode) :=
       match l with
       | [] => []
       | (n, ch) :: t =>
         let q := n :: rp in
         (if mopm pats q then
            (* skipped; a directory is still walked when a "!" pattern could
               re-include something beneath it *)
            if is_fdir ch && has_excl_prefix pats q then docker_walk pats q ch else []
          else (q, ch) :: docker_walk pats q ch)
         ++ go t
       end) c
  | _ => []
  end.

Definition leaf_entry (f : fnode) : option entry :=
  match f with
  | FFile d => Some (EFile false d)
  | FLink t => Some (ELink t)
  | _ => None
  end.

Fixpoint keep_leaves (l : list (rpath * fnode)) : list (rpath * entry) :=
  match l with
  | [] => []
  | (q, f) :: t => match leaf_entry f with
                   | Some e => (q, e) :: keep_leaves t
                   | None => keep_leaves t
                   end
  end.

(* the files and links Docker includes *)
Definition docker_leaves (pats : list P) (root : fnode) : list (rpath * entry) :=
  keep_leaves (docker_walk pats [] root).

(* ---------- Mutagen: MatchesForMutagen ---------- *)
Definition count_excl (pats : list P) : nat := List.length (filter excl pats).

(* the first loop, with status and exclusionsRemaining as state *)
Fixpoint mfm_loop (pats : list P) (q : rpath) (st : status) (remaining : nat) : status :=
  match pats with
  | [] => st
  | p :: t =>
    if status_eqb st Ignored && Nat.eqb remaining 0 then st                  (* break *)
    else if excl p then
      let remaining := Nat.pred remaining in
      if status_eqb st Unignored then mfm_loop t q st remaining              (* continue *)
      else if negb (m p q) then mfm_loop t q st remaining
      else mfm_loop t q Unignored remaining
    else if status_eqb st Ignored then mfm_loop t q st remaining             (* continue *)
    else if negb (m p q) then mfm_loop t q st remaining
    else mfm_loop t q Ignored remaining
  end.

(* MatchStatusMatched = Ignored, MatchStatusInverted = Unignored (the
   adaptation in docker/ignore.go ignorer.Ignore) *)
Definition mfm (pats : list P) (q : rpath) (dir : bool) : status * bool :=
  let st := mfm_loop pats q Nominal (count_excl pats) in
  if dir && status_eqb st Unignored then (st, false)
  else if negb dir || negb (existsb excl pats) then (st, false)
  else (st, has_excl_prefix pats q).

Definition dock_ignorer (pats : list P) : ignorer := fun q dir => mfm pats q dir.

(* declarative reading of the loop: last pattern matching exactly this path *)
Definition exact_status (pats : list P) (q : rpath) : status :=
  match last_such (fun p => m p q) pats with
  | Some p => if excl p then Unignored else Ignored
  | None => Nominal
  end.

(* ---------- the known-finding class ---------- *)
(* the last pattern matching f, together with the patterns after it *)
Fixpoint last_split (f : P -> bool) (pats : list P) : option (P * list P) :=
  match pats with
  | [] => None
  | p :: t => match last_split f t with
              | Some r => Some r
              | None => if f p then Some (p, t) else None
              end
  end.

(* At q: the pattern that decides q for Mutagen (the last one matching q
   itself) is followed, later in the list, by a pattern of the opposite
   polarity that matches a proper ancestor of q. Docker lets that later
   pattern win; Mutagen lets the deeper one win. *)
Definition known_at (pats : list P) (q : rpath) : bool :=
  match last_split (fun p => m p q) pats with
  | None => false
  | Some (pi, later) =>
    existsb (fun pj => xorb (excl pj) (excl pi) && existsb (m pj) (ancestors q)) later
  end.

(* the class: this happens at the path or at one of its ancestors *)
Definition known_C15 (pats : list P) (p : rpath) : bool :=
  existsb (known_at pats) (chain p).

(* Mutagen's effective view of a path: the status of the deepest level of
   the chain that some pattern matches exactly; used in statements *)
Fixpoint effective_ignored (pats : list P) (q : rpath) : bool :=
  match q with
  | [] => false
  | _ :: q' =>
    match exact_status pats q with
    | Ignored => true
    | Unignored => false
    | Nominal => effective_ignored pats q'
    end
  end.

End Docker.

Arguments mopm_loop {P}.
Arguments mopm {P}.
Arguments matches_chain {P}.
Arguments last_such {P}.
Arguments excluded_by {P}.
Arguments docker_excluded {P}.
Arguments has_excl_prefix {P}.
Arguments docker_walk {P}.
Arguments docker_leaves {P}.
Arguments count_excl {P}.
Arguments mfm_loop {P}.
Arguments mfm {P}.
Arguments dock_ignorer {P}.
Arguments exact_status {P}.
Arguments last_split {P}.
Arguments known_at {P}.
Arguments known_C15 {P}.
Arguments effective_ignored {P}.

(* ---------- core.ReifyPhantomDirectories (phantom.go) ---------- *)
Definition is_dirkind (e : oentry) : bool :=
  match e with Some (EDir _) | Some (EPhantom _) => true | _ => false end.
Definition is_phantom (e : oentry) : bool :=
  match e with Some (EPhantom _) => true | _ => false end.
Definition is_edir (e : oentry) : bool :=
  match e with Some (EDir _) => true | _ => false end.
(* non-nil and not untracked *)
Definition tracked_kind (e : oentry) : bool :=
  match e with None => false | Some EUntracked => false | Some _ => true end.

Record reified := {
  r_tracked : bool;      (* tracked content exists at or below this level *)
  r_ca : nat; r_cb : nat;   (* directory counts for alpha and beta *)
  r_a : oentry; r_b : oentry;   (* alpha and beta after reification *)
  r_oof : bool           (* the model ran out of fuel (never, see proofs) *)
}.

Definition sum_by {A} (f : A -> nat) (l : list A) : nat := fold_right (fun x acc => f x + acc) 0 l.

Definition collect (sel : reified -> oentry) (rs : list (name * reified)) : list (name * entry) :=
  flat_map (fun nr => match sel (snd nr) with Some e => [(fst nr, e)] | None => [] end) rs.

(* one side of the "determine how to reify" block: new entry and the
   increment of its directory count *)
Definition reify_side (to_tracked : bool) (side : oentry) (c' : list (name * entry))
  : oentry * nat :=
  if is_dirkind side then
    if to_tracked then (Some (EDir c'), 1)
    else if is_phantom side then (Some EUntracked, 0)
    else (Some (EDir c'), 1)
  else (side, 0).

Fixpoint reify_f (fuel : nat) (anc a b : oentry) : reified :=
  if negb (is_dirkind a) && negb (is_dirkind b) then
    {| r_tracked := tracked_kind a || tracked_kind b; r_ca := 0; r_cb := 0;
       r_a := a; r_b := b; r_oof := false |}
  else
    match fuel with
    | O => {| r_tracked := false; r_ca := 0; r_cb := 0; r_a := a; r_b := b; r_oof := true |}
    | S f =>
      let rs := map (fun n => (n, reify_f f (lookup n (contents anc))
                                           (lookup n (contents a))
                                           (lookup n (contents b))))
                    (name_union [contents a; contents b]) in
      let below := existsb (fun nr => r_tracked (snd nr)) rs in
      let to_tracked := below || is_edir anc in
      let '(a', da) := reify_side to_tracked a (collect r_a rs) in
      let '(b', db) := reify_side to_tracked b (collect r_b rs) in
      let ca := sum_by (fun nr => r_ca (snd nr)) rs + da in
      let cb := sum_by (fun nr => r_cb (snd nr)) rs + db in
      {| r_tracked := Nat.leb 1 ca || Nat.leb 1 cb; r_ca := ca; r_cb := cb;
         r_a := a'; r_b := b';
         r_oof := existsb (fun nr => r_oof (snd nr)) rs |}
    end.

Definition reify (anc a b : oentry) : reified :=
  reify_f (S (Nat.max (depth a) (depth b))) anc a b.

(* ---------- the one-endpoint reading of reification, as a specification ---------- *)
(* "holds tracked content or was synchronized before": a leaf that is not
   untracked, a genuine directory, or a phantom directory whose ancestor
   counterpart is a directory or which has a live child *)
Fixpoint live (anc : oentry) (e : entry) {struct e} : bool :=
  match e with
  | EUntracked => false
  | EFile _ _ | ELink _ | EProblem _ | EDir _ => true
  | EPhantom c =>
    is_edir anc
    || (fix go (l : list (name * entry)) : bool :=
          match l with
          | [] => false
          | (n, x) :: t => live (lookup n (contents anc)) x || go t
          end) c
  end.

(* phantom directories become directories when live and untracked content
   (without their contents) otherwise; everything else is kept *)
Fixpoint reify_spec (anc : oentry) (e : entry) {struct e} : entry :=
  let fix go (l : list (name * entry)) : list (name * entry) :=
    match l with
    | [] => []
    | (n, x) :: t => (n, reify_spec (lookup n (contents anc)) x) :: go t
    end in
  match e with
  | EDir c => EDir (go c)
  | EPhantom c => if live anc e then EDir (go c) else EUntracked
  | x => x
  end.

(* the number of directories of a snapshot *)
Fixpoint dir_count (e : entry) {struct e} : nat :=
  let fix go (l : list (name * entry)) : nat :=
    match l with
    | [] => 0
    | (_, x) :: t => dir_count x + go t
    end in
  match e with
  | EDir c => S (go c)
  | EPhantom c => go c
  | _ => 0
  end.

(* ---------- concrete patterns for the harness and the witnesses ---------- *)
Record dpat := {
  dexcl : bool;
  dtext : string;
  dhits : list rpath       (* the paths this pattern matches, from the real matcher *)
}.
Definition dmatch (p : dpat) (q : rpath) : bool := existsb (rpath_eqb q) (dhits p).

(* ---------- pattern preprocessing: from the user's text to (exclusion, cleaned text) ---------- *)
(* strings.TrimSpace, ASCII white space *)
Definition is_space (c : ascii) : bool :=
  let n := nat_of_ascii c in
  Nat.eqb n 32 || (Nat.leb 9 n && Nat.leb n 13).
Fixpoint trim_left (s : str) : str :=
  match s with
  | c :: t => if is_space c then trim_left t else s
  | [] => []
  end.
Definition trim (s : str) : str := rev (trim_left (rev (trim_left s))).

(* patternmatcher.New on one pattern: TrimSpace, skip if empty, filepath.Clean of
   the WHOLE text, then a leading '!' makes it an exclusion ("!" alone is an
   error). None = skipped or rejected. *)
Definition pm_new (p : str) : option (bool * str) :=
  let p := trim p in
  if null p then None
  else
    let p := clean p in
    match p with
    | c :: rest =>
      if Ascii.eqb c ch_bang then (if null rest then None else Some (true, rest))
      else Some (false, p)
    | [] => None
    end.

Definition strip_lead_slash (p : str) : str :=
  match p with
  | c :: (_ :: _) as rest => if is_slash c then rest else p
  | _ => p
  end.

(* MUTAGEN: docker/ignore.go newValidatedPatternMatcher, then New. The negation
   is split off BEFORE path.Clean and put back afterwards. *)
Definition mutagen_prep (raw : str) : option (bool * str) :=
  if existsb (fun c => Ascii.eqb c "\"%char) raw then None      (* escapes disallowed *)
  else
    let p := trim raw in
    if null p then None                                         (* whitespace-only *)
    else
      let negated := match p with c :: _ => Ascii.eqb c ch_bang | [] => false end in
      let p := if negated then trim (tl p) else p in
      if null p then None                                       (* whitespace-only negated *)
      else
        let p := clean p in
        if str_eqb p [ch_slash] then None                       (* root pattern *)
        else
          let p := strip_lead_slash p in
          pm_new (if negated then ch_bang :: p else p).

(* DOCKER: the .dockerignore reader (buildkit dockerignore.ReadAll, quoted in
   docker/ignore.go), then New: trim, skip empty lines and comments, split off
   '!', trim, filepath.Clean, drop a leading '/', put '!' back. *)
Definition docker_prep (raw : str) : option (bool * str) :=
  if match raw with c :: _ => Ascii.eqb c "#"%char | [] => false end then None   (* comment line *)
  else
  let p := trim raw in
  if null p then None
  else
    let invert := match p with c :: _ => Ascii.eqb c ch_bang | [] => false end in
    let p := if invert then trim (tl p) else p in
    let p := if null p then p else strip_lead_slash (clean p) in
    pm_new (if invert then ch_bang :: p else p).

(* ---------- checkers applied to the implementation's outputs ---------- *)
Definition pe_eqb (x y : rpath * entry) : bool :=
  rpath_eqb (fst x) (fst y) && entry_eqb (snd x) (snd y).
Definition diff_pe (a b : list (rpath * entry)) : list (rpath * entry) :=
  filter (fun x => negb (existsb (pe_eqb x) b)) a.

(* synchronized content (a file, a link or a directory; not problematic or
   untracked content) strictly below a path in a snapshot *)
Definition synchronized_kind (e : entry) : bool :=
  match e with EFile _ _ | ELink _ | EDir _ => true | _ => false end.
Definition holds_below (snap : entry) (d : rpath) : bool :=
  existsb (fun pe => synchronized_kind (snd pe) && above_eq d (fst pe)
                     && negb (rpath_eqb d (fst pe))) (entries [] snap).

Definition entry_at (snap : entry) (q : rpath) : oentry :=
  match find (fun pe => rpath_eqb q (fst pe)) (entries [] snap) with
  | Some pe => Some (snd pe)
  | None => None
  end.

(* the paths at which a reified snapshot departs from the property:
   (a) files/links synchronized but not in Docker's context, or the converse;
   (b) directories Docker excludes that are synchronized although they hold no
       synchronized content and were not synchronized before (ancestor). *)
Definition leaf_departures (pats : list dpat) (tree : fnode) (reified_snap : entry)
  : list (rpath * entry) :=
  let mine := leaves reified_snap in
  let theirs := docker_leaves dexcl dtext dmatch pats tree in
  diff_pe mine theirs ++ diff_pe theirs mine.

Definition dir_departures (pats : list dpat) (tree : fnode) (anc : oentry) (reified_snap : entry)
  : list rpath :=
  map fst (filter (fun qf =>
        is_fdir (snd qf)
        && mopm dexcl dmatch pats (fst qf)
        && is_edir (entry_at reified_snap (fst qf))
        && negb (holds_below reified_snap (fst qf))
        && negb (is_edir (match anc with Some a => entry_at a (fst qf) | None => None end)))
      (fnodes [] tree)).

Definition c15_departures (pats : list dpat) (tree : fnode) (anc : oentry) (reified_snap : entry)
  : list rpath :=
  map fst (leaf_departures pats tree reified_snap) ++ dir_departures pats tree anc reified_snap.

Definition check_C15 (pats : list dpat) (tree : fnode) (anc : oentry) (reified_snap : entry) : bool :=
  match c15_departures pats tree anc reified_snap with [] => true | _ => false end.

(* every departure lies in the known-finding class *)
Definition c15_all_known (pats : list dpat) (tree : fnode) (anc : oentry) (reified_snap : entry) : bool :=
  forallb (known_C15 dexcl dmatch pats) (c15_departures pats tree anc reified_snap).
