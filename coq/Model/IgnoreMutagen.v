(* C14. Model of pkg/synchronization/core/ignore/mutagen/ignore.go and
   ignore_vcs.go (definitions only, no proofs).

   Go strings are byte lists [str] = list ascii. The pattern language covered is
   the RESTRICTED GRAMMAR
       pattern   ::= ['!'] ['/'] component { '/' component } ['/']
       component ::= "**" | atom { atom }
       atom      ::= literal | '?' | '*' | '[' ['!'|'^'] item { item } ']'
       item      ::= c | lo '-' hi
   over ASCII, without '\' escapes, without '{' '}' alternatives and without a
   '/' between brackets ([in_grammar]). The harness additionally never produces
   (i) runs of three or more '*', (ii) two adjacent "**" components, (iii) a
   final "**" component right after a component that ends in '*': when the
   name is exhausted doublestar v4 accepts only the pattern tails "", "*",
   "**" and "/**" (isZeroLengthPattern), so "a***", "a/**/**" and "a*/**" do not
   match "a" although "a**", "a/**" and "*/**" do; these degenerate tails are
   left outside the grammar (see the C14 report). (iv) A component with a
   class that admits '/' contains no '*' ([class_star_free]): doublestar keeps
   a single backtrack point per star, which is complete as long as nothing but
   a literal '/' consumes a separator; once a class can consume it, the
   outcome depends on where the class happens to be tried ("*[!a]*" does not
   match ".hg/a-c"), and the doublestar reading below is exact only without
   stars around such a class.

   [glob_match strict] has two readings:
     strict = true   the DOCUMENTED meaning: '*', '?' and classes never match
                     '/', a "**" component matches zero or more whole components;
     strict = false  what doublestar.Match v4.10.0 actually computes on the
                     grammar: the same, except that a bracket class is tested
                     against the name rune without excluding the separator, so
                     a class that admits '/' (a negated class, or a range
                     spanning 0x2F) can consume a path separator.
   The two coincide on patterns without a slash-admitting class. *)
From Coq Require Import List Bool Arith String Ascii.
Import ListNotations.
From Mv Require Import Model.Entry Model.IgnoreScan.
Open Scope list_scope.

Definition str := list ascii.

Definition ch_slash : ascii := "/"%char.
Definition ch_bang : ascii := "!"%char.
Definition ch_star : ascii := "*"%char.
Definition ch_quest : ascii := "?"%char.
Definition ch_open : ascii := "["%char.
Definition ch_close : ascii := "]"%char.
Definition ch_caret : ascii := "^"%char.
Definition ch_dash : ascii := "-"%char.
Definition ch_dot : ascii := "."%char.

Definition is_slash (c : ascii) : bool := Ascii.eqb c ch_slash.

Fixpoint str_eqb (a b : str) : bool :=
  match a, b with
  | [], [] => true
  | x :: a', y :: b' => Ascii.eqb x y && str_eqb a' b'
  | _, _ => false
  end.

Definition null {A} (l : list A) : bool := match l with [] => true | _ => false end.

(* strings.Split(s, "/") *)
Fixpoint split_slash (s : str) : list str :=
  match s with
  | [] => [[]]
  | c :: t =>
    if is_slash c then [] :: split_slash t
    else match split_slash t with
         | [] => [[c]]
         | h :: r => (c :: h) :: r
         end
  end.

(* strings.Join(l, "/") *)
Fixpoint join_slash (l : list str) : str :=
  match l with
  | [] => []
  | [x] => x
  | x :: r => x ++ ch_slash :: join_slash r
  end.

(* ---------- path.Clean, as documented ---------- *)
Definition s_dot : str := [ch_dot].
Definition s_dotdot : str := [ch_dot; ch_dot].

(* one component against the stack of kept components (innermost first) *)
Definition clean_step (rooted : bool) (stack : list str) (c : str) : list str :=
  if null c || str_eqb c s_dot then stack
  else if str_eqb c s_dotdot then
    match stack with
    | top :: rest => if str_eqb top s_dotdot then c :: stack else rest
    | [] => if rooted then [] else [c]
    end
  else c :: stack.

Definition clean (s : str) : str :=
  let rooted := match s with c :: _ => is_slash c | [] => false end in
  let kept := rev (fold_left (clean_step rooted) (split_slash s) []) in
  let out := (if rooted then [ch_slash] else []) ++ join_slash kept in
  if null out then s_dot else out.

(* cleanPreservingTrailingSlash *)
Definition clean_keep_slash (s : str) : str :=
  let need := Nat.ltb 1 (List.length s) && is_slash (last s ch_dot) in
  if need then clean s ++ [ch_slash] else clean s.

(* ---------- the glob language ---------- *)
Inductive atom :=
| ALit (c : ascii)
| AAny                                         (* ?  *)
| AStar                                        (* *  *)
| AClass (neg : bool) (items : list (ascii * ascii)).   (* [..] [!..] [^..] *)

Inductive comp :=
| CDouble                                      (* a "**" component *)
| CSeg (atoms : list atom).

(* parser state for one component (doublestar's class scanning, match.go
   "case '['": optional negation, first item must exist, "lo-hi" is a range only
   right after an unconsumed single item and when followed by a non-']') *)
Inductive pst :=
| SOut
| SOpen
| SFirst (neg : bool)
| SIn (neg : bool) (items : list (ascii * ascii)) (last : option ascii)
| SDash (neg : bool) (items : list (ascii * ascii)) (lo : ascii).

(* one character inside a class: the next state, or the finished class *)
Definition class_step (neg : bool) (items : list (ascii * ascii)) (last : option ascii)
  (c : ascii) : pst + atom :=
  if Ascii.eqb c ch_close then inr (AClass neg items)
  else match last with
       | Some lo => if Ascii.eqb c ch_dash then inl (SDash neg items lo)
                    else inl (SIn neg (items ++ [(c, c)]) (Some c))
       | None => inl (SIn neg (items ++ [(c, c)]) (Some c))
       end.

Fixpoint parse_atoms (st : pst) (s : str) : option (list atom) :=
  match s with
  | [] => match st with SOut => Some [] | _ => None end
  | c :: t =>
    let emit (a : atom) := option_map (cons a) (parse_atoms SOut t) in
    let go (r : pst + atom) :=
      match r with inl st' => parse_atoms st' t | inr a => emit a end in
    match st with
    | SOut =>
      if Ascii.eqb c ch_star then emit AStar
      else if Ascii.eqb c ch_quest then emit AAny
      else if Ascii.eqb c ch_open then parse_atoms SOpen t
      else emit (ALit c)
    | SOpen =>
      if Ascii.eqb c ch_bang || Ascii.eqb c ch_caret then parse_atoms (SFirst true) t
      else if Ascii.eqb c ch_close then None
      else go (class_step false [] None c)
    | SFirst neg =>
      if Ascii.eqb c ch_close then None else go (class_step neg [] None c)
    | SIn neg items last => go (class_step neg items last c)
    | SDash neg items lo =>
      if Ascii.eqb c ch_close then emit (AClass neg (items ++ [(ch_dash, ch_dash)]))
      else parse_atoms (SIn neg (items ++ [(lo, c)]) None) t
    end
  end.

Definition s_dstar : str := [ch_star; ch_star].

Definition parse_comp (s : str) : option comp :=
  if str_eqb s s_dstar then Some CDouble else option_map CSeg (parse_atoms SOut s).

Fixpoint all_some {A} (l : list (option A)) : option (list A) :=
  match l with
  | [] => Some []
  | Some x :: t => option_map (cons x) (all_some t)
  | None :: _ => None
  end.

(* None = doublestar.ErrBadPattern *)
Definition parse_glob (text : str) : option (list comp) :=
  all_some (map parse_comp (split_slash text)).

(* ---------- matching ---------- *)
Definition ascii_leb (a b : ascii) : bool := Nat.leb (nat_of_ascii a) (nat_of_ascii b).

Definition in_items (c : ascii) (items : list (ascii * ascii)) : bool :=
  existsb (fun r => ascii_leb (fst r) c && ascii_leb c (snd r)) items.

(* one non-star atom against one character *)
Definition atom1 (strict : bool) (a : atom) (c : ascii) : bool :=
  match a with
  | ALit x => Ascii.eqb x c && negb (is_slash c)
  | AAny => negb (is_slash c)
  | AClass neg items => (negb strict || negb (is_slash c)) && xorb neg (in_items c items)
  | AStar => false
  end.

(* '*' followed by the continuation k: k on the rest after skipping zero or
   more non-separator characters *)
Fixpoint star_k (k : str -> bool) (s : str) : bool :=
  k s || match s with [] => false | c :: s' => negb (is_slash c) && star_k k s' end.

(* the atoms of one component against a string *)
Fixpoint seg_match (strict : bool) (atoms : list atom) (s : str) {struct atoms} : bool :=
  match atoms with
  | [] => null s
  | AStar :: rest => star_k (seg_match strict rest) s
  | a :: rest =>
    match s with
    | [] => false
    | c :: s' => atom1 strict a c && seg_match strict rest s'
    end
  end.

(* "**" followed by the continuation k: k after skipping zero or more whole
   name components *)
Fixpoint skip_k (k : list str -> bool) (ns : list str) : bool :=
  k ns || match ns with [] => false | _ :: ns' => skip_k k ns' end.

(* one non-"**" component [seg] followed by k. In the strict reading it consumes
   exactly one name component; in the doublestar reading it may also consume
   several, joined by '/', which succeeds only when a class of the component
   can match the separator. [acc] is what has been joined so far. *)
Fixpoint take_k (strict : bool) (seg : str -> bool) (k : list str -> bool)
  (acc : str) (ns : list str) : bool :=
  match ns with
  | [] => false
  | n :: ns' =>
    (seg (acc ++ n) && k ns')
    || (negb strict && take_k strict seg k (acc ++ n ++ [ch_slash]) ns')
  end.

(* pattern components against name components *)
Fixpoint path_match (strict : bool) (cs : list comp) (ns : list str) {struct cs} : bool :=
  match cs with
  | [] => null ns
  | CDouble :: cs' => skip_k (path_match strict cs') ns
  | CSeg atoms :: cs' => take_k strict (seg_match strict atoms) (path_match strict cs') [] ns
  end.

(* doublestar.Match(pattern, name) for a parsed pattern *)
Definition glob_match (strict : bool) (cs : list comp) (name : str) : bool :=
  path_match strict cs (split_slash name).

(* a class that contains '/' as a set of characters *)
Definition class_admits_slash (a : atom) : bool :=
  match a with
  | AClass neg items => xorb neg (in_items ch_slash items)
  | _ => false
  end.

Definition comp_admits_slash (c : comp) : bool :=
  match c with CDouble => false | CSeg atoms => existsb class_admits_slash atoms end.

(* harness restriction (iv): no '*' next to a class that admits '/' *)
Definition class_star_free (cs : list comp) : bool :=
  forallb (fun c => match c with
                    | CDouble => true
                    | CSeg atoms =>
                      negb (existsb class_admits_slash atoms
                            && existsb (fun a => match a with AStar => true | _ => false end) atoms)
                    end) cs.

(* ---------- ignorePattern / newIgnorePattern ---------- *)
Record ipat := {
  negated : bool;
  dir_only : bool;
  match_leaf : bool;
  text : str;             (* ignorePattern.pattern *)
  comps : list comp       (* its parse; validity = doublestar accepts it *)
}.

(* newIgnorePattern after the negation prefix has been split off *)
Definition parse_body (neg : bool) (body : str) : option ipat :=
  let body := clean_keep_slash body in
  if str_eqb body [ch_slash] then None                  (* root pattern *)
  else if str_eqb body [ch_slash; ch_slash] then None   (* root directory pattern *)
  else
    let absolute := match body with c :: _ => is_slash c | [] => false end in
    let body := if absolute then tl body else body in
    if null body then None
    else
      let donly := is_slash (last body ch_dot) in
      let body := if donly then removelast body else body in
      if null body then None
      else
        let has_slash := existsb is_slash body in
        match parse_glob body with
        | None => None                                  (* unable to validate pattern *)
        | Some cs =>
          Some {| negated := neg; dir_only := donly;
                  match_leaf := negb absolute && negb has_slash;
                  text := body; comps := cs |}
        end.

Definition parse_pattern (raw : str) : option ipat :=
  match raw with
  | [] => None                                          (* empty pattern *)
  | c0 :: rest0 =>
    let neg := Ascii.eqb c0 ch_bang in
    let body := if neg then rest0 else raw in
    if null body then None                              (* negated empty pattern *)
    else parse_body neg body
  end.

(* ignorePattern.matches; [path] is a root-relative path string *)
Definition pat_matches (strict : bool) (p : ipat) (path : str) (dir : bool) : bool :=
  if dir_only p && negb dir then false
  else if glob_match strict (comps p) path then true
  else if match_leaf p && negb (null path)
       then path_match strict (comps p) [last (split_slash path) []]   (* path.Base *)
       else false.

(* ---------- ignorer.Ignore: the short-circuit loop ---------- *)
Section Loop.
Variable P : Type.
Variable neg : P -> bool.      (* pattern.negated *)
Variable m : P -> bool.        (* pattern.matches(path, directory) for the query at hand *)

Definition count_neg (pats : list P) : nat := List.length (filter neg pats).

(* the for loop, with status and negatedPatternsRemaining as state *)
Fixpoint ignore_loop (pats : list P) (st : status) (remaining : nat) : status :=
  match pats with
  | [] => st
  | p :: t =>
    if status_eqb st Ignored && Nat.eqb remaining 0 then st                 (* break *)
    else if neg p then
      let remaining := Nat.pred remaining in                                (* -- *)
      if status_eqb st Unignored then ignore_loop t st remaining            (* continue *)
      else if negb (m p) then ignore_loop t st remaining                    (* continue *)
      else ignore_loop t Unignored remaining
    else if status_eqb st Ignored then ignore_loop t st remaining           (* continue *)
    else if negb (m p) then ignore_loop t st remaining                      (* continue *)
    else ignore_loop t Ignored remaining
  end.

Definition run_loop (pats : list P) : status :=
  ignore_loop pats Nominal (count_neg pats).

(* the specification: the status of the LAST pattern that matches *)
Definition pol (p : P) : status := if neg p then Unignored else Ignored.

Fixpoint last_match (pats : list P) : option P :=
  match pats with
  | [] => None
  | p :: t => match last_match t with
              | Some q => Some q
              | None => if m p then Some p else None
              end
  end.

Definition status_of (o : option P) : status :=
  match o with Some p => pol p | None => Nominal end.

Definition last_match_status (pats : list P) : status := status_of (last_match pats).
End Loop.

Arguments ignore_loop {P}.
Arguments run_loop {P}.
Arguments count_neg {P}.
Arguments last_match {P}.
Arguments last_match_status {P}.
Arguments status_of {P}.
Arguments pol {P}.

(* NewIgnorer + Ignore *)
Definition parse_all (raws : list str) : option (list ipat) :=
  all_some (map parse_pattern raws).

Definition ignore (strict : bool) (pats : list ipat) (path : str) (dir : bool) : status * bool :=
  (run_loop negated (fun p => pat_matches strict p path dir) pats, false).

(* the property's reading of the same query *)
Definition spec_status (pats : list ipat) (path : str) (dir : bool) : status :=
  last_match_status negated (fun p => pat_matches true p path dir) pats.

(* ---------- ignore_vcs.go ---------- *)
Definition str_of (s : string) : str := list_ascii_of_string s.

(* vcsDirectoryNames (compared with the real table on every run) *)
Definition vcs_names : list string := [".bzr"; ".git"; ".hg"; ".svn"; "_darcs"]%string.

Definition is_vcs_name (n : string) : bool := existsb (String.eqb n) vcs_names.

(* vcsIgnorer.Ignore over a reversed component path: fastpath.Base = head *)
Definition vcs_wrap (inner : ignorer) : ignorer :=
  fun rp dir =>
    if dir && is_vcs_name (hd ""%string rp) then (Ignored, false) else inner rp dir.

(* the ignorer handed to core.Scan *)
Definition mut_ignorer (strict vcs : bool) (pats : list ipat) : ignorer :=
  let base : ignorer := fun rp dir => ignore strict pats (str_of (path_string rp)) dir in
  if vcs then vcs_wrap base else base.

(* ---------- the known-finding class and the checkers ---------- *)
(* some pattern has a bracket class that contains '/' *)
Definition known_C14 (pats : list ipat) : bool :=
  existsb (fun p => existsb comp_admits_slash (comps p)) pats.

(* Ignorer.Ignore's answer satisfies the property: last matching pattern wins
   under the documented glob meaning, and traversal never continues *)
Definition check_C14_ignore (pats : list ipat) (path : str) (dir : bool)
  (out : status * bool) : bool :=
  status_eqb (fst out) (spec_status pats path dir) && negb (snd out).

(* a snapshot satisfies the property: it has the shape of the walk that
   prunes exactly the content ignored under the documented meaning *)
Definition check_C14_scan (vcs : bool) (pats : list ipat) (tree : fnode) (snap : entry) : bool :=
  shape_eqb snap (snapshot (mut_ignorer true vcs pats) tree).

(* ---------- domain of the model (harness well-formedness) ---------- *)
Definition ch_lbrace : ascii := "{"%char.
Definition ch_rbrace : ascii := "}"%char.
Definition ch_bslash : ascii := "\"%char.

(* no escapes, no alternatives, no non-ASCII, no '/' between brackets *)
Fixpoint in_grammar_from (inclass : bool) (s : str) : bool :=
  match s with
  | [] => true
  | c :: t =>
    if Ascii.eqb c ch_lbrace || Ascii.eqb c ch_rbrace || Ascii.eqb c ch_bslash then false
    else if Nat.leb 128 (nat_of_ascii c) then false
    else if inclass then
      if is_slash c then false
      else in_grammar_from (negb (Ascii.eqb c ch_close)) t
    else in_grammar_from (Ascii.eqb c ch_open) t
  end.
Definition in_grammar (s : str) : bool := in_grammar_from false s.

(* a root-relative path: non-empty components without '/' *)
Definition wf_path (s : str) : bool :=
  negb (null s) && forallb (fun c => negb (null c)) (split_slash s).
