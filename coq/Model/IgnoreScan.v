(* Shared by C14 and C15: the way pkg/synchronization/core/scan.go consults an
   ignore.Ignorer while it walks a directory tree (definitions only).

   What is modelled: the per-child block of scanner.directory (scan.go, "Determine
   whether or not this path is ignored ..." up to the recursive call): kind
   switch, Ignorer.Ignore(path, isDirectory), the three-way status switch with
   the traversal-continuation flag and the ignore mask, untracked entries for
   pruned content, and Directory vs PhantomDirectory for the directory itself.
   What is NOT modelled here (C12/C13 own it): hashing, executability, caches
   and baselines, temporary names, device crossing, errors. Names that are not
   valid UTF-8 are modelled as the node kind [FBadName].
   The filesystem is an abstract tree [fnode]; every filesystem primitive the
   walk issues is recorded as an [event], so that "no traversal" is a statement
   about the returned log.

   Paths inside this model are REVERSED component lists ([rpath], innermost
   name first): the path a/b/c is ["c"; "b"; "a"], the root is []. The parent of
   [n :: p] is [p]; the ancestors of a path are its proper non-empty tails. *)
From Coq Require Import List Bool Arith String Ascii.
Import ListNotations.
From Mv Require Import Model.Entry.
Open Scope list_scope.

(* ignore.IgnoreStatus *)
Inductive status := Nominal | Ignored | Unignored.

Definition status_eqb (a b : status) : bool :=
  match a, b with
  | Nominal, Nominal | Ignored, Ignored | Unignored, Unignored => true
  | _, _ => false
  end.

Definition rpath := list name.

(* ignore.Ignorer: path, is-directory |-> status, continue-traversal *)
Definition ignorer := rpath -> bool -> status * bool.

(* the filesystem below a synchronization root *)
Inductive fnode :=
| FDir (c : list (name * fnode))   (* directory, children in listing order *)
| FFile (digest : string)          (* regular file (its content digest)     *)
| FLink (target : string)          (* symbolic link                         *)
| FOther                           (* FIFO, socket, device: unsupported     *)
| FBadName.                        (* any content whose name is not valid
                                      UTF-8; it is listed under the escaped
                                      name the scanner derives               *)

Definition is_fdir (n : fnode) : bool := match n with FDir _ => true | _ => false end.

(* what the walk does on the filesystem / asks the ignorer *)
Inductive event :=
| EvIgnore (p : rpath) (dir : bool)   (* Ignorer.Ignore(p, dir) was evaluated *)
| EvRead (p : rpath).                 (* p was opened: directory listing, file
                                         content, or link target               *)

(* The status switch of scanner.directory. [None] = record an untracked entry
   and continue with the next child (no descent); [Some m] = process the child
   with ignore mask m. *)
Definition decide (st : status) (cont mask : bool) : option bool :=
  match st with
  | Nominal => if mask && negb cont then None else Some mask
  | Ignored => if negb cont then None else Some true
  | Unignored => Some false
  end.

(* A name that is not valid UTF-8 never reaches the ignorer: it is recorded,
   under its escaped name, as untracked content below an ignore mask and as
   problematic content otherwise. *)
Definition bad_name_problem : string := "non-UTF-8 filename".
Definition bad_name_entry (mask : bool) : entry :=
  if mask then EUntracked else EProblem bad_name_problem.

(* the kinds that are offered to the ignorer *)
Definition consulted_kind (f : fnode) : bool :=
  match f with FOther | FBadName => false | _ => true end.

(* scanner.directory (and file / symbolicLink for the leaves) *)
Fixpoint scan_node (ign : ignorer) (rp : rpath) (mask : bool) (node : fnode)
  {struct node} : entry * list event :=
  match node with
  | FDir c =>
    let fix go (l : list (name * fnode)) : list (name * entry) * list event :=
      match l with
      | [] => ([], [])
      | (n, ch) :: t =>
        let q := n :: rp in
        let '(es, evs) := go t in
        match ch with
        | FOther => ((n, EUntracked) :: es, evs)
        | FBadName => ((n, bad_name_entry mask) :: es, evs)
        | _ =>
          let isdir := is_fdir ch in
          let '(st, cont) := ign q isdir in
          match decide st cont mask with
          | None => ((n, EUntracked) :: es, EvIgnore q isdir :: evs)
          | Some mask' =>
            let '(e, ev) := scan_node ign q mask' ch in
            ((n, e) :: es, EvIgnore q isdir :: ev ++ evs)
          end
        end
      end in
    let '(es, evs) := go c in
    (if mask then EPhantom es else EDir es, EvRead rp :: evs)
  | FFile d => (EFile false d, [EvRead rp])
  | FLink t => (ELink t, [EvRead rp])
  | FOther => (EUntracked, [])
  | FBadName => (bad_name_entry mask, [])
  end.

(* core.Scan on a directory root: the root itself is never offered to the
   ignorer and starts without an ignore mask. *)
Definition scan (ign : ignorer) (root : fnode) : entry * list event :=
  scan_node ign [] false root.

Definition snapshot (ign : ignorer) (root : fnode) : entry := fst (scan ign root).
Definition scan_log (ign : ignorer) (root : fnode) : list event := snd (scan ign root).

(* ---------- enumerations used by statements and checkers ---------- *)

(* every (path, entry) of a snapshot, the root excluded, parents first *)
Fixpoint entries (rp : rpath) (e : entry) {struct e} : list (rpath * entry) :=
  let fix go (l : list (name * entry)) : list (rpath * entry) :=
    match l with
    | [] => []
    | (n, x) :: t => ((n :: rp, x) :: entries (n :: rp) x) ++ go t
    end in
  match e with
  | EDir c | EPhantom c => go c
  | _ => []
  end.

(* every (path, node) of a filesystem tree, the root excluded *)
Fixpoint fnodes (rp : rpath) (f : fnode) {struct f} : list (rpath * fnode) :=
  let fix go (l : list (name * fnode)) : list (rpath * fnode) :=
    match l with
    | [] => []
    | (n, x) :: t => ((n :: rp, x) :: fnodes (n :: rp) x) ++ go t
    end in
  match f with
  | FDir c => go c
  | _ => []
  end.

(* the synchronized files and links of a snapshot, with their paths *)
Definition is_leaf (e : entry) : bool :=
  match e with EFile _ _ | ELink _ => true | _ => false end.
Definition leaves (e : entry) : list (rpath * entry) :=
  filter (fun pe => is_leaf (snd pe)) (entries [] e).

(* q is p or an ancestor of p (reversed paths: q is a tail of p) *)
Fixpoint rpath_eqb (a b : rpath) : bool :=
  match a, b with
  | [], [] => true
  | x :: a', y :: b' => String.eqb x y && rpath_eqb a' b'
  | _, _ => false
  end.

Fixpoint above_eq (q p : rpath) : bool :=
  rpath_eqb q p || match p with [] => false | _ :: p' => above_eq q p' end.

(* non-empty tails: the path itself and its ancestors below the root, the
   path first, the top-level directory last *)
Fixpoint chain (p : rpath) : list rpath :=
  match p with
  | [] => []
  | _ :: p' => p :: chain p'
  end.

(* "a/b/c" for ["c"; "b"; "a"] *)
Definition path_string (p : rpath) : string := String.concat "/" (rev p).

(* and back: strings.Split(s, "/"), reversed *)
Fixpoint split_str (s : string) : list string :=
  match s with
  | EmptyString => [EmptyString]
  | String c t =>
    if Ascii.eqb c "/"%char then EmptyString :: split_str t
    else match split_str t with
         | [] => [String c EmptyString]
         | h :: r => String c h :: r
         end
  end.
Definition rp_of (s : string) : rpath := rev (split_str s).

(* ---------- comparing snapshots by shape (kinds only) ---------- *)
Fixpoint shape_eqb (a b : entry) {struct a} : bool :=
  let fix list_eqb (x y : list (name * entry)) {struct x} : bool :=
    match x, y with
    | [], [] => true
    | (n, e) :: x', (m, f) :: y' => String.eqb n m && shape_eqb e f && list_eqb x' y'
    | _, _ => false
    end in
  match a, b with
  | EDir c, EDir c' => list_eqb c c'
  | EPhantom c, EPhantom c' => list_eqb c c'
  | EFile _ _, EFile _ _ => true
  | ELink _, ELink _ => true
  | EUntracked, EUntracked => true
  | EProblem _, EProblem _ => true
  | _, _ => false
  end.

(* ---------- event lists as canonical sets (for the harness) ---------- *)
Definition event_eqb (a b : event) : bool :=
  match a, b with
  | EvIgnore p d, EvIgnore q e => rpath_eqb p q && Bool.eqb d e
  | EvRead p, EvRead q => rpath_eqb p q
  | _, _ => false
  end.

Definition subset_ev (a b : list event) : bool :=
  forallb (fun x => existsb (event_eqb x) b) a.
Definition same_events (a b : list event) : bool := subset_ev a b && subset_ev b a.

Definition consults (l : list event) : list event :=
  filter (fun e => match e with EvIgnore _ _ => true | _ => false end) l.

(* well-formed filesystem trees for the harness: valid, strictly sorted names *)
Fixpoint wf_fnode (f : fnode) : bool :=
  let fix go (l : list (name * fnode)) : bool :=
    match l with
    | [] => true
    | (n, x) :: t => name_valid n && wf_fnode x && go t
    end in
  match f with
  | FDir c => go c && sorted_names (map fst c)
  | FFile d => negb (String.eqb d "")
  | FLink t => negb (String.eqb t "")
  | FOther | FBadName => true
  end.
