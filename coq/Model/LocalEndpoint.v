(* Model of the local endpoint's call protocol (C41). Definitions only.
   Go: pkg/synchronization/endpoint/local/endpoint.go
         NewEndpoint (readOnly, maximumEntryCount), scan / Scan (full-scan path:
         watching disabled, so acceleration is never available), Stage
         (argument checks, then the read-only guard, scan guard, limit
         arithmetic, filtering loop, stageFromRoot), Supply,
         Transition (guards, limit arithmetic; the disk work is delegated to
         core.Transition, whose outcome is an input of the model),
       pkg/synchronization/safety.go filteredPathsAreSubset.

   [fixed = false] is Stage AS THE CODE IS: the limit test
   (maximumEntryCount - lastScanEntryCount) < len(paths) is evaluated in
   uint64 and wraps when the last scan counted more entries than the maximum.
   [fixed = true] is Stage with the proposed repair (test for that case first).

   The store and the filtering loop are those of Model/Staging.v; the hash
   function is the Section variable [H]. *)
From Coq Require Import List Bool Arith NArith String.
Import ListNotations.
From Mv Require Model.Entry.
From Mv Require Import Model.Staging.
Local Open Scope string_scope.
Local Open Scope list_scope.

Definition two64 : N := 18446744073709551616.
(* a - b in uint64 for a, b < 2^64 *)
Definition wsub (a b : N) : N := ((a + two64 - b) mod two64)%N.
Definition wadd (a b : N) : N := ((a + b) mod two64)%N.

(* what a scan sees: the entry count of the root and its regular files *)
Record disk := { dcount : N; dfiles : files }.

Inductive stage_err := EReadOnly | ELength | ENoScan | ELimit | EQuery
  | EOtherStage.   (* any other error: never produced by the model *)
Inductive stage_res := StErr (e : stage_err) | StOk (needed : list path).

Inductive scan_res := ScErr | ScExceeded (n : N) | ScOk (n : N).

Inductive trans_err := TReadOnly | TNoScan | TRemoveMore
  | TOtherErr.     (* any other error: never produced by the model *)
(* the outcome of the delegated core.Transition call (an input of the model) *)
Record tenv := { tpost : disk; tresults : list Entry.oentry; tnproblems : nat; tmiss : bool }.
Inductive trans_res :=
| TrErr (e : trans_err)
| TrLimit (results : list Entry.oentry)     (* nothing applied, one problem, missing = false *)
| TrDone (results : list Entry.oentry) (nproblems : nat) (missing : bool).

Inductive op :=
| OScan (ok : bool)                                   (* ok = false: core.Scan fails *)
| OStage (paths : list path) (digests : list digest) (picks : list nat)
| OSupply (delivered : list bytes)                    (* per outstanding path: content received
                                                         (an unreadable source yields the empty file) *)
| OTransition (chs : list Entry.change) (env : tenv)
| OEdit (d : disk).                                   (* external modification of the root *)

Inductive res :=
| RScan (r : scan_res)
| RStage (r : stage_res)
| RSupply
| RTransition (r : trans_res)
| REdit.

(* ---------- equality of results (for the correspondence check) ---------- *)

Definition stage_err_eqb (a b : stage_err) : bool :=
  match a, b with
  | EReadOnly, EReadOnly | ELength, ELength | ENoScan, ENoScan | ELimit, ELimit
  | EQuery, EQuery | EOtherStage, EOtherStage => true
  | _, _ => false
  end.
Definition trans_err_eqb (a b : trans_err) : bool :=
  match a, b with
  | TReadOnly, TReadOnly | TNoScan, TNoScan | TRemoveMore, TRemoveMore | TOtherErr, TOtherErr => true
  | _, _ => false
  end.
Fixpoint paths_eqb (a b : list path) : bool :=
  match a, b with
  | [], [] => true
  | x :: a', y :: b' => String.eqb x y && paths_eqb a' b'
  | _, _ => false
  end.
Definition olist_eqb (a b : list Entry.oentry) : bool :=
  (Nat.eqb (List.length a) (List.length b))
  && forallb (fun xy => Entry.oentry_eqb (fst xy) (snd xy)) (combine a b).
Definition res_eqb (a b : res) : bool :=
  match a, b with
  | RScan ScErr, RScan ScErr => true
  | RScan (ScExceeded n), RScan (ScExceeded m) => (n =? m)%N
  | RScan (ScOk n), RScan (ScOk m) => (n =? m)%N
  | RStage (StErr x), RStage (StErr y) => stage_err_eqb x y
  | RStage (StOk x), RStage (StOk y) => paths_eqb x y
  | RSupply, RSupply => true
  | RTransition (TrErr x), RTransition (TrErr y) => trans_err_eqb x y
  | RTransition (TrLimit x), RTransition (TrLimit y) => olist_eqb x y
  | RTransition (TrDone x n m), RTransition (TrDone y n' m') =>
      olist_eqb x y && Nat.eqb n n' && Bool.eqb m m'
  | REdit, REdit => true
  | _, _ => false
  end.

Section LocalEndpoint.

Variable H : bytes -> digest.
Variable fixed : bool.

Record ep := {
  ro : bool;                  (* readOnly *)
  maxc : N;                   (* maximumEntryCount (after defaulting: never 0 from NewEndpoint) *)
  mxsize : N;                 (* maximum staging file size *)
  since_stage : bool;         (* scannedSinceLastStageCall *)
  since_trans : bool;         (* scannedSinceLastTransitionCall *)
  lastc : N;                  (* lastScanEntryCount *)
  cache : list (path * digest);   (* e.cache: digests as of the last scan *)
  sto : store;                (* the staging store *)
  dsk : disk;                 (* the root as it is now *)
  pend : list path            (* paths of the receiver returned by the last Stage *)
}.

Definition new_ep (readonly : bool) (maxcount maxsize : N) (d : disk) : ep :=
  {| ro := readonly; maxc := maxcount; mxsize := maxsize; since_stage := false;
     since_trans := false; lastc := 0; cache := []; sto := []; dsk := d; pend := [] |}.

(* ---------- Scan (full scan) ---------- *)

Definition cache_of (d : disk) : list (path * digest) :=
  map (fun pc => (fst pc, H (snd pc))) (dfiles d).

Definition scan (e : ep) (ok : bool) : ep * scan_res :=
  if negb ok then (e, ScErr)
  else
    let n := dcount (dsk e) in
    let c := cache_of (dsk e) in
    if (maxc e <? n)%N then
      ({| ro := ro e; maxc := maxc e; mxsize := mxsize e; since_stage := since_stage e;
          since_trans := since_trans e; lastc := n; cache := c; sto := sto e; dsk := dsk e;
          pend := pend e |}, ScExceeded n)
    else
      ({| ro := ro e; maxc := maxc e; mxsize := mxsize e; since_stage := true;
          since_trans := true; lastc := n; cache := c; sto := sto e; dsk := dsk e;
          pend := pend e |}, ScOk n).

(* ---------- Stage ---------- *)

(* ReverseLookupMap.Lookup: some path the cache lists with this digest; which
   one (Go map iteration order) is chosen by [k] *)
Definition candidates (c : list (path * digest)) (d : digest) : list path :=
  map fst (filter (fun qd => String.eqb (snd qd) d) c).

Definition pick_src (c : list (path * digest)) (d : digest) (k : nat) : option path :=
  match candidates c d with
  | [] => None
  | q :: t => Some (nth (k mod S (List.length t)) (q :: t) q)
  end.

Fixpoint srcs_of (c : list (path * digest)) (ds : list digest) (picks : list nat) : list (option path) :=
  match ds with
  | [] => []
  | d :: t => pick_src c d (hd 0 picks) :: srcs_of c t (tl picks)
  end.

Definition over_limit (mx last : N) (n : nat) : bool :=
  negb (mx =? 0)%N
  && ((fixed && (mx <? last)%N) || (wsub mx last <? N.of_nat n)%N).

Definition set_stage (e : ep) (flag : bool) (s : store) (pd : list path) : ep :=
  {| ro := ro e; maxc := maxc e; mxsize := mxsize e; since_stage := flag;
     since_trans := since_trans e; lastc := lastc e; cache := cache e; sto := s; dsk := dsk e;
     pend := pd |}.

Definition stage (e : ep) (paths : list path) (digests : list digest) (picks : list nat)
  : ep * stage_res :=
  if negb (Nat.eqb (List.length paths) (List.length digests)) then (e, StErr ELength)
  else match paths with
  | [] => (e, StOk [])
  | _ :: _ =>
      if ro e then (e, StErr EReadOnly)
      else if negb (since_stage e) then (e, StErr ENoScan)
      else if over_limit (maxc e) (lastc e) (List.length paths)
      then (set_stage e false (sto e) (pend e), StErr ELimit)
      else
        match stage_loop H (mxsize e) (dfiles (dsk e)) (sto e) (combine paths digests)
                         (srcs_of (cache e) digests picks) with
        | (s', None) => (set_stage e false s' (pend e), StErr EQuery)
        | (s', Some m) =>
            let needed := select m paths in
            (set_stage e false s' (match needed with [] => pend e | _ => needed end), StOk needed)
        end
  end.

(* ---------- Supply (the receiver of the last Stage is fed and finalized) ---------- *)

Fixpoint deliver (s : store) (ps : list path) (cs : list bytes) : store :=
  match ps, cs with
  | p :: ps', c :: cs' => deliver (commit H s p c) ps' cs'
  | _, _ => s
  end.

Definition supply (e : ep) (cs : list bytes) : ep :=
  set_stage e (since_stage e) (deliver (sto e) (pend e) cs) [].

(* ---------- Transition ---------- *)

Fixpoint resulting (cur : N) (chs : list Entry.change) : option N :=
  match chs with
  | [] => Some cur
  | c :: t =>
      let removed := N.of_nat (Entry.count (Entry.cold c)) in
      if (cur <? removed)%N then None
      else resulting (wadd (cur - removed) (N.of_nat (Entry.count (Entry.cnew c)))) t
  end.

Definition set_trans (e : ep) (s : store) (d : disk) (pd : list path) : ep :=
  {| ro := ro e; maxc := maxc e; mxsize := mxsize e; since_stage := since_stage e;
     since_trans := false; lastc := lastc e; cache := cache e; sto := s; dsk := d; pend := pd |}.

Definition delegate (e : ep) (env : tenv) : ep * trans_res :=
  (set_trans e [] (tpost env) [],                      (* core.Transition, then Stager.Finalize *)
   TrDone (tresults env) (tnproblems env) (tmiss env)).

Definition transition (e : ep) (chs : list Entry.change) (env : tenv) : ep * trans_res :=
  if ro e then (e, TrErr TReadOnly)
  else if negb (since_trans e) then (e, TrErr TNoScan)
  else if (maxc e =? 0)%N then delegate e env
  else
    match resulting (lastc e) chs with
    | None => (set_trans e (sto e) (dsk e) (pend e), TrErr TRemoveMore)
    | Some r =>
        if (maxc e <? r)%N
        then (set_trans e (sto e) (dsk e) (pend e), TrLimit (map Entry.cold chs))
        else delegate e env
    end.

(* ---------- histories ---------- *)

Definition set_disk (e : ep) (d : disk) : ep :=
  {| ro := ro e; maxc := maxc e; mxsize := mxsize e; since_stage := since_stage e;
     since_trans := since_trans e; lastc := lastc e; cache := cache e; sto := sto e; dsk := d;
     pend := pend e |}.

Definition step (e : ep) (o : op) : ep * res :=
  match o with
  | OScan ok => let '(e', r) := scan e ok in (e', RScan r)
  | OStage ps ds ks => let '(e', r) := stage e ps ds ks in (e', RStage r)
  | OSupply cs => (supply e cs, RSupply)
  | OTransition chs env => let '(e', r) := transition e chs env in (e', RTransition r)
  | OEdit d => (set_disk e d, REdit)
  end.

Fixpoint run (e : ep) (ops : list op) : ep * list res :=
  match ops with
  | [] => (e, [])
  | o :: t =>
      let '(e1, r) := step e o in
      let '(e2, rs) := run e1 t in
      (e2, r :: rs)
  end.

Definition run_state (e : ep) (ops : list op) : ep := fst (run e ops).
Definition run_results (e : ep) (ops : list op) : list res := snd (run e ops).

(* ---------- the property as a checker on observed results ---------- *)

(* filteredPathsAreSubset: order-preserving subsequence, greedy *)
Fixpoint subseq_from (orig : list path) (f : path) : option (list path) :=
  match orig with
  | [] => None
  | o :: t => if String.eqb o f then Some t else subseq_from t f
  end.

Fixpoint is_subseq (filtered orig : list path) : bool :=
  match filtered with
  | [] => true
  | f :: ft => match subseq_from orig f with
               | None => false
               | Some rest => is_subseq ft rest
               end
  end.

(* there is an order-preserving embedding of [filtered] into the request such
   that every request item left out satisfies [avail] *)
Fixpoint align_ok (avail : path * digest -> bool) (req : list (path * digest))
         (filtered : list path) : bool :=
  match req with
  | [] => match filtered with [] => true | _ :: _ => false end
  | (p, d) :: t =>
      (match filtered with
       | f :: ft => String.eqb p f && align_ok avail t ft
       | [] => false
       end)
      || (avail (p, d) && align_ok avail t filtered)
  end.

Definition root_has_digest (d : disk) (dg : digest) : bool :=
  existsb (fun pc => String.eqb (H (snd pc)) dg) (dfiles d).

(* "content is treated as available only if it is already staged or a file
   with the same digest exists in the root" *)
Definition available (e : ep) (pd : path * digest) : bool :=
  contains (sto e) (fst pd) (snd pd) || root_has_digest (dsk e) (snd pd).

Definition files_eqb (a b : files) : bool :=
  (Nat.eqb (List.length a) (List.length b))
  && forallb (fun xy => String.eqb (fst (fst xy)) (fst (snd xy))
                        && String.eqb (snd (fst xy)) (snd (snd xy))) (combine a b).
Definition disk_eqb (a b : disk) : bool :=
  (dcount a =? dcount b)%N && files_eqb (dfiles a) (dfiles b).

(* [check_op e o r]: does the observed result [r] of operation [o], issued in
   state [e], respect the property?  (Refusing is always allowed.) *)
Definition check_op (e : ep) (o : op) (r : res) : bool :=
  match o, r with
  | OScan _, RScan (ScOk n) => (n <=? maxc e)%N
  | OStage ps ds _, RStage (StOk needed) =>
      match ps with
      | [] => true
      | _ :: _ =>
          since_stage e                                                     (* a scan preceded *)
          && (lastc e + N.of_nat (List.length ps) <=? maxc e)%N                  (* within the limit *)
      end
      && is_subseq needed ps
      && align_ok (available e) (combine ps ds) needed
  | OTransition chs env, RTransition (TrLimit rs) =>
      since_trans e && olist_eqb rs (map Entry.cold chs) && disk_eqb (tpost env) (dsk e)
  | OTransition chs env, RTransition (TrDone _ _ _) =>
      since_trans e
      && match resulting (lastc e) chs with
         | Some r' => (r' <=? maxc e)%N
         | None => false
         end
  | _, _ => true
  end.

(* the state in which the next operation is judged is the model's *)
Fixpoint check_C41 (e : ep) (ops : list op) (obs : list res) : bool :=
  match ops, obs with
  | [], [] => true
  | o :: t, r :: rt => check_op e o r && check_C41 (fst (step e o)) t rt
  | _, _ => false
  end.

(* the class in which Stage as it is fails the limit part of the property:
   the last scan counted more entries than the maximum *)
Definition above_max (e : ep) : bool := (maxc e <? lastc e)%N.

End LocalEndpoint.
