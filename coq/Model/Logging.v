(* Model of pkg/logging/logger.go, pkg/logging/level.go and
   pkg/platform/terminal/neutralization.go (definitions only, no proofs).
   The line splitter under Logger.Writer is Model/Stream.v's LineProcessor.

   Bytes are [nat]; a record is the argument of ONE Write call on the log
   sink.  The timestamp of a record produced "now" is an opaque parameter [ts]
   (Go: time.Now().Format(timestampFormat)).

   Go -> model:
     Level.abbreviation          abbrev
     abbreviationToLevel         abbrev_to_level
     NeutralizeControlCharacters neutralize
     Logger.write                log_write      (None = the panic branch)
     Logger.log / logf           log_msg        (one string argument: message = s ++ LF)
     Logger.Sublogger            sublogger
     linePrefixMatcher           match_prefix
     Logger.Writer callback      relay_cb
     Logger.Writer               relay_run      (LineProcessor + callback) *)
From Coq Require Import List Arith Bool ZArith.
Import ListNotations.
From Mv Require Import Model.Stream.

Definition ESC := 27.
Definition record := list nat.

(* ---------- levels ---------- *)
(* "_EWIDT" *)
Definition abbreviations : list nat := [95; 69; 87; 73; 68; 84].
Definition abbrev (level : nat) : nat :=
  if Nat.leb level 5 then nth level abbreviations 63 else 63. (* '?' *)

Fixpoint index_byte (c : nat) (s : list nat) : option nat :=
  match s with
  | [] => None
  | b :: t => if Nat.eqb b c then Some 0
              else match index_byte c t with Some i => Some (S i) | None => None end
  end.

Definition abbrev_to_level (c : nat) : option nat := index_byte c abbreviations.

(* ---------- neutralization ---------- *)
(* strings.NewReplacer("\x1b", "^[", "\r", "\\r") *)
Definition neutralize_byte (b : nat) : list nat :=
  if Nat.eqb b ESC then [94; 91] else if Nat.eqb b CR then [92; 114] else [b].
Definition neutralize (s : list nat) : list nat := flat_map neutralize_byte s.

(* ---------- loggers ---------- *)
Record logger := { lvl : nat; scope : list nat }.
Definition ologger := option logger.   (* nil logger = None *)

Definition dots_lf : list nat := [46; 46; 46; 10].   (* "...\n" *)

Definition scope_part (sc : list nat) : list nat :=
  match sc with [] => [] | _ => [91] ++ sc ++ [93; 32] end.   (* "[scope] " *)

(* "<ts> [<L>] " *)
Definition level_prefix (ts : list nat) (level : nat) : list nat :=
  ts ++ [32; 91] ++ [abbrev level] ++ [93; 32].

(* Logger.write; None = panic("no newline character found ...") *)
Definition log_write (ts : list nat) (lg : logger) (level : nat) (msg : list nat) : option record :=
  let msg1 := match index_byte CR msg with
              | Some i => firstn i msg ++ dots_lf
              | None => msg
              end in
  match index_byte LF msg1 with
  | None => None
  | Some i =>
    let msg2 := if Nat.eqb i (length msg1 - 1) then msg1 else firstn i msg1 ++ dots_lf in
    Some (neutralize (level_prefix ts level ++ scope_part (scope lg) ++ msg2))
  end.

(* what a call produces: the records written, or a panic *)
Inductive emitted := Recs (r : list record) | Panic.

(* Logger.log(level, s) / logf(level, "%s", s): message = s ++ "\n" *)
Definition log_msg (ts : list nat) (l : ologger) (level : nat) (s : list nat) : emitted :=
  match l with
  | None => Recs []
  | Some lg =>
    if Nat.leb level (lvl lg) then
      match log_write ts lg level (s ++ [LF]) with
      | Some r => Recs [r]
      | None => Panic
      end
    else Recs []
  end.

(* [[:word:]] *)
Definition is_digit (b : nat) : bool := Nat.leb 48 b && Nat.leb b 57.
Definition is_word (b : nat) : bool :=
  is_digit b || (Nat.leb 65 b && Nat.leb b 90) || (Nat.leb 97 b && Nat.leb b 122) || Nat.eqb b 95.
(* nameMatcher "^[[:word:]]+$" *)
Definition name_ok (n : list nat) : bool :=
  match n with [] => false | _ => forallb is_word n end.

Definition warn_level := 2.
(* "attempt to create sublogger with invalid name" *)
Definition sublogger_warning : list nat :=
  [97;116;116;101;109;112;116;32;116;111;32;99;114;101;97;116;101;32;115;117;98;108;111;103;103;101;114;
   32;119;105;116;104;32;105;110;118;97;108;105;100;32;110;97;109;101].

(* Logger.Sublogger: the new logger and what the call emitted *)
Definition sublogger (ts : list nat) (l : ologger) (name : list nat) : ologger * emitted :=
  match l with
  | None => (None, Recs [])
  | Some lg =>
    if name_ok name then
      (Some {| lvl := lvl lg;
               scope := match scope lg with [] => name | sc => sc ++ [46] ++ name end |}, Recs [])
    else (None, log_msg ts l warn_level sublogger_warning)
  end.

Definition emitted_app (a b : emitted) : emitted :=
  match a, b with
  | Recs x, Recs y => Recs (x ++ y)
  | _, _ => Panic
  end.

(* NewLogger(level, w) followed by a chain of Sublogger calls *)
Fixpoint subloggers (ts : list nat) (l : ologger) (names : list (list nat)) : ologger * emitted :=
  match names with
  | [] => (l, Recs [])
  | n :: t => let '(l1, e1) := sublogger ts l n in
              let '(l2, e2) := subloggers ts l1 t in (l2, emitted_app e1 e2)
  end.

(* ---------- the relay writer ---------- *)
(* linePrefixMatcher:
   ^\d{4}-\d{2}-\d{2} \d{2}:\d{2}:\d{2}\.\d{6} \[([_EWIDT])\]<space>     (31 bytes) *)
Inductive pat := PD | PC (c : nat) | PL.   (* digit, literal, level letter *)
Definition ts_shape : list pat :=
  [PD;PD;PD;PD;PC 45;PD;PD;PC 45;PD;PD;PC 32;PD;PD;PC 58;PD;PD;PC 58;PD;PD;PC 46;PD;PD;PD;PD;PD;PD].
Definition prefix_shape : list pat := ts_shape ++ [PC 32; PC 91; PL; PC 93; PC 32].

Definition pat_ok (p : pat) (b : nat) : bool :=
  match p with
  | PD => is_digit b
  | PC c => Nat.eqb b c
  | PL => match abbrev_to_level b with Some _ => true | None => false end
  end.

Fixpoint match_shape (sh : list pat) (s : list nat) : bool :=
  match sh, s with
  | [], _ => true
  | p :: sh', b :: s' => pat_ok p b && match_shape sh' s'
  | _ :: _, [] => false
  end.

Definition prefix_len := 31.
(* FindStringSubmatch: Some (matches[0], matches[1][0]) *)
Definition match_prefix (line : list nat) : option (list nat * nat) :=
  if match_shape prefix_shape line then Some (firstn prefix_len line, nth 28 line 0) else None.

(* "<invalid incoming log line level>" *)
Definition invalid_level_warning : list nat :=
  [60;105;110;118;97;108;105;100;32;105;110;99;111;109;105;110;103;32;108;111;103;32;108;105;110;101;32;
   108;101;118;101;108;62].

(* the Callback of Logger.Writer(level), for a non-nil logger *)
Definition relay_cb (ts : list nat) (lg : logger) (level : nat) (line : list nat) : emitted :=
  match match_prefix line with
  | None => log_msg ts (Some lg) level line
  | Some (m0, c) =>
    match abbrev_to_level c with
    | None => log_msg ts (Some lg) warn_level invalid_level_warning
    | Some line_level =>
      if Nat.ltb (lvl lg) line_level then Recs []
      else
        let line' := match scope lg with
                     | [] => line ++ [LF]
                     | sc => m0 ++ [91] ++ sc ++ [93; 32] ++ skipn (length m0) line ++ [LF]
                     end in
        Recs [neutralize line']
    end
  end.

Fixpoint relay_lines (ts : list nat) (lg : logger) (level : nat) (lines : list (list nat)) : emitted :=
  match lines with
  | [] => Recs []
  | l :: t => emitted_app (relay_cb ts lg level l) (relay_lines ts lg level t)
  end.

(* result of one Write on the relay writer: count, error, records it caused *)
Definition rres := (nat * err * list record)%type.
Inductive rout := ROut (r : list rres) | RPanic | RFuel.

Fixpoint relay_results (ts : list nat) (lg : logger) (level : nat) (lo : list lres) : option (list rres) :=
  match lo with
  | [] => Some []
  | (n, e, cbs) :: t =>
    match relay_lines ts lg level cbs, relay_results ts lg level t with
    | Recs r, Some rs => Some ((n, e, r) :: rs)
    | _, _ => None
    end
  end.

(* Logger.Writer(level) fed with the writes [ws]; a nil logger gives io.Discard *)
Definition relay_run (ts : list nat) (l : ologger) (level : nat) (ws : list (list nat)) : rout :=
  match l with
  | None => ROut (map (fun d => (length d, ENil, [])) ws)
  | Some lg =>
    match lp_run 0 ws with
    | LFuel => RFuel
    | LOut lo => match relay_results ts lg level lo with
                 | Some r => ROut r
                 | None => RPanic
                 end
    end
  end.

(* ---------- the property on records ---------- *)
(* exactly one LF, at the end *)
Definition one_line (r : record) : Prop := exists body, r = body ++ [LF] /\ ~ In LF body.
Definition no_controls (r : record) : Prop := ~ In CR r /\ ~ In ESC r.
Definition clean (s : list nat) : Prop := ~ In LF s /\ ~ In CR s /\ ~ In ESC s.
Definition ts_like (t : list nat) : Prop := match_shape ts_shape t = true /\ length t = 26.
(* begins "<timestamp> [<L>] " (+ "[scope] "): the timestamp is [ts] or has
   the timestamp layout; L is a level abbreviation *)
Definition has_prefix (ts sc : list nat) (r : record) : Prop :=
  exists t c rest, r = t ++ [32; 91] ++ [c] ++ [93; 32] ++ scope_part sc ++ rest
    /\ (t = ts \/ ts_like t) /\ (In c abbreviations \/ c = 63).
Definition good_record (ts sc : list nat) (r : record) : Prop :=
  one_line r /\ no_controls r /\ has_prefix ts sc r.

(* scopes reachable through Sublogger: dot-joined word names *)
Definition scope_ok (sc : list nat) : bool := forallb (fun b => is_word b || Nat.eqb b 46) sc.

(* ---------- boolean versions, applied to the implementation's records ---------- *)
Definition one_lineb (r : record) : bool :=
  Nat.eqb (last r 0) LF && Nat.eqb (count_lf r) 1.
Definition no_controlsb (r : record) : bool :=
  negb (existsb (Nat.eqb CR) r) && negb (existsb (Nat.eqb ESC) r).
Definition is_abbrev (c : nat) : bool :=
  existsb (Nat.eqb c) abbreviations || Nat.eqb c 63.

Fixpoint starts_with (p s : list nat) : bool :=
  match p, s with
  | [], _ => true
  | a :: p', b :: s' => Nat.eqb a b && starts_with p' s'
  | _ :: _, [] => false
  end.

(* the timestamp may be [ts] or anything of the timestamp layout *)
Definition has_prefixb (ts sc : list nat) (r : record) : bool :=
  let after_ts (rest : list nat) : bool :=
    match rest with
    | 32 :: 91 :: c :: 93 :: 32 :: rest' => is_abbrev c && starts_with (scope_part sc) rest'
    | _ => false
    end in
  (starts_with ts r && after_ts (skipn (length ts) r))
  || (match_shape ts_shape r && after_ts (skipn 26 r)).

Definition good_recordb (ts sc : list nat) (r : record) : bool :=
  one_lineb r && no_controlsb r && has_prefixb ts sc r.

(* ---------- harness cases ---------- *)
Inductive action :=
| ALog (level : nat) (s : list nat)               (* Error/Warn/Info/Debug/Trace(s) or ...f("%s", s) *)
| ARelay (level : nat) (ws : list (list nat)).    (* Writer(level) fed with ws *)

(* observed: records written while building the logger; then per log call the
   records, per relayed write (count, error, records) *)
Inductive observed :=
| OLog (build : list record) (recs : list record)
| ORelay (build : list record) (res : list rres)
| OPanic.

Record lcase := { c_lvl : nat; c_names : list (list nat); c_act : action; c_obs : observed }.

Definition run_case (ts : list nat) (lv : nat) (names : list (list nat)) (a : action) : observed :=
  let '(l, eb) := subloggers ts (Some {| lvl := lv; scope := [] |}) names in
  match eb with
  | Panic => OPanic
  | Recs build =>
    match a with
    | ALog level s => match log_msg ts l level s with
                      | Recs r => OLog build r
                      | Panic => OPanic
                      end
    | ARelay level ws => match relay_run ts l level ws with
                         | ROut r => ORelay build r
                         | _ => OPanic
                         end
    end
  end.

(* comparison up to the opaque timestamp: equal, or the model's record starts
   with the placeholder [ts] where the implementation's has a timestamp of the
   fixed layout, and the rest is equal *)
Definition rec_matches (ts : list nat) (m i : record) : bool :=
  list_eqb m i
  || (starts_with ts m && match_shape ts_shape i
      && list_eqb (skipn (length ts) m) (skipn 26 i)).

Fixpoint recs_match (ts : list nat) (m i : list record) : bool :=
  match m, i with
  | [], [] => true
  | a :: m', b :: i' => rec_matches ts a b && recs_match ts m' i'
  | _, _ => false
  end.

Fixpoint rres_match (ts : list nat) (m i : list rres) : bool :=
  match m, i with
  | [], [] => true
  | (n, e, r) :: m', (n', e', r') :: i' =>
    Nat.eqb n n' && err_eqb e e' && recs_match ts r r' && rres_match ts m' i'
  | _, _ => false
  end.

Definition obs_matches (ts : list nat) (m i : observed) : bool :=
  match m, i with
  | OLog b r, OLog b' r' => recs_match ts b b' && recs_match ts r r'
  | ORelay b r, ORelay b' r' => recs_match ts b b' && rres_match ts r r'
  | OPanic, OPanic => true
  | _, _ => false
  end.

(* the scope of the logger the chain of names leads to (None = nil logger) *)
Fixpoint scope_of (sc : list nat) (names : list (list nat)) : option (list nat) :=
  match names with
  | [] => Some sc
  | n :: t => if name_ok n then scope_of (match sc with [] => n | _ => sc ++ [46] ++ n end) t
              else None
  end.
(* the scope of the logger that rejects the first invalid name *)
Fixpoint warn_scope (sc : list nat) (names : list (list nat)) : list nat :=
  match names with
  | [] => sc
  | n :: t => if name_ok n then warn_scope (match sc with [] => n | _ => sc ++ [46] ++ n end) t
              else sc
  end.

(* check_c44: the observed records are single neutralized prefixed lines, at
   most one per log call / per completed input line, none for a partial line *)
Definition check_c44 (ts : list nat) (c : lcase) : bool :=
  let sc := match scope_of [] (c_names c) with Some s => s | None => [] end in
  let build_ok (b : list record) :=
    forallb (good_recordb ts (warn_scope [] (c_names c))) b && Nat.leb (length b) 1 in
  match c_act c, c_obs c with
  | ALog level s, OLog b r =>
    build_ok b && forallb (good_recordb ts sc) r && Nat.leb (length r) 1
  | ARelay level ws, ORelay b res =>
    build_ok b
    && Nat.eqb (length res) (length ws)
    && forallb (fun x : rres => forallb (good_recordb ts sc) (snd x)) res
    (* a write yields at most one record per line it completes: none for a
       write without LF *)
    && forallb (fun p : list nat * rres => Nat.leb (length (snd (snd p))) (count_lf (fst p)))
               (combine ws res)
  | _, _ => false
  end.

Definition model_agrees_c44 (ts : list nat) (c : lcase) : bool :=
  obs_matches ts (run_case ts (c_lvl c) (c_names c) (c_act c)) (c_obs c).

(* the property on a case, as a Prop (what check_c44 decides) *)
Definition c44_holds (ts : list nat) (c : lcase) : Prop :=
  let sc := match scope_of [] (c_names c) with Some s => s | None => [] end in
  let build_ok (b : list record) :=
    Forall (good_record ts (warn_scope [] (c_names c))) b /\ length b <= 1 in
  match c_act c, c_obs c with
  | ALog level s, OLog b r =>
    build_ok b /\ Forall (good_record ts sc) r /\ length r <= 1
  | ARelay level ws, ORelay b res =>
    build_ok b
    /\ length res = length ws
    /\ Forall (fun x : rres => Forall (good_record ts sc) (snd x)) res
    /\ Forall (fun p : list nat * rres => length (snd (snd p)) <= count_lf (fst p)) (combine ws res)
  | _, _ => False
  end.
