(* Model of pkg/container/lru/lru.go (definitions only, no proofs).

   The Go cache is a container/list (front = most recently used) plus an index
   map from keys to list elements. The model is the list of (key, value) pairs
   in recency order; the index map is the "is this key present" lookup on that
   list. The eviction callback is modelled as the list of (key, value) pairs it
   was invoked with, in order, returned by each step.

   A second, GHOST-instrumented model stamps every entry with the logical time
   of its last use (Add or successful Get). It exists only to state "the entry
   evicted is the least recently used one"; erasing the stamps gives the plain
   model (proved in Proof/Lru.v). *)
From Coq Require Import List Arith Lia.
Import ListNotations.

Set Implicit Arguments.

Section Lru.
Variables K V : Type.
Variable eqK : K -> K -> bool.

Record cache := { max_entries : nat; order : list (K * V) }.

Definition new_cache (n : nat) : cache := {| max_entries := n; order := [] |}.

Fixpoint lookup (l : list (K * V)) (k : K) : option V :=
  match l with
  | [] => None
  | (k', v) :: t => if eqK k k' then Some v else lookup t k
  end.

Fixpoint remove_key (l : list (K * V)) (k : K) : list (K * V) :=
  match l with
  | [] => []
  | (k', v) :: t => if eqK k k' then t else (k', v) :: remove_key t k
  end.

(* Add: returns the new cache and the callback invocations *)
Definition add (c : cache) (k : K) (v : V) : cache * list (K * V) :=
  match lookup (order c) k with
  | Some _ =>
    (* MoveToFront, then overwrite the value *)
    ({| max_entries := max_entries c; order := (k, v) :: remove_key (order c) k |}, [])
  | None =>
    let o := (k, v) :: order c in
    if (negb (Nat.eqb (max_entries c) 0) && Nat.ltb (max_entries c) (length o))%bool
    then
      (* removeOldest: Back() of a non-empty list *)
      ({| max_entries := max_entries c; order := removelast o |},
       match rev o with [] => [] | last :: _ => [last] end)
    else ({| max_entries := max_entries c; order := o |}, [])
  end.

Definition get (c : cache) (k : K) : cache * option V :=
  match lookup (order c) k with
  | Some v => ({| max_entries := max_entries c; order := (k, v) :: remove_key (order c) k |},
               Some v)
  | None => (c, None)
  end.

Definition remove (c : cache) (k : K) : cache * list (K * V) :=
  match lookup (order c) k with
  | Some v => ({| max_entries := max_entries c; order := remove_key (order c) k |}, [(k, v)])
  | None => (c, [])
  end.

Inductive op := OAdd (k : K) (v : V) | OGet (k : K) | ORemove (k : K) | OLen.

(* observable result: value returned (Get), length (Len), callback invocations *)
Inductive res :=
| RAdd (evicted : list (K * V))
| RGet (v : option V)
| RRemove (evicted : list (K * V))
| RLen (n : nat).

Definition step (c : cache) (o : op) : cache * res :=
  match o with
  | OAdd k v => let '(c', ev) := add c k v in (c', RAdd ev)
  | OGet k => let '(c', v) := get c k in (c', RGet v)
  | ORemove k => let '(c', ev) := remove c k in (c', RRemove ev)
  | OLen => (c, RLen (length (order c)))
  end.

Fixpoint run (c : cache) (ops : list op) : list res :=
  match ops with
  | [] => []
  | o :: rest => let '(c', r) := step c o in r :: run c' rest
  end.

Fixpoint run_state (c : cache) (ops : list op) : cache :=
  match ops with
  | [] => c
  | o :: rest => run_state (fst (step c o)) rest
  end.

Definition evicted_of (r : res) : list (K * V) :=
  match r with RAdd ev | RRemove ev => ev | _ => [] end.

(* the callback log of a whole run *)
Definition callback_log (rs : list res) : list (K * V) := flat_map evicted_of rs.

(* ---------- ghost-stamped model ---------- *)
(* entries carry the logical time (index of the operation) of their last use *)
Record gcache := { gmax : nat; gorder : list (K * V * nat); gclock : nat }.

Definition new_gcache (n : nat) : gcache := {| gmax := n; gorder := []; gclock := 0 |}.

Fixpoint glookup (l : list (K * V * nat)) (k : K) : option V :=
  match l with
  | [] => None
  | (k', v, _) :: t => if eqK k k' then Some v else glookup t k
  end.

Fixpoint gremove_key (l : list (K * V * nat)) (k : K) : list (K * V * nat) :=
  match l with
  | [] => []
  | (k', v, t') :: t => if eqK k k' then t else (k', v, t') :: gremove_key t k
  end.

Definition gstep (c : gcache) (o : op) : gcache * list (K * V * nat) :=
  let now := S (gclock c) in
  match o with
  | OAdd k v =>
    match glookup (gorder c) k with
    | Some _ => ({| gmax := gmax c; gorder := (k, v, now) :: gremove_key (gorder c) k;
                    gclock := now |}, [])
    | None =>
      let o := (k, v, now) :: gorder c in
      if (negb (Nat.eqb (gmax c) 0) && Nat.ltb (gmax c) (length o))%bool
      then ({| gmax := gmax c; gorder := removelast o; gclock := now |},
            match rev o with [] => [] | last :: _ => [last] end)
      else ({| gmax := gmax c; gorder := o; gclock := now |}, [])
    end
  | OGet k =>
    match glookup (gorder c) k with
    | Some v => ({| gmax := gmax c; gorder := (k, v, now) :: gremove_key (gorder c) k;
                    gclock := now |}, [])
    | None => ({| gmax := gmax c; gorder := gorder c; gclock := now |}, [])
    end
  | ORemove k =>
    match glookup (gorder c) k with
    | Some _ => ({| gmax := gmax c; gorder := gremove_key (gorder c) k; gclock := now |},
                 filter (fun e => eqK k (fst (fst e))) (gorder c))
    | None => ({| gmax := gmax c; gorder := gorder c; gclock := now |}, [])
    end
  | OLen => ({| gmax := gmax c; gorder := gorder c; gclock := now |}, [])
  end.

Fixpoint grun_state (c : gcache) (ops : list op) : gcache :=
  match ops with
  | [] => c
  | o :: rest => grun_state (fst (gstep c o)) rest
  end.

Definition erase (c : gcache) : cache :=
  {| max_entries := gmax c; order := map fst (gorder c) |}.

(* ---------- boolean equality of results, for the correspondence harness ---- *)
Variable eqV : V -> V -> bool.

Fixpoint kvs_eqb (x y : list (K * V)) : bool :=
  match x, y with
  | [], [] => true
  | (k, v) :: x', (k', v') :: y' => (eqK k k' && eqV v v' && kvs_eqb x' y')%bool
  | _, _ => false
  end.

Definition res_eqb (x y : res) : bool :=
  match x, y with
  | RAdd a, RAdd b => kvs_eqb a b
  | RGet None, RGet None => true
  | RGet (Some a), RGet (Some b) => eqV a b
  | RRemove a, RRemove b => kvs_eqb a b
  | RLen a, RLen b => Nat.eqb a b
  | _, _ => false
  end.

Fixpoint results_eqb (x y : list res) : bool :=
  match x, y with
  | [], [] => true
  | a :: x', b :: y' => (res_eqb a b && results_eqb x' y')%bool
  | _, _ => false
  end.

End Lru.
