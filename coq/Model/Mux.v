(* Model of pkg/multiplexing/{multiplexer.go,stream.go,protocol.go,configuration.go}
   (definitions only, no proofs).

   Two endpoints SA (even = false, outbound ids 1,3,5,..) and SB (even = true,
   outbound ids 2,4,..) joined by two FIFO wires of messages.  The public API
   is split into the atomic steps the Go code has (each step is one critical
   section / one channel operation of one goroutine); [step] is a total
   computable function [state -> action -> option result] ([None] = the action
   is not enabled in that state) and [run] folds it over a schedule, skipping
   disabled actions.

   What is one wire.  A frame reaches the carrier through
   writeBufferPending (a FIFO channel drained by the single writer goroutine)
   and the carrier is a FIFO byte stream, so "pending buffers ++ carrier" is
   one FIFO whose order is the order of the [writeBufferPending <-] sends.
   The number of write buffers only restricts when a sender may proceed; the
   model lets a sender always proceed (a superset of the code's schedules,
   which is the sound direction for the invariants proved about it).

   The receive buffer is a bounded FIFO byte list (ring.Buffer, proved in
   Props/C26.v); ReadNFrom(reader, n) fails with ErrBufferFull iff
   used + n > size.

   The two spots where the unchanged code breaks C24 carry a flag each
   ([fixes]); with a flag off the code is transcribed as it is. *)
From Coq Require Import List NArith Bool.
From Coq Require Import Strings.Byte.
Import ListNotations.
Local Open Scope N_scope.

Set Implicit Arguments.

(* ------------------------------------------------------------------ maps *)
Section AMap.
Variable V : Type.
Definition amap := list (N * V).
Fixpoint get (i : N) (m : amap) : option V :=
  match m with
  | [] => None
  | (j, v) :: t => if N.eqb i j then Some v else get i t
  end.
Fixpoint del (i : N) (m : amap) : amap :=
  match m with
  | [] => []
  | (j, v) :: t => if N.eqb i j then del i t else (j, v) :: del i t
  end.
Definition set (i : N) (v : V) (m : amap) : amap := (i, v) :: del i m.
Definition has (i : N) (m : amap) : bool :=
  match get i m with Some _ => true | None => false end.
End AMap.
Arguments get {V} i m.
Arguments del {V} i m.
Arguments set {V} i v m.
Arguments has {V} i m.

Definition getN (i : N) (m : amap N) : N := match get i m with Some n => n | None => 0 end.
Definition getL (A : Type) (i : N) (m : amap (list A)) : list A :=
  match get i m with Some l => l | None => [] end.

(* --------------------------------------------------------------- messages *)
Definition byte := Byte.byte.

Inductive side := SA | SB.
Definition other (s : side) : side := match s with SA => SB | SB => SA end.
Definition side_eqb (a b : side) : bool :=
  match a, b with SA, SA | SB, SB => true | _, _ => false end.
(* Multiplexer.even *)
Definition even_of (s : side) : bool := match s with SA => false | SB => true end.
(* streamIdentifierIsOutbound := m.even == (streamIdentifier%2 == 0) *)
Definition mine (s : side) (i : N) : bool := Bool.eqb (even_of s) (N.even i).
Definition first_id (s : side) : N := if even_of s then 2 else 1.

Inductive msg :=
| MOpen (i w : N)
| MAccept (i w : N)
| MData (i : N) (d : list byte)
| MIncr (i n : N)
| MCloseWrite (i : N)
| MClose (i : N)
| MHeartbeat.

Definition maxU64 : N := 18446744073709551615.
Definition maxBlock : N := 65535.           (* maximumStreamDataBlockSize *)
Definition len (A : Type) (l : list A) : N := N.of_nat (length l).
Arguments len {A} l.

(* ----------------------------------------------------------------- streams *)
(* write-deadline timer used as a semaphore (Stream.writeDeadline):
   WFree in the channel; WHeld by a Write with [rest] still to send;
   WPosting taken out of circulation by CloseWrite() whose close-write message
   is not yet handed to enqueue (closeWriteOnce still running); WGone. *)
Inductive wstate := WFree | WHeld (rest : list byte) | WPosting | WGone.
(* read-deadline timer: RHeld by a Read with a buffer of length k; RPost c:
   that Read has copied c bytes out and has not yet handed the window
   increment to enqueue; RGone taken out of circulation by close. *)
Inductive rstate := RFree | RHeld (k : N) | RPost (c : N) | RGone.
(* who owns the stream object *)
Inductive phase :=
| POpening (sent : bool)   (* inside OpenStream; sent = sentOpenMessage *)
| PBacklog                 (* in pendingInboundStreamIdentifiers *)
| PAccepting               (* inside acceptOneStream *)
| PUser                    (* returned to the caller *)
| PDead.                   (* open/accept failed: deferred close running *)
(* Stream.close: requested with sendCloseMessage = send; message handed over *)
Inductive cstate := CNo | CReq (send : bool) | CPosted.

Record stream := {
  sw : N;               (* sendWindow *)
  rbuf : list byte;     (* receiveBuffer contents, capacity = own window *)
  est : bool;           (* established closed *)
  rcw : bool;           (* remoteClosedWrite closed *)
  rc : bool;            (* remoteClosed closed *)
  wst : wstate;
  rst : rstate;
  ph : phase;
  cl : cstate }.

Definition closedWrite (x : stream) : bool :=
  match wst x with WPosting | WGone => true | _ => false end.
Definition closed (x : stream) : bool :=
  match rst x with RGone => true | _ => false end.

Definition new_stream (p : phase) (w : N) : stream :=
  {| sw := w; rbuf := []; est := false; rcw := false; rc := false;
     wst := WFree; rst := RFree; ph := p; cl := CNo |}.

Definition set_sw v x := {| sw := v; rbuf := rbuf x; est := est x; rcw := rcw x; rc := rc x; wst := wst x; rst := rst x; ph := ph x; cl := cl x |}.
Definition set_rbuf v x := {| sw := sw x; rbuf := v; est := est x; rcw := rcw x; rc := rc x; wst := wst x; rst := rst x; ph := ph x; cl := cl x |}.
Definition set_est v x := {| sw := sw x; rbuf := rbuf x; est := v; rcw := rcw x; rc := rc x; wst := wst x; rst := rst x; ph := ph x; cl := cl x |}.
Definition set_rcw v x := {| sw := sw x; rbuf := rbuf x; est := est x; rcw := v; rc := rc x; wst := wst x; rst := rst x; ph := ph x; cl := cl x |}.
Definition set_rc v x := {| sw := sw x; rbuf := rbuf x; est := est x; rcw := rcw x; rc := v; wst := wst x; rst := rst x; ph := ph x; cl := cl x |}.
Definition set_wst v x := {| sw := sw x; rbuf := rbuf x; est := est x; rcw := rcw x; rc := rc x; wst := v; rst := rst x; ph := ph x; cl := cl x |}.
Definition set_rst v x := {| sw := sw x; rbuf := rbuf x; est := est x; rcw := rcw x; rc := rc x; wst := wst x; rst := v; ph := ph x; cl := cl x |}.
Definition set_ph v x := {| sw := sw x; rbuf := rbuf x; est := est x; rcw := rcw x; rc := rc x; wst := wst x; rst := rst x; ph := v; cl := cl x |}.
Definition set_cl v x := {| sw := sw x; rbuf := rbuf x; est := est x; rcw := rcw x; rc := rc x; wst := wst x; rst := rst x; ph := ph x; cl := v |}.

(* --------------------------------------------------------------- endpoints *)
Record config := {
  cW : N;            (* StreamReceiveWindow (normalised: >= 0) *)
  cBacklog : nat }.  (* AcceptBacklog (normalised: >= 1) *)

Record endpoint := {
  cfg : config;
  streams : amap stream;        (* Multiplexer.streams *)
  nextOut : N;                  (* nextOutboundStreamIdentifier; 0 = exhausted *)
  largestIn : N;                (* largestOpenedInboundStreamIdentifier (reader local) *)
  backlog : list N;             (* pendingInboundStreamIdentifiers, FIFO *)
  incs : amap N;                (* enqueue(): windowIncrements *)
  wcs : amap unit;              (* enqueue(): writeCloses *)
  cls : amap unit;              (* enqueue(): closes *)
  mclosed : bool;               (* Multiplexer.closed closed *)
  (* ghost history, never read by the code being modelled *)
  wlog : amap (list byte);      (* bytes put into Data frames, per stream *)
  rlog : amap (list byte);      (* bytes handed to callers of Read, per stream *)
  eofs : amap unit }.           (* streams on which a Read returned io.EOF *)

Definition new_endpoint (s : side) (c : config) : endpoint :=
  {| cfg := c; streams := []; nextOut := first_id s; largestIn := 0; backlog := [];
     incs := []; wcs := []; cls := []; mclosed := false;
     wlog := []; rlog := []; eofs := [] |}.

Definition set_streams v e := {| cfg := cfg e; streams := v; nextOut := nextOut e; largestIn := largestIn e; backlog := backlog e; incs := incs e; wcs := wcs e; cls := cls e; mclosed := mclosed e; wlog := wlog e; rlog := rlog e; eofs := eofs e |}.
Definition set_nextOut v e := {| cfg := cfg e; streams := streams e; nextOut := v; largestIn := largestIn e; backlog := backlog e; incs := incs e; wcs := wcs e; cls := cls e; mclosed := mclosed e; wlog := wlog e; rlog := rlog e; eofs := eofs e |}.
Definition set_largestIn v e := {| cfg := cfg e; streams := streams e; nextOut := nextOut e; largestIn := v; backlog := backlog e; incs := incs e; wcs := wcs e; cls := cls e; mclosed := mclosed e; wlog := wlog e; rlog := rlog e; eofs := eofs e |}.
Definition set_backlog v e := {| cfg := cfg e; streams := streams e; nextOut := nextOut e; largestIn := largestIn e; backlog := v; incs := incs e; wcs := wcs e; cls := cls e; mclosed := mclosed e; wlog := wlog e; rlog := rlog e; eofs := eofs e |}.
Definition set_incs v e := {| cfg := cfg e; streams := streams e; nextOut := nextOut e; largestIn := largestIn e; backlog := backlog e; incs := v; wcs := wcs e; cls := cls e; mclosed := mclosed e; wlog := wlog e; rlog := rlog e; eofs := eofs e |}.
Definition set_wcs v e := {| cfg := cfg e; streams := streams e; nextOut := nextOut e; largestIn := largestIn e; backlog := backlog e; incs := incs e; wcs := v; cls := cls e; mclosed := mclosed e; wlog := wlog e; rlog := rlog e; eofs := eofs e |}.
Definition set_cls v e := {| cfg := cfg e; streams := streams e; nextOut := nextOut e; largestIn := largestIn e; backlog := backlog e; incs := incs e; wcs := wcs e; cls := v; mclosed := mclosed e; wlog := wlog e; rlog := rlog e; eofs := eofs e |}.
Definition set_mclosed v e := {| cfg := cfg e; streams := streams e; nextOut := nextOut e; largestIn := largestIn e; backlog := backlog e; incs := incs e; wcs := wcs e; cls := cls e; mclosed := v; wlog := wlog e; rlog := rlog e; eofs := eofs e |}.
Definition set_wlog v e := {| cfg := cfg e; streams := streams e; nextOut := nextOut e; largestIn := largestIn e; backlog := backlog e; incs := incs e; wcs := wcs e; cls := cls e; mclosed := mclosed e; wlog := v; rlog := rlog e; eofs := eofs e |}.
Definition set_rlog v e := {| cfg := cfg e; streams := streams e; nextOut := nextOut e; largestIn := largestIn e; backlog := backlog e; incs := incs e; wcs := wcs e; cls := cls e; mclosed := mclosed e; wlog := wlog e; rlog := v; eofs := eofs e |}.
Definition set_eofs v e := {| cfg := cfg e; streams := streams e; nextOut := nextOut e; largestIn := largestIn e; backlog := backlog e; incs := incs e; wcs := wcs e; cls := cls e; mclosed := mclosed e; wlog := wlog e; rlog := rlog e; eofs := v |}.

Definition put_stream (i : N) (x : stream) (e : endpoint) : endpoint :=
  set_streams (set i x (streams e)) e.

(* ------------------------------------------------------------ global state *)
(* hist: ghost, every frame handed to writeBufferPending so far, in the global
   order of those events, with its sender *)
Record state := { epA : endpoint; epB : endpoint; wAB : list msg; wBA : list msg;
                  hist : list (side * msg) }.

Definition ep (st : state) (s : side) : endpoint :=
  match s with SA => epA st | SB => epB st end.
Definition set_ep (st : state) (s : side) (e : endpoint) : state :=
  match s with
  | SA => {| epA := e; epB := epB st; wAB := wAB st; wBA := wBA st; hist := hist st |}
  | SB => {| epA := epA st; epB := e; wAB := wAB st; wBA := wBA st; hist := hist st |}
  end.
(* the wire whose receiver is s *)
Definition wire_to (st : state) (s : side) : list msg :=
  match s with SA => wBA st | SB => wAB st end.
Definition set_wire_to (st : state) (s : side) (w : list msg) : state :=
  match s with
  | SA => {| epA := epA st; epB := epB st; wAB := wAB st; wBA := w; hist := hist st |}
  | SB => {| epA := epA st; epB := epB st; wAB := w; wBA := wBA st; hist := hist st |}
  end.
(* side s hands a frame to writeBufferPending *)
Definition log_hist (st : state) (s : side) (m : msg) : state :=
  {| epA := epA st; epB := epB st; wAB := wAB st; wBA := wBA st; hist := hist st ++ [(s, m)] |}.
Definition send (st : state) (s : side) (m : msg) : state :=
  log_hist (set_wire_to st (other s) (wire_to st (other s) ++ [m])) s m.

Definition init (ca cb : config) : state :=
  {| epA := new_endpoint SA ca; epB := new_endpoint SB cb; wAB := []; wBA := []; hist := [] |}.

(* ------------------------------------------------- repairs, errors, actions *)
(* fix_zero_incr: Stream.Read posts a window increment only when count > 0
   (unchanged code: posts windowIncrement{id, count} also for count = 0).
   fix_open_order: OpenStream allocates the identifier and hands the open
   message to writeBufferPending in one critical section (unchanged code:
   allocates under streamLock, unlocks, then waits for a write buffer). *)
Record fixes := { fix_zero_incr : bool; fix_open_order : bool }.
Definition unfixed : fixes := {| fix_zero_incr := false; fix_open_order := false |}.
Definition all_fixed : fixes := {| fix_zero_incr := true; fix_open_order := true |}.

(* the error returns of Multiplexer.read that are protocol violations, in
   source order *)
Inductive perr :=
| EZeroId                 (* zero-value stream identifier received *)
| EOpenOutbound           (* outbound stream identifier used by remote to open stream *)
| EOpenNotMonotone        (* remote stream identifiers not monotonically increasing *)
| EAcceptInbound          (* inbound stream identifier used by remote to accept stream *)
| EUnopenedInbound        (* message received for unopened inbound stream identifier *)
| EUnusedOutbound         (* message received for unused outbound stream identifier *)
| EAcceptTwice            (* remote accepted the same stream twice *)
| EAcceptAfterClose       (* remote accepted stream after closing it *)
| EZeroData               (* zero-length data received *)
| EDataPartial            (* data received for partially established stream *)
| EDataWriteClosed        (* data received for write-closed stream *)
| EDataClosed             (* data received for closed stream *)
| EWindowViolated         (* remote violated stream receive window *)
| EZeroIncr               (* zero-valued window increment received *)
| EIncrPartial            (* window increment received for partially established outbound stream *)
| EIncrClosed             (* window increment received for closed stream *)
| EIncrOverflow           (* window increment overflows maximum value *)
| ECWPartial              (* close write received for partially established outbound stream *)
| ECWClosed               (* close write received for closed stream *)
| ECWTwice                (* close write received for the same stream twice *)
| ECloseTwice.            (* close received the same stream twice *)

Inductive action :=
(* Multiplexer.OpenStream *)
| AOpenAlloc (s : side)            (* lock; allocate id; register (and, repaired, send) *)
| AOpenSend (s : side) (i : N)     (* <-writeBufferAvailable; encodeOpenMessage; pending *)
| AOpenReturn (s : side) (i : N)   (* <-stream.established: return stream *)
| AOpenAbort (s : side) (i : N)    (* ctx.Done / m.closed / remoteClosed: deferred stream.close(sent) *)
(* Multiplexer.acceptOneStream *)
| AAcceptPop (s : side)            (* <-pendingInboundStreamIdentifiers *)
| AAcceptSend (s : side) (i : N)   (* buffer; close(established); encodeAcceptMessage; pending; return *)
| AAcceptAbort (s : side) (i : N)  (* remoteClosed / ctx.Done / m.closed: deferred stream.Close() *)
(* Stream.Write *)
| AWrite (s : side) (i : N) (bs : list byte)  (* <-s.writeDeadline *)
| AWChunk (s : side) (i : N)       (* one iteration of the outer for loop *)
| AWEnd (s : side) (i : N)         (* return (complete, or an error case of a select) *)
(* Stream.Read *)
| ARead (s : side) (i : N) (k : N) (* <-s.readDeadline, len(buffer) = k *)
| ARConsume (s : side) (i : N)     (* <-receiveBufferReady; lock; receiveBuffer.Read(buffer) *)
| ARPost (s : side) (i : N)        (* enqueueWindowIncrement <- {id, count}; return *)
| ARPostSkip (s : side) (i : N)    (* <-multiplexer.closed instead *)
| AREof (s : side) (i : N)         (* remoteClosedWrite/remoteClosed and buffer empty: io.EOF *)
| AREnd (s : side) (i : N)         (* any other return of the wait loop *)
(* Stream.CloseWrite *)
| ACloseWrite (s : side) (i : N)   (* closeWriteOnce: close(closedWrite); <-writeDeadline *)
| ACWPost (s : side) (i : N)       (* enqueueCloseWrite <- id *)
| ACWPostSkip (s : side) (i : N)
(* Stream.Close / stream.close *)
| AClose (s : side) (i : N)        (* Close() called by the owner of the stream *)
| ACTakeW (s : side) (i : N)       (* closeWrite(false): close(closedWrite); <-writeDeadline *)
| ACTakeR (s : side) (i : N)       (* closeOnce: close(closed); <-readDeadline *)
| ACPost (s : side) (i : N)        (* enqueueClose <- id (if sendCloseMessage) *)
| ACPostSkip (s : side) (i : N)
| ACDereg (s : side) (i : N)       (* delete(streams, id) *)
(* Multiplexer.enqueue: one pending update encoded into a write buffer *)
| AFlushInc (s : side) (i : N)
| AFlushCW (s : side) (i : N)
| AFlushClose (s : side) (i : N)
(* Multiplexer.read: one iteration of the reader loop of side s *)
| ADeliver (s : side)
(* Multiplexer.write heartbeat; Multiplexer.Close; carrier failure seen by the peer *)
| AHeartbeat (s : side)
| AMuxClose (s : side)
| ACarrierDown (s : side).

Inductive result :=
| Running (st : state)
| ProtocolError (s : side) (e : perr).   (* side s's reader returned e: closeWithError *)

(* ------------------------------------------------------------ small helpers *)
Definition upd (st : state) (s : side) (i : N) (x : stream) : state :=
  set_ep st s (put_stream i x (ep st s)).

Definition ok (st : state) : option result := Some (Running st).

(* next outbound id after i (OpenStream) *)
Definition bump (n : N) : N := if N.ltb (maxU64 - n) 2 then 0 else n + 2.

(* enqueue(): case stream := <-m.enqueueClose *)
Definition post_close (i : N) (e : endpoint) : endpoint :=
  set_cls (set i tt (cls e)) (set_wcs (del i (wcs e)) (set_incs (del i (incs e)) e)).
(* enqueue(): case increment := <-m.enqueueWindowIncrement *)
Definition post_incr (i c : N) (e : endpoint) : endpoint :=
  set_incs (set i (getN i (incs e) + c) (incs e)) e.
Definition post_cw (i : N) (e : endpoint) : endpoint :=
  set_wcs (set i tt (wcs e)) e.

Definition app_log (i : N) (d : list byte) (m : amap (list byte)) : amap (list byte) :=
  set i (getL i m ++ d) m.

Definition Nmin3 (a b c : N) : N := N.min a (N.min b c).
Definition takeN (A : Type) (n : N) (l : list A) : list A := firstn (N.to_nat n) l.
Definition dropN (A : Type) (n : N) (l : list A) : list A := skipn (N.to_nat n) l.
Arguments takeN {A} n l.
Arguments dropN {A} n l.

(* ---------------------------------------------- the reader loop, one frame *)
(* Multiplexer.read transcribed check for check.  [e] is the receiving
   endpoint, [s] its side.  Result: the new endpoint, or a protocol error. *)
Inductive dres := DOk (e : endpoint) | DErr (p : perr).

Definition out_of_range_outbound (e : endpoint) (s : side) (i : N) : bool :=
  mine s i && negb (N.eqb (nextOut e) 0) && N.leb (nextOut e) i.
Definition out_of_range_inbound (e : endpoint) (s : side) (i : N) : bool :=
  negb (mine s i) && N.ltb (largestIn e) i.

Definition deliver (s : side) (e : endpoint) (m : msg) : dres :=
  match m with
  | MHeartbeat => DOk e
  | MOpen i w =>
    if N.eqb i 0 then DErr EZeroId else
    if mine s i then DErr EOpenOutbound else
    if N.leb i (largestIn e) then DErr EOpenNotMonotone else
    let e := set_largestIn i e in
    if Nat.eqb (length (backlog e)) (cBacklog (cfg e)) then
      DOk (post_close i e)                       (* reject *)
    else
      DOk (set_backlog (backlog e ++ [i])
             (put_stream i (new_stream PBacklog w) e))
  | MAccept i w =>
    if N.eqb i 0 then DErr EZeroId else
    if negb (mine s i) then DErr EAcceptInbound else
    if out_of_range_outbound e s i then DErr EUnusedOutbound else
    match get i (streams e) with
    | None => DOk e
    | Some x =>
      if est x then DErr EAcceptTwice else
      if rc x then DErr EAcceptAfterClose else
      DOk (put_stream i (set_est true (set_sw w x)) e)
    end
  | MData i d =>
    if N.eqb i 0 then DErr EZeroId else
    if out_of_range_inbound e s i then DErr EUnopenedInbound else
    if out_of_range_outbound e s i then DErr EUnusedOutbound else
    if N.eqb (len d) 0 then DErr EZeroData else
    match get i (streams e) with
    | None => DOk e                                (* Discard *)
    | Some x =>
      if negb (est x) then DErr EDataPartial else
      if rcw x then DErr EDataWriteClosed else
      if rc x then DErr EDataClosed else
      if N.ltb (cW (cfg e)) (len (rbuf x) + len d) then DErr EWindowViolated else
      DOk (put_stream i (set_rbuf (rbuf x ++ d) x) e)
    end
  | MIncr i n =>
    if N.eqb i 0 then DErr EZeroId else
    if out_of_range_inbound e s i then DErr EUnopenedInbound else
    if out_of_range_outbound e s i then DErr EUnusedOutbound else
    if N.eqb n 0 then DErr EZeroIncr else
    match get i (streams e) with
    | None => DOk e
    | Some x =>
      if mine s i && negb (est x) then DErr EIncrPartial else
      if rc x then DErr EIncrClosed else
      if N.eqb (sw x) 0 then DOk (put_stream i (set_sw n x) e) else
      if N.ltb (maxU64 - sw x) n then DErr EIncrOverflow else
      DOk (put_stream i (set_sw (sw x + n) x) e)
    end
  | MCloseWrite i =>
    if N.eqb i 0 then DErr EZeroId else
    if out_of_range_inbound e s i then DErr EUnopenedInbound else
    if out_of_range_outbound e s i then DErr EUnusedOutbound else
    match get i (streams e) with
    | None => DOk e
    | Some x =>
      if mine s i && negb (est x) then DErr ECWPartial else
      if rc x then DErr ECWClosed else
      if rcw x then DErr ECWTwice else
      DOk (put_stream i (set_rcw true x) e)
    end
  | MClose i =>
    if N.eqb i 0 then DErr EZeroId else
    if out_of_range_inbound e s i then DErr EUnopenedInbound else
    if out_of_range_outbound e s i then DErr EUnusedOutbound else
    match get i (streams e) with
    | None => DOk e
    | Some x =>
      if rc x then DErr ECloseTwice else
      DOk (put_stream i (set_rc true x) e)
    end
  end.

(* ------------------------------------------------------------------- step *)
Section Step.
Variable fx : fixes.

Definition with_stream (st : state) (s : side) (i : N)
           (f : stream -> option result) : option result :=
  match get i (streams (ep st s)) with
  | None => None
  | Some x => f x
  end.

Definition is_user (x : stream) : bool := match ph x with PUser => true | _ => false end.

Definition step (st : state) (a : action) : option result :=
  match a with
  | AOpenAlloc s =>
    let e := ep st s in
    let i := nextOut e in
    if N.eqb i 0 then None else                (* local stream identifiers exhausted *)
    let sent := fix_open_order fx in
    let e' := set_nextOut (bump i) (put_stream i (new_stream (POpening sent) 0) e) in
    let st' := set_ep st s e' in
    ok (if sent then send st' s (MOpen i (cW (cfg e))) else st')
  | AOpenSend s i =>
    with_stream st s i (fun x =>
      match ph x with
      | POpening false =>
        ok (send (upd st s i (set_ph (POpening true) x)) s (MOpen i (cW (cfg (ep st s)))))
      | _ => None
      end)
  | AOpenReturn s i =>
    with_stream st s i (fun x =>
      match ph x with
      | POpening true => if est x then ok (upd st s i (set_ph PUser x)) else None
      | _ => None
      end)
  | AOpenAbort s i =>
    with_stream st s i (fun x =>
      match ph x with
      | POpening sent => ok (upd st s i (set_cl (CReq sent) (set_ph PDead x)))
      | _ => None
      end)
  | AAcceptPop s =>
    let e := ep st s in
    match backlog e with
    | [] => None
    | i :: rest =>
      match get i (streams e) with
      | None => None
      | Some x => ok (set_ep st s (put_stream i (set_ph PAccepting x) (set_backlog rest e)))
      end
    end
  | AAcceptSend s i =>
    with_stream st s i (fun x =>
      match ph x with
      | PAccepting =>
        ok (send (upd st s i (set_ph PUser (set_est true x))) s (MAccept i (cW (cfg (ep st s)))))
      | _ => None
      end)
  | AAcceptAbort s i =>
    with_stream st s i (fun x =>
      match ph x with
      | PAccepting => ok (upd st s i (set_cl (CReq true) (set_ph PDead x)))
      | _ => None
      end)
  | AWrite s i bs =>
    with_stream st s i (fun x =>
      if is_user x then
        match wst x with
        | WFree => ok (upd st s i (set_wst (WHeld bs) x))
        | _ => None
        end
      else None)
  | AWChunk s i =>
    with_stream st s i (fun x =>
      match wst x with
      | WHeld (b :: r) =>
        let data := b :: r in
        if N.eqb (sw x) 0 then None else
        let n := Nmin3 (sw x) (len data) maxBlock in
        let x' := set_wst (WHeld (dropN n data)) (set_sw (sw x - n) x) in
        let e := ep st s in
        let e' := set_wlog (app_log i (takeN n data) (wlog e)) (put_stream i x' e) in
        ok (send (set_ep st s e') s (MData i (takeN n data)))
      | _ => None
      end)
  | AWEnd s i =>
    with_stream st s i (fun x =>
      match wst x with
      | WHeld _ => ok (upd st s i (set_wst WFree x))
      | _ => None
      end)
  | ARead s i k =>
    with_stream st s i (fun x =>
      if is_user x then
        match rst x with
        | RFree => ok (upd st s i (set_rst (RHeld k) x))
        | _ => None
        end
      else None)
  | ARConsume s i =>
    with_stream st s i (fun x =>
      match rst x, rbuf x with
      | RHeld k, _ :: _ =>
        let c := N.min k (len (rbuf x)) in
        let x' := set_rst (RPost c) (set_rbuf (dropN c (rbuf x)) x) in
        let e := ep st s in
        ok (set_ep st s (set_rlog (app_log i (takeN c (rbuf x)) (rlog e)) (put_stream i x' e)))
      | _, _ => None
      end)
  | ARPost s i =>
    with_stream st s i (fun x =>
      match rst x with
      | RPost c =>
        let e := put_stream i (set_rst RFree x) (ep st s) in
        if fix_zero_incr fx && N.eqb c 0 then ok (set_ep st s e)
        else ok (set_ep st s (post_incr i c e))
      | _ => None
      end)
  | ARPostSkip s i =>
    with_stream st s i (fun x =>
      match rst x with
      | RPost c => if mclosed (ep st s) then ok (upd st s i (set_rst RFree x)) else None
      | _ => None
      end)
  | AREof s i =>
    with_stream st s i (fun x =>
      match rst x, rbuf x with
      | RHeld _, [] =>
        if rcw x || rc x then
          let e := ep st s in
          ok (set_ep st s (set_eofs (set i tt (eofs e)) (put_stream i (set_rst RFree x) e)))
        else None
      | _, _ => None
      end)
  | AREnd s i =>
    with_stream st s i (fun x =>
      match rst x with
      | RHeld _ => ok (upd st s i (set_rst RFree x))
      | _ => None
      end)
  | ACloseWrite s i =>
    with_stream st s i (fun x =>
      if is_user x then
        match wst x with
        | WFree => ok (upd st s i (set_wst WPosting x))
        | _ => None
        end
      else None)
  | ACWPost s i =>
    with_stream st s i (fun x =>
      match wst x with
      | WPosting => ok (set_ep st s (post_cw i (put_stream i (set_wst WGone x) (ep st s))))
      | _ => None
      end)
  | ACWPostSkip s i =>
    with_stream st s i (fun x =>
      match wst x with
      | WPosting => if mclosed (ep st s) then ok (upd st s i (set_wst WGone x)) else None
      | _ => None
      end)
  | AClose s i =>
    with_stream st s i (fun x =>
      if is_user x then
        match cl x with
        | CNo => ok (upd st s i (set_cl (CReq true) x))
        | _ => None
        end
      else None)
  | ACTakeW s i =>
    with_stream st s i (fun x =>
      match cl x, wst x with
      | CReq _, WFree => ok (upd st s i (set_wst WGone x))
      | _, _ => None
      end)
  | ACTakeR s i =>
    with_stream st s i (fun x =>
      match cl x, wst x, rst x with
      | CReq _, WGone, RFree => ok (upd st s i (set_rst RGone x))
      | _, _, _ => None
      end)
  | ACPost s i =>
    with_stream st s i (fun x =>
      match cl x, rst x with
      | CReq send, RGone =>
        let e := put_stream i (set_cl CPosted x) (ep st s) in
        ok (set_ep st s (if send then post_close i e else e))
      | _, _ => None
      end)
  | ACPostSkip s i =>
    with_stream st s i (fun x =>
      match cl x, rst x with
      | CReq _, RGone => if mclosed (ep st s) then ok (upd st s i (set_cl CPosted x)) else None
      | _, _ => None
      end)
  | ACDereg s i =>
    with_stream st s i (fun x =>
      match cl x with
      | CPosted => ok (set_ep st s (set_streams (del i (streams (ep st s))) (ep st s)))
      | _ => None
      end)
  | AFlushInc s i =>
    let e := ep st s in
    match get i (incs e) with
    | None => None
    | Some n => ok (send (set_ep st s (set_incs (del i (incs e)) e)) s (MIncr i n))
    end
  | AFlushCW s i =>
    let e := ep st s in
    match get i (wcs e) with
    | None => None
    | Some _ => ok (send (set_ep st s (set_wcs (del i (wcs e)) e)) s (MCloseWrite i))
    end
  | AFlushClose s i =>
    let e := ep st s in
    match get i (cls e) with
    | None => None
    | Some _ => ok (send (set_ep st s (set_cls (del i (cls e)) e)) s (MClose i))
    end
  | ADeliver s =>
    match wire_to st s with
    | [] => None
    | m :: rest =>
      match deliver s (ep st s) m with
      | DErr p => Some (ProtocolError s p)
      | DOk e' => ok (set_ep (set_wire_to st s rest) s e')
      end
    end
  | AHeartbeat s => ok (send st s MHeartbeat)
  | AMuxClose s => ok (set_ep st s (set_mclosed true (ep st s)))
  | ACarrierDown s =>
    if mclosed (ep st (other s)) then ok (set_ep st s (set_mclosed true (ep st s))) else None
  end.

(* a schedule is a list of actions; actions that are not enabled are skipped *)
Fixpoint run (sched : list action) (st : state) : result :=
  match sched with
  | [] => Running st
  | a :: rest =>
    match step st a with
    | None => run rest st
    | Some (Running st') => run rest st'
    | Some (ProtocolError s p) => ProtocolError s p
    end
  end.

End Step.
