(* Wire encodings of pkg/multiplexing/protocol.go (definitions only).
   messageBuffer.encode* for the sender, the decoding half of
   Multiplexer.read for the receiver: kind byte, uvarint identifiers and
   window values (encoding/binary PutUvarint / ReadUvarint, at most
   MaxVarintLen64 = 10 bytes, overflow rejected), big-endian uint16 data
   length. *)
From Coq Require Import List NArith Bool Arith.
From Coq Require Import Strings.Byte.
From Mv Require Import Model.Mux.
Import ListNotations.
Local Open Scope N_scope.

(* messageKind constants (iota block in protocol.go); the harness compares
   them with the values compiled into the package. *)
Definition kHeartbeat : N := 0.
Definition kOpen : N := 1.
Definition kAccept : N := 2.
Definition kData : N := 3.
Definition kIncr : N := 4.
Definition kCloseWrite : N := 5.
Definition kClose : N := 6.
Definition kind_table : list N := [kHeartbeat; kOpen; kAccept; kData; kIncr; kCloseWrite; kClose].

Definition nb (n : N) : byte := match Byte.of_N n with Some b => b | None => x00 end.
Definition bn (b : byte) : N := Byte.to_N b.

(* binary.PutUvarint *)
Fixpoint put_uvarint (fuel : nat) (x : N) : list byte :=
  if x <? 128 then [nb x] else
  match fuel with
  | O => [nb (x mod 256)]
  | S f => nb (x mod 128 + 128) :: put_uvarint f (x / 128)
  end.
Definition enc_uvarint (x : N) : list byte := put_uvarint 9 x.

(* binary.ReadUvarint: i = index of the byte being read, mult = 2^(7 i) *)
Fixpoint read_uvarint (fuel : nat) (i : nat) (x mult : N) (l : list byte)
  : option (N * list byte) :=
  match fuel with
  | O => None                                   (* errOverflow after 10 bytes *)
  | S f =>
    match l with
    | [] => None                                (* io.EOF / ErrUnexpectedEOF *)
    | b :: t =>
      let v := bn b in
      if v <? 128 then
        if (Nat.eqb i 9 && (1 <? v))%bool then None     (* errOverflow *)
        else Some (x + v * mult, t)
      else read_uvarint f (S i) (x + (v - 128) * mult) (mult * 128) t
    end
  end.
Definition dec_uvarint (l : list byte) : option (N * list byte) := read_uvarint 10 0 0 1 l.

(* binary.BigEndian.PutUint16 / Uint16 *)
Definition enc_u16 (x : N) : list byte := [nb (x / 256); nb (x mod 256)].
Definition dec_u16 (l : list byte) : option (N * list byte) :=
  match l with
  | a :: b :: t => Some (bn a * 256 + bn b, t)
  | _ => None
  end.

(* messageBuffer.encode*Message *)
Definition encode (m : msg) : list byte :=
  match m with
  | MHeartbeat => [nb kHeartbeat]
  | MOpen i w => nb kOpen :: enc_uvarint i ++ enc_uvarint w
  | MAccept i w => nb kAccept :: enc_uvarint i ++ enc_uvarint w
  | MData i d => nb kData :: enc_uvarint i ++ enc_u16 (len d) ++ d
  | MIncr i n => nb kIncr :: enc_uvarint i ++ enc_uvarint n
  | MCloseWrite i => nb kCloseWrite :: enc_uvarint i
  | MClose i => nb kClose :: enc_uvarint i
  end.

Definition split_at (n : N) (l : list byte) : option (list byte * list byte) :=
  if N.ltb (len l) n then None else Some (takeN n l, dropN n l).

(* the decoding steps of Multiplexer.read, in its order: kind, kind range,
   identifier, then the kind-specific payload.  None = read error or
   unknown kind (not a message of the protocol). *)
Definition decode (l : list byte) : option (msg * list byte) :=
  match l with
  | [] => None
  | k :: t =>
    let kind := bn k in
    if kClose <? kind then None else
    if kind =? kHeartbeat then Some (MHeartbeat, t) else
    match dec_uvarint t with
    | None => None
    | Some (i, t1) =>
      if (kind =? kOpen) || (kind =? kAccept) || (kind =? kIncr) then
        match dec_uvarint t1 with
        | None => None
        | Some (v, t2) =>
          Some (if kind =? kOpen then MOpen i v else if kind =? kAccept then MAccept i v else MIncr i v, t2)
        end
      else if kind =? kData then
        match dec_u16 t1 with
        | None => None
        | Some (n, t2) =>
          match split_at n t2 with
          | None => None
          | Some (d, t3) => Some (MData i d, t3)
          end
        end
      else if kind =? kCloseWrite then Some (MCloseWrite i, t1)
      else Some (MClose i, t1)
    end
  end.

(* a whole carrier byte stream *)
Fixpoint decode_all (fuel : nat) (l : list byte) : option (list msg) :=
  match l with
  | [] => Some []
  | _ :: _ =>
    match fuel with
    | O => None
    | S f =>
      match decode l with
      | None => None
      | Some (m, rest) =>
        match decode_all f rest with
        | None => None
        | Some ms => Some (m :: ms)
        end
      end
    end
  end.

Definition encode_all (ms : list msg) : list byte := concat (map encode ms).

(* a message the wire can carry: values fit uint64, data fits uint16 *)
Definition wire_ok (m : msg) : bool :=
  match m with
  | MHeartbeat => true
  | MOpen i w | MAccept i w | MIncr i w => (i <=? maxU64) && (w <=? maxU64)
  | MData i d => (i <=? maxU64) && (len d <=? maxBlock)
  | MCloseWrite i | MClose i => i <=? maxU64
  end.
