(* Trace side of the multiplexer model (definitions only).

   1. [frame]: a message with its payload summarised (data length only), and
      the SENDER DISCIPLINE MONITOR [mon_step]: the wire clauses of the
      invariant I_mux as a decision procedure over the global history of
      frames handed to the carrier (sender, frame) in the order of those
      events.  It is derived by hand from those clauses (it is NOT proved that
      every model history passes it; Props/C24.v checks it by vm_compute on
      model runs); the harness applies it to the histories recorded from the
      real multiplexers, where a rejection is reported as a correspondence
      failure (bit 1), never as a violation of the property by itself.
   2. The checkers check_C23 / check_C24 / check_C25 applied to what the Go
      harness observed on two real multiplexers. *)
From Coq Require Import List NArith Bool Arith.
From Coq Require Import Strings.Byte.
From Mv Require Import Model.Mux.
Import ListNotations.
Local Open Scope N_scope.

Inductive frame :=
| FOpen (i w : N) | FAccept (i w : N) | FData (i n : N) | FIncr (i n : N)
| FCW (i : N) | FClose (i : N) | FHb.

Definition frame_of (m : msg) : frame :=
  match m with
  | MOpen i w => FOpen i w | MAccept i w => FAccept i w
  | MData i d => FData i (len d) | MIncr i n => FIncr i n
  | MCloseWrite i => FCW i | MClose i => FClose i | MHeartbeat => FHb
  end.

(* what one side has sent so far about one stream identifier *)
Record sinfo := { s_open : bool; s_acc : bool; s_cw : bool; s_close : bool;
                  s_data : N; s_incr : N }.
Definition sinfo0 : sinfo :=
  {| s_open := false; s_acc := false; s_cw := false; s_close := false; s_data := 0; s_incr := 0 |}.

Record mon := { mA : amap sinfo; mB : amap sinfo; lgA : N; lgB : N }.
Definition mon0 : mon := {| mA := []; mB := []; lgA := 0; lgB := 0 |}.

Definition minfo (m : mon) (s : side) (i : N) : sinfo :=
  match get i (match s with SA => mA m | SB => mB m end) with Some x => x | None => sinfo0 end.
Definition mlg (m : mon) (s : side) : N := match s with SA => lgA m | SB => lgB m end.
Definition mput (m : mon) (s : side) (i : N) (x : sinfo) : mon :=
  match s with
  | SA => {| mA := set i x (mA m); mB := mB m; lgA := lgA m; lgB := lgB m |}
  | SB => {| mA := mA m; mB := set i x (mB m); lgA := lgA m; lgB := lgB m |}
  end.
Definition mset_lg (m : mon) (s : side) (v : N) : mon :=
  match s with
  | SA => {| mA := mA m; mB := mB m; lgA := v; lgB := lgB m |}
  | SB => {| mA := mA m; mB := mB m; lgA := lgA m; lgB := v |}
  end.

Definition id_ok (i : N) : bool := negb (i =? 0) && (i <=? maxU64).

(* side s may use stream i: it sent Open and the peer sent Accept, or the
   peer opened it and s sent Accept *)
Definition m_established (m : mon) (s : side) (i : N) : bool :=
  if mine s i then s_open (minfo m s i) && s_acc (minfo m (other s) i)
  else s_acc (minfo m s i).

(* windows: wS = the sender's own StreamReceiveWindow, wP = the peer's *)
Definition mon_step (fx : fixes) (wOf : side -> N) (m : mon) (s : side) (f : frame) : option mon :=
  let p := other s in
  match f with
  | FHb => Some m
  | FOpen i w =>
    let x := minfo m s i in
    if id_ok i && mine s i && negb (s_open x) && (w =? wOf s)
       && (negb (fix_open_order fx) || (mlg m s <? i))
    then Some (mset_lg (mput m s i {| s_open := true; s_acc := s_acc x; s_cw := s_cw x; s_close := s_close x; s_data := s_data x; s_incr := s_incr x |})
                       s (N.max (mlg m s) i))
    else None
  | FAccept i w =>
    let x := minfo m s i in
    if id_ok i && mine p i && s_open (minfo m p i) && negb (s_acc x) && negb (s_close x) && (w =? wOf s)
    then Some (mput m s i {| s_open := s_open x; s_acc := true; s_cw := s_cw x; s_close := s_close x; s_data := s_data x; s_incr := s_incr x |})
    else None
  | FData i n =>
    let x := minfo m s i in
    if id_ok i && (1 <=? n) && (n <=? maxBlock) && m_established m s i
       && negb (s_cw x) && negb (s_close x)
       && (s_data x + n <=? wOf p + s_incr (minfo m p i))
    then Some (mput m s i {| s_open := s_open x; s_acc := s_acc x; s_cw := s_cw x; s_close := s_close x; s_data := s_data x + n; s_incr := s_incr x |})
    else None
  | FIncr i n =>
    let x := minfo m s i in
    if id_ok i && (negb (fix_zero_incr fx) || (1 <=? n)) && m_established m s i
       && negb (s_close x) && (s_incr x + n <=? s_data (minfo m p i))
    then Some (mput m s i {| s_open := s_open x; s_acc := s_acc x; s_cw := s_cw x; s_close := s_close x; s_data := s_data x; s_incr := s_incr x + n |})
    else None
  | FCW i =>
    let x := minfo m s i in
    if id_ok i && m_established m s i && negb (s_cw x) && negb (s_close x)
    then Some (mput m s i {| s_open := s_open x; s_acc := s_acc x; s_cw := true; s_close := s_close x; s_data := s_data x; s_incr := s_incr x |})
    else None
  | FClose i =>
    let x := minfo m s i in
    if id_ok i && (if mine s i then s_open x else s_open (minfo m p i)) && negb (s_close x)
    then Some (mput m s i {| s_open := s_open x; s_acc := s_acc x; s_cw := s_cw x; s_close := true; s_data := s_data x; s_incr := s_incr x |})
    else None
  end.

(* index of the first frame the discipline forbids, if any *)
Fixpoint mon_run (fx : fixes) (wOf : side -> N) (m : mon) (k : nat) (h : list (side * frame))
  : option nat :=
  match h with
  | [] => None
  | (s, f) :: t =>
    match mon_step fx wOf m s f with
    | None => Some k
    | Some m' => mon_run fx wOf m' (S k) t
    end
  end.

Definition mon_ok fx wOf h : bool :=
  match mon_run fx wOf mon0 0 h with None => true | Some _ => false end.

(* --------------------------------------------------- observed error classes *)
Definition perr_code (p : perr) : N :=
  match p with
  | EZeroId => 1 | EOpenOutbound => 2 | EOpenNotMonotone => 3 | EAcceptInbound => 4
  | EUnopenedInbound => 5 | EUnusedOutbound => 6 | EAcceptTwice => 7 | EAcceptAfterClose => 8
  | EZeroData => 9 | EDataPartial => 10 | EDataWriteClosed => 11 | EDataClosed => 12
  | EWindowViolated => 13 | EZeroIncr => 14 | EIncrPartial => 15 | EIncrClosed => 16
  | EIncrOverflow => 17 | ECWPartial => 18 | ECWClosed => 19 | ECWTwice => 20 | ECloseTwice => 21
  end.

(* Multiplexer.InternalError(), classified: nil; "read error: <protocol
   violation k>"; anything else (carrier read/write error, heartbeat timeout) *)
Inductive ierr := INone | IProto (k : N) | IOther.

(* the violations a receiver detects whatever its local timing: what the
   frames on one wire (sender s) must make the receiver report first *)
Fixpoint wire_expect (s : side) (lg : N) (h : list (side * frame)) : option N :=
  match h with
  | [] => None
  | (s', f) :: t =>
    if negb (side_eqb s s') then wire_expect s lg t else
    match f with
    | FIncr _ 0 => Some (perr_code EZeroIncr)
    | FOpen i _ => if i <=? lg then Some (perr_code EOpenNotMonotone) else wire_expect s i t
    | _ => wire_expect s lg t
    end
  end.

(* ------------------------------------------------------- trace case, checks *)
(* one direction of one stream, as observed through the API *)
Record ssum := {
  ss_id : N; ss_writer : side;
  ss_wlen : N;           (* sum of the counts returned by Write on the writer side *)
  ss_rlen : N;           (* sum of the counts returned by Read on the other side *)
  ss_rck : N;            (* checksum of the bytes read *)
  ss_wck : N;            (* checksum of the first ss_rlen bytes written *)
  ss_small : option (list N * list N);   (* (written, read) literally when short *)
  ss_eof : bool;         (* a Read returned io.EOF *)
  ss_peer_closed : bool; (* the writer side had called CloseWrite/Close (or its
                            OpenStream/AcceptStream had failed) before that *)
  ss_drained : bool }.   (* the reader read until io.EOF and the writer's
                            CloseWrite/Close came after its last Write returned *)

Fixpoint is_prefix (r w : list N) : bool :=
  match r, w with
  | [], _ => true
  | a :: r', b :: w' => (a =? b) && is_prefix r' w'
  | _ :: _, [] => false
  end.
Fixpoint list_eqN (a b : list N) : bool :=
  match a, b with
  | [], [] => true
  | x :: a', y :: b' => (x =? y) && list_eqN a' b'
  | _, _ => false
  end.

(* C23 on one stream direction: what was read is a prefix of what was
   written; io.EOF only after the peer closed and everything written was
   read; after a clean close nothing was lost. *)
Definition check_stream (x : ssum) : bool :=
  (ss_rlen x <=? ss_wlen x) && (ss_rck x =? ss_wck x)
  && match ss_small x with
     | None => true
     | Some (w, r) => is_prefix r w && (len r =? ss_rlen x) && (len w =? ss_wlen x)
                      && (negb (ss_drained x) || list_eqN r w)
     end
  && (negb (ss_eof x) || (ss_peer_closed x && (ss_rlen x =? ss_wlen x)))
  && (negb (ss_drained x) || (ss_rlen x =? ss_wlen x)).

Record tcase := {
  t_fx : fixes;                       (* which repairs the tree under test has *)
  t_wA : N; t_wB : N;                 (* StreamReceiveWindow of each side *)
  t_explicit : bool;                  (* the workload called Multiplexer.Close itself *)
  t_frames : list (side * frame);     (* global history *)
  t_errA : ierr; t_errB : ierr;       (* InternalError() before the final Close *)
  t_streams : list ssum;
  t_calls : list (N * N);             (* per API call: elapsed ms, limit ms *)
  t_backlog : option (N * N * N * N)  (* opens, backlog, rejected, still pending *)
}.

Definition is_proto (e : ierr) : bool := match e with IProto _ => true | _ => false end.
Definition is_none (e : ierr) : bool := match e with INone => true | _ => false end.

(* C24: no side reports a protocol violation, and without an explicit close
   both are still up *)
Definition check_C24 (c : tcase) : bool :=
  negb (is_proto (t_errA c)) && negb (is_proto (t_errB c))
  && (t_explicit c || (is_none (t_errA c) && is_none (t_errB c))).

Definition check_C23 (c : tcase) : bool := forallb check_stream (t_streams c).

(* C25 (watchdog form): every call returned within its limit; the shared
   reader never met ErrBufferFull; opens beyond the backlog were rejected,
   not left pending *)
Definition check_C25 (c : tcase) : bool :=
  forallb (fun p => fst p <=? snd p) (t_calls c)
  && negb (match t_errA c with IProto 13 => true | _ => false end)
  && negb (match t_errB c with IProto 13 => true | _ => false end)
  && match t_backlog c with
     | None => true
     | Some (opens, cap, rejected, pending) =>
       (pending <=? cap) && (opens <=? rejected + pending)
     end.

(* correspondence: the recorded history is one the model can produce, and
   each side's verdict on the frames it was sent is the model's *)
Definition wOf (c : tcase) (s : side) : N := match s with SA => t_wA c | SB => t_wB c end.

Definition verdict_agrees (c : tcase) (receiver : side) : bool :=
  let e := match receiver with SA => t_errA c | SB => t_errB c end in
  let peer := match receiver with SA => t_errB c | SB => t_errA c end in
  match wire_expect (other receiver) 0 (t_frames c), e with
  | Some k, IProto k' => k =? k'
  | None, IProto _ => false          (* rejected something the model accepts *)
  | Some _, _ => t_explicit c || is_proto peer   (* torn down before it got there *)
  | None, _ => true
  end.

Definition trace_agrees (c : tcase) : bool :=
  mon_ok (t_fx c) (wOf c) (t_frames c) && verdict_agrees c SA && verdict_agrees c SB.
