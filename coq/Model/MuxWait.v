(* The blocking points of the multiplexer API and what each one waits for
   (definitions only): the [select] statements of stream.go and
   multiplexer.go transcribed case for case.  C25 asks that every blocked
   Read/Write/OpenStream/AcceptStream be woken by deadline expiry, local
   close, multiplexer close and remote close; [required] says which of these
   apply to which blocking point and Props/C25.v checks [required p] against
   the transcribed [waits p]. *)
From Coq Require Import List Bool.
Import ListNotations.

Inductive wake :=
| KToken            (* the read/write deadline timer is back in its channel *)
| KData             (* receiveBufferReady *)
| KWindow           (* sendWindowReady *)
| KBuffer           (* writeBufferAvailable *)
| KEnqueue          (* the enqueue goroutine takes the update *)
| KEstablished      (* stream.established *)
| KBacklogItem      (* pendingInboundStreamIdentifiers *)
| KDeadline         (* the deadline timer fires (ctx.Done for open/accept) *)
| KDeadlineSet      (* a SetDeadline call hands over a new deadline *)
| KLocalClose       (* s.closed *)
| KLocalCloseWrite  (* s.closedWrite *)
| KMuxClose         (* multiplexer.closed *)
| KRemoteCloseWrite (* s.remoteClosedWrite *)
| KRemoteClose.     (* s.remoteClosed *)

Inductive point :=
| PReadToken        (* Stream.Read: select { <-s.readDeadline; <-s.closed; <-mux.closed } *)
| PReadWait         (* Stream.Read: the wait loop *)
| PReadPost         (* Stream.Read: select { enqueueWindowIncrement <-; <-mux.closed } *)
| PWriteToken       (* Stream.Write: acquiring s.writeDeadline *)
| PWriteWait        (* Stream.Write: the inner polling loop *)
| POpenBuffer       (* OpenStream: waiting for a write buffer *)
| POpenWait         (* OpenStream: waiting for acceptance or rejection *)
| PAcceptPop        (* acceptOneStream: waiting for a pending identifier *)
| PAcceptBuffer     (* acceptOneStream: waiting for a write buffer *)
| PCloseWritePost   (* closeWrite: select { enqueueCloseWrite <-; <-mux.closed } *)
| PClosePost.       (* close: select { enqueueClose <-; <-mux.closed } *)

Definition waits (p : point) : list wake :=
  match p with
  | PReadToken => [KToken; KLocalClose; KMuxClose]
  | PReadWait => [KData; KRemoteCloseWrite; KRemoteClose; KLocalClose; KMuxClose; KDeadline; KDeadlineSet]
  | PReadPost => [KEnqueue; KMuxClose]
  | PWriteToken => [KToken; KLocalClose; KLocalCloseWrite; KMuxClose; KRemoteClose]
  | PWriteWait => [KWindow; KBuffer; KLocalClose; KLocalCloseWrite; KMuxClose; KRemoteClose;
                   KDeadline; KDeadlineSet]
  | POpenBuffer => [KBuffer; KDeadline; KMuxClose]
  | POpenWait => [KEstablished; KRemoteClose; KDeadline; KMuxClose]
  | PAcceptPop => [KBacklogItem; KDeadline; KMuxClose]
  | PAcceptBuffer => [KBuffer; KRemoteClose; KDeadline; KMuxClose]
  | PCloseWritePost => [KEnqueue; KMuxClose]
  | PClosePost => [KEnqueue; KMuxClose]
  end.

(* What C25 demands.  The main wait of Read and Write must see all four
   events.  A call waiting for the timer token is woken by local close and
   multiplexer close directly (the timer is taken out of circulation by
   close) and by the deadline and the remote close through the holder, whose
   own wait sees them and then returns the token.  OpenStream has no stream
   handle yet, so "local close" does not exist for it; its deadline is the
   context; AcceptStream likewise, and a remote close of the pending stream
   makes it skip that stream. *)
Definition required (p : point) : list wake :=
  match p with
  | PReadWait => [KDeadline; KLocalClose; KMuxClose; KRemoteClose; KRemoteCloseWrite]
  | PWriteWait => [KDeadline; KLocalClose; KLocalCloseWrite; KMuxClose; KRemoteClose]
  | PReadToken => [KToken; KLocalClose; KMuxClose]
  | PWriteToken => [KToken; KLocalClose; KLocalCloseWrite; KMuxClose; KRemoteClose]
  | POpenBuffer => [KDeadline; KMuxClose]
  | POpenWait => [KDeadline; KMuxClose; KRemoteClose]
  | PAcceptPop => [KDeadline; KMuxClose]
  | PAcceptBuffer => [KDeadline; KMuxClose; KRemoteClose]
  | PReadPost | PCloseWritePost | PClosePost => [KMuxClose]
  end.

Definition wake_eqb (a b : wake) : bool :=
  match a, b with
  | KToken, KToken | KData, KData | KWindow, KWindow | KBuffer, KBuffer | KEnqueue, KEnqueue
  | KEstablished, KEstablished | KBacklogItem, KBacklogItem | KDeadline, KDeadline
  | KDeadlineSet, KDeadlineSet | KLocalClose, KLocalClose | KLocalCloseWrite, KLocalCloseWrite
  | KMuxClose, KMuxClose | KRemoteCloseWrite, KRemoteCloseWrite | KRemoteClose, KRemoteClose => true
  | _, _ => false
  end.

Definition all_points : list point :=
  [PReadToken; PReadWait; PReadPost; PWriteToken; PWriteWait; POpenBuffer; POpenWait;
   PAcceptPop; PAcceptBuffer; PCloseWritePost; PClosePost].

Definition covers (p : point) : bool :=
  forallb (fun k => existsb (wake_eqb k) (waits p)) (required p).
