(* C05: the outcome set of transitions, the controller's recipe for updating
   the ancestor (pkg/synchronization/controller.go, synchronize), and the
   checker (definitions only, no proofs). *)
From Coq Require Import List Bool Arith String.
Import ListNotations.
From Mv Require Import Model.Entry Model.Reconcile.

(* ---------- prefix-closed sub-trees ---------- *)
(* [subtree_e v x]: every entry of v is present in x at the same path with the
   same shallow content, i.e. v arises from x by deleting sub-trees only.
   (An entry is present only together with all its ancestors, so such a v is
   exactly a prefix-closed subset of the entries of x.) *)
Fixpoint subtree_e (v x : entry) : bool :=
  let fix go (l : list (name * entry)) : bool :=
    match l with
    | [] => true
    | (n, e) :: t =>
      match lookup n (contents (Some x)) with
      | Some f => subtree_e e f
      | None => false
      end && go t
    end in
  shallow_eqb v x &&
  match v with
  | EDir c => go c
  | EPhantom c => go c
  | _ => true
  end.

Definition subtree (v x : oentry) : bool :=
  match v, x with
  | None, _ => true
  | Some e, Some f => subtree_e e f
  | Some _, None => false
  end.

(* What an endpoint may report for a transition t: the new content (complete
   success), the old content (failure, cancellation), nothing, or any
   prefix-closed sub-tree of the old content (partial removal) or of the new
   content (partial creation).  new, old and nothing are themselves such
   sub-trees.  Reports are validated on receipt (EnsureValid), hence [wf]. *)
Definition outcome_ok (t : change) (v : oentry) : bool :=
  wf false v && (subtree v (cold t) || subtree v (cnew t)).

(* one result change per transition, at the transition's path *)
Fixpoint results_ok (ts rs : list change) : bool :=
  match ts, rs with
  | [], [] => true
  | t :: ts', r :: rs' =>
    path_eqb (cpath r) (cpath t) && outcome_ok t (cnew r) && results_ok ts' rs'
  | _, _ => false
  end.

(* a side whose Transition call fails as a whole contributes no changes *)
Definition side_ok (ts rs : list change) : bool :=
  match rs with [] => true | _ => results_ok ts rs end.

(* ---------- the controller's recipe ---------- *)
(* ancestorChanges ++ alpha results ++ beta results, applied by core.Apply,
   then EnsureValid(true) *)
Definition update (anc : oentry) (pl : plan) (ra rb : list change) : apply_full :=
  apply anc (anc_changes pl ++ ra ++ rb).

Definition transitions (pl : plan) : list change := alpha_ch pl ++ beta_ch pl.

(* inputs of reconciliation after phantom reification
   (controller.go: core.ReifyPhantomDirectories runs before core.Reconcile
   whenever phantom directories can occur): no phantom directories *)
Fixpoint phantom_free_e (e : entry) : bool :=
  let fix go (l : list (name * entry)) : bool :=
    match l with
    | [] => true
    | (_, x) :: t => phantom_free_e x && go t
    end in
  match e with
  | EDir c => go c
  | EPhantom _ => false
  | _ => true
  end.

Definition phantom_free (e : oentry) : bool :=
  match e with None => true | Some x => phantom_free_e x end.

Definition side_wf (e : oentry) : bool := wf false e && phantom_free e.

Definition inputs_ok (anc alpha beta : oentry) : bool :=
  wf true anc && side_wf alpha && side_wf beta.

(* ---------- structural conditions on a plan ---------- *)
(* the parent of p resolves to a directory in t and the last name is valid *)
Fixpoint parent_ok (t : oentry) (p : path) : bool :=
  match p with
  | [] => true
  | n :: rest =>
    is_dir t &&
    match rest with
    | [] => name_valid n
    | _ => parent_ok (lookup n (contents t)) rest
    end
  end.

(* no path is a prefix of another (in particular no duplicates) *)
Fixpoint antichain (ps : list path) : bool :=
  match ps with
  | [] => true
  | p :: t => forallb (fun q => negb (is_prefix p q) && negb (is_prefix q p)) t && antichain t
  end.

(* the ancestor changes apply to the ancestor and give a synchronizable tree in
   which the parent of every transition root is a directory; the transition
   roots form an antichain; old and new content of every transition is
   synchronizable *)
Definition plan_ok (anc : oentry) (pl : plan) : bool :=
  match apply anc (anc_changes pl) with
  | FOk a0 =>
    wf true a0
    && forallb (fun t => parent_ok a0 (cpath t) && change_valid true t) (transitions pl)
    && antichain (map cpath (transitions pl))
  | _ => false
  end.

(* ---------- all paths of a tree ---------- *)
Fixpoint paths_e (p : path) (e : entry) : list path :=
  let fix go (l : list (name * entry)) : list path :=
    match l with
    | [] => []
    | (n, x) :: t => (paths_e (p ++ [n]) x ++ go t)%list
    end in
  p :: match e with
       | EDir c => go c
       | EPhantom c => go c
       | _ => []
       end.

Definition paths_of (t : oentry) : list path :=
  match t with None => [[]] | Some e => paths_e [] e end.

(* ---------- the checker ---------- *)
(* input of one cycle: ancestor, the plan that core.Reconcile returned (only
   its ancestor changes and transitions matter), and the result changes that
   the two endpoints reported *)
Record c05_in := { c_anc : oentry; c_plan : plan; c_ra : list change; c_rb : list change }.

(* output: what core.Apply returned and whether EnsureValid(true) accepted it *)
Record c05_out := { c_applied : apply_full; c_valid : bool }.

Definition under_root (rs : list change) (q : path) : bool :=
  existsb (fun r => is_prefix (cpath r) q) rs.

(* elsewhere: at every path (of either tree) that is not at or below a
   transition root, the new ancestor agrees (shallowly, hence - over all such
   paths - exactly) with the ancestor after the ancestor changes alone *)
Definition frame_ok (a0 anc' : oentry) (rs : list change) : bool :=
  forallb (fun q => under_root rs q || oshallow_eqb (at_path anc' q) (at_path a0 q))
          (paths_of a0 ++ paths_of anc').

Definition check_C05 (i : c05_in) (o : c05_out) : bool :=
  match c_applied o with
  | FOk anc' =>
    c_valid o
    && wf true anc'
    && forallb (fun r => oentry_eqb (at_path anc' (cpath r)) (cnew r)) (c_ra i ++ c_rb i)
    && match apply (c_anc i) (anc_changes (c_plan i)) with
       | FOk a0 => frame_ok a0 anc' (c_ra i ++ c_rb i)
       | _ => false
       end
  | _ => false
  end.

(* the hypotheses under which the property speaks about a case *)
Definition results_in_outcome_set (i : c05_in) : bool :=
  side_ok (alpha_ch (c_plan i)) (c_ra i) && side_ok (beta_ch (c_plan i)) (c_rb i).

(* the model's output on the same input (Apply replayed on the very lists the
   implementation was given) *)
Definition model_C05 (i : c05_in) : c05_out :=
  let r := update (c_anc i) (c_plan i) (c_ra i) (c_rb i) in
  {| c_applied := r;
     c_valid := match r with FOk a => wf true a | _ => false end |}.
