(* Model of pkg/prompting/registry.go and response_mode.go (C32).
   Definitions only.

   Part 1: the response mode (determineResponseMode and echoedPromptSuffixes).

   Part 2: a transition system of the prompter registry at the level of the
   atomic steps of the Go code: RLock/RUnlock/Lock/Unlock of registryLock, the
   map lookup / insert / delete, and the single-slot "holder" channel through
   which the prompter is passed around (receive, send, close).  A prompter is
   identified with the identifier it is registered under (RegisterPrompter
   generates unique identifiers; an identifier is registered at most once).
   Ghost history: API calls and returns and the begin / end of every invocation
   of a prompter's Message / Prompt method.

   Part 3: a monitor over such histories -- the checker that is also applied
   to histories recorded from the real registry with instrumented prompters. *)
From Coq Require Import List Arith Bool String Ascii.
Import ListNotations.

(* ------------------------------------------------------------------ *)
(* Part 1: response mode. Strings are lists of byte values. *)
Definition s2l (s : string) : list nat := map nat_of_ascii (list_ascii_of_string s).

(* ResponseMode: ResponseModeSecret = 0, ResponseModeMasked = 1, ResponseModeEcho = 2 *)
Definition mode_secret : nat := 0.
Definition mode_masked : nat := 1.
Definition mode_echo : nat := 2.

(* echoedPromptSuffixes *)
Definition echo_suffixes : list (list nat) :=
  [ s2l "(yes/no)? ";
    s2l "(yes/no): ";
    s2l "(yes/no/[fingerprint])? ";
    s2l "Please type 'yes', 'no' or the fingerprint: " ].

Fixpoint list_eqb (a b : list nat) : bool :=
  match a, b with
  | [], [] => true
  | x :: a', y :: b' => Nat.eqb x y && list_eqb a' b'
  | _, _ => false
  end.

(* strings.HasSuffix *)
Definition has_suffix (p s : list nat) : bool :=
  Nat.leb (List.length s) (List.length p) && list_eqb (skipn (List.length p - List.length s) p) s.

(* determineResponseMode, for an arbitrary suffix list *)
Definition determine_mode_with (sufs : list (list nat)) (prompt : list nat) : nat :=
  if existsb (has_suffix prompt) sufs then mode_echo else mode_secret.
Definition determine_mode (prompt : list nat) : nat := determine_mode_with echo_suffixes prompt.

Fixpoint lists_eqb (a b : list (list nat)) : bool :=
  match a, b with
  | [], [] => true
  | x :: a', y :: b' => list_eqb x y && lists_eqb a' b'
  | _, _ => false
  end.

(* ------------------------------------------------------------------ *)
(* Part 2: the registry. *)
Inductive hstate :=
| HNone        (* the identifier was never registered *)
| HToken       (* the holder channel contains the prompter *)
| HEmpty       (* somebody has taken the prompter out of the holder *)
| HClosed.     (* the holder has been closed by UnregisterPrompter *)

Record slot := mkSlot {
  hst : hstate;       (* the holder of this identifier *)
  inreg : bool;       (* registry[identifier] is present *)
  ucalled : bool      (* UnregisterPrompter(identifier) has been called *)
}.

Inductive rres := ROk | RNotFound | RClosed.   (* nil / "prompter not found" / "unable to acquire prompter" *)

Inductive pop :=
| ORegister (id : nat)        (* RegisterPrompterWithIdentifier *)
| OUnregister (id : nat)      (* UnregisterPrompter *)
| OInvoke (id : nat).         (* Message(id, _) or Prompt(id, _): the same protocol *)

Inductive pevent :=
| PCall (t : nat) (o : pop)
| PRet (t : nat) (o : pop) (r : rres)
| PBegin (t : nat) (id : nat)     (* the prompter's Message/Prompt method is entered *)
| PEnd (t : nat) (id : nat).      (* ... and left *)

Inductive ppc :=
| PIdle
| GLock (id : nat)          (* Register: registryLock.Lock() *)
| GIns (id : nat)           (* collision test; registry[id] = holder *)
| GUnl (id : nat)           (* deferred Unlock *)
| ULock (id : nat)          (* Unregister: registryLock.Lock() *)
| UDel (id : nat)           (* holder := registry[id]; delete(registry, id) *)
| UUnl (id : nat)           (* registryLock.Unlock() *)
| URecv (id : nat)          (* <-holder *)
| UClose (id : nat)         (* close(holder) *)
| MLock (id : nat)          (* Message/Prompt: registryLock.RLock() *)
| MLook (id : nat)          (* holder, ok := registry[id] *)
| MUnl (id : nat) (found : bool)   (* registryLock.RUnlock() *)
| MRecv (id : nat)          (* prompter, ok := <-holder *)
| MInvoke (id : nat)        (* prompter.Message(...) / prompter.Prompt(...) in progress *)
| MPut (id : nat).          (* holder <- prompter *)

Record pstate := mkP {
  slots : list slot;          (* indexed by identifier *)
  wr : option nat;            (* registryLock: the writer *)
  rd : nat;                   (* registryLock: number of readers *)
  pthr : list ppc;            (* goroutines *)
  panicked : bool;            (* a send on a closed channel (or close of a closed channel) happened *)
  plog : list pevent          (* ghost history, newest first *)
}.

Inductive paction :=
| PACall (t : nat) (o : pop)
| PAStep (t : nat).

Fixpoint pupd {A} (l : list A) (n : nat) (x : A) : list A :=
  match l, n with
  | [], _ => []
  | _ :: t, O => x :: t
  | h :: t, S n' => h :: pupd t n' x
  end.

Definition slot0 : slot := mkSlot HNone false false.
Definition get_slot (s : pstate) (id : nat) : slot := nth id (slots s) slot0.

Definition pinit (nids nthreads : nat) : pstate :=
  mkP (repeat slot0 nids) None 0 (repeat PIdle nthreads) false [].

Definition set_slot (s : pstate) (id : nat) (x : slot) : pstate :=
  mkP (pupd (slots s) id x) (wr s) (rd s) (pthr s) (panicked s) (plog s).
Definition set_pc (s : pstate) (t : nat) (p : ppc) : pstate :=
  mkP (slots s) (wr s) (rd s) (pupd (pthr s) t p) (panicked s) (plog s).
Definition set_lock (s : pstate) (w : option nat) (r : nat) : pstate :=
  mkP (slots s) w r (pthr s) (panicked s) (plog s).
Definition add_plog (s : pstate) (e : pevent) : pstate :=
  mkP (slots s) (wr s) (rd s) (pthr s) (panicked s) (e :: plog s).
Definition set_panic (s : pstate) : pstate :=
  mkP (slots s) (wr s) (rd s) (pthr s) true (plog s).

Definition in_range (s : pstate) (id : nat) : bool := Nat.ltb id (List.length (slots s)).

(* an API call may start: Register only for a fresh identifier, Unregister only
   for a registered identifier and only once (anything else is a caller error
   for which UnregisterPrompter panics on purpose) *)
Definition pcall_ok (s : pstate) (o : pop) : bool :=
  match o with
  | ORegister id =>
      in_range s id && match hst (get_slot s id) with HNone => true | _ => false end
  | OUnregister id =>
      in_range s id && inreg (get_slot s id) && negb (ucalled (get_slot s id))
  | OInvoke id => in_range s id
  end.

Definition pcall (s : pstate) (t : nat) (o : pop) : pstate :=
  let s1 :=
    match o with
    | ORegister id =>
        (* holder := make(chan Prompter, 1); holder <- prompter *)
        let x := get_slot s id in
        set_pc (set_slot s id (mkSlot HToken (inreg x) (ucalled x))) t (GLock id)
    | OUnregister id =>
        let x := get_slot s id in
        set_pc (set_slot s id (mkSlot (hst x) (inreg x) true)) t (ULock id)
    | OInvoke id => set_pc s t (MLock id)
    end in
  add_plog s1 (PCall t o).

Definition wlock_free (s : pstate) : bool :=
  match wr s with None => Nat.eqb (rd s) 0 | Some _ => false end.
Definition rlock_free (s : pstate) : bool :=
  match wr s with None => true | Some _ => false end.

Definition pret (s : pstate) (t : nat) (o : pop) (r : rres) : pstate :=
  add_plog (set_pc s t PIdle) (PRet t o r).

Definition pthread_step (s : pstate) (t : nat) (p : ppc) : option pstate :=
  match p with
  | PIdle => None
  | GLock id => if wlock_free s then Some (set_pc (set_lock s (Some t) 0) t (GIns id)) else None
  | GIns id =>
      let x := get_slot s id in
      Some (set_pc (set_slot s id (mkSlot (hst x) true (ucalled x))) t (GUnl id))
  | GUnl id => Some (pret (set_lock s None 0) t (ORegister id) ROk)
  | ULock id => if wlock_free s then Some (set_pc (set_lock s (Some t) 0) t (UDel id)) else None
  | UDel id =>
      let x := get_slot s id in
      Some (set_pc (set_slot s id (mkSlot (hst x) false (ucalled x))) t (UUnl id))
  | UUnl id => Some (set_pc (set_lock s None 0) t (URecv id))
  | URecv id =>
      let x := get_slot s id in
      match hst x with
      | HToken => Some (set_pc (set_slot s id (mkSlot HEmpty (inreg x) (ucalled x))) t (UClose id))
      | HClosed => Some (set_pc s t (UClose id))      (* receive on a closed channel *)
      | _ => None                                      (* blocks *)
      end
  | UClose id =>
      let x := get_slot s id in
      match hst x with
      | HClosed => Some (set_panic s)                  (* close of a closed channel *)
      | _ => Some (pret (set_slot s id (mkSlot HClosed (inreg x) (ucalled x))) t (OUnregister id) ROk)
      end
  | MLock id => if rlock_free s then Some (set_pc (set_lock s None (S (rd s))) t (MLook id)) else None
  | MLook id => Some (set_pc s t (MUnl id (inreg (get_slot s id))))
  | MUnl id found =>
      let s1 := set_lock s None (pred (rd s)) in
      if found then Some (set_pc s1 t (MRecv id)) else Some (pret s1 t (OInvoke id) RNotFound)
  | MRecv id =>
      let x := get_slot s id in
      match hst x with
      | HToken => Some (add_plog (set_pc (set_slot s id (mkSlot HEmpty (inreg x) (ucalled x))) t (MInvoke id))
                                 (PBegin t id))
      | HClosed => Some (pret s t (OInvoke id) RClosed)
      | _ => None                                      (* blocks *)
      end
  | MInvoke id => Some (add_plog (set_pc s t (MPut id)) (PEnd t id))
  | MPut id =>
      let x := get_slot s id in
      match hst x with
      | HEmpty => Some (pret (set_slot s id (mkSlot HToken (inreg x) (ucalled x))) t (OInvoke id) ROk)
      | HClosed => Some (set_panic s)                  (* send on a closed channel *)
      | _ => None                                      (* blocks: the slot is full *)
      end
  end.

Definition pstep (s : pstate) (a : paction) : option pstate :=
  match a with
  | PACall t o =>
      match nth_error (pthr s) t with
      | Some PIdle => if pcall_ok s o then Some (pcall s t o) else None
      | _ => None
      end
  | PAStep t =>
      match nth_error (pthr s) t with
      | Some p => pthread_step s t p
      | None => None
      end
  end.

Fixpoint prun (s : pstate) (acts : list paction) : option pstate :=
  match acts with
  | [] => Some s
  | a :: r => match pstep s a with Some s' => prun s' r | None => None end
  end.

Definition phistory (s : pstate) : list pevent := rev (plog s).

(* ------------------------------------------------------------------ *)
(* Part 3: the history monitor.  The begin/end events are recorded inside the
   invocation and the return of UnregisterPrompter after it returned, all
   stamped by one atomic counter, so their order in the history is their real
   order. *)
Record pmon := mkPM {
  inprog : list (nat * nat);     (* prompter -> goroutine whose invocation is in progress *)
  undone : list nat;             (* prompters whose unregistration has returned *)
  pcalls : list (nat * (nat * bool))  (* goroutine -> (prompter of its open invoke call, invoked yet?) *)
}.

Definition pm0 : pmon := mkPM [] [] [].

Fixpoint alookup {A} (l : list (nat * A)) (k : nat) : option A :=
  match l with
  | [] => None
  | (k', v) :: r => if Nat.eqb k' k then Some v else alookup r k
  end.
Fixpoint aremove {A} (l : list (nat * A)) (k : nat) : list (nat * A) :=
  match l with
  | [] => []
  | (k', v) :: r => if Nat.eqb k' k then aremove r k else (k', v) :: aremove r k
  end.
Definition memb (l : list nat) (k : nat) : bool := existsb (Nat.eqb k) l.

Inductive pres := POk (m : pmon) | PErr (code : nat).

Definition pmon_event (m : pmon) (e : pevent) : pres :=
  match e with
  | PCall t (OInvoke id) =>
      match alookup (pcalls m) t with
      | Some _ => PErr 8
      | None => POk (mkPM (inprog m) (undone m) ((t, (id, false)) :: pcalls m))
      end
  | PCall _ _ => POk m
  | PBegin t id =>
      match alookup (inprog m) id with
      | Some _ => PErr 2                               (* invoked concurrently with itself *)
      | None =>
          if memb (undone m) id then PErr 2            (* invoked after its unregistration returned *)
          else match alookup (pcalls m) t with
               | Some (id', false) =>
                   if Nat.eqb id' id
                   then POk (mkPM ((id, t) :: inprog m) (undone m)
                                  ((t, (id, true)) :: aremove (pcalls m) t))
                   else PErr 1
               | _ => PErr 1                           (* an invocation nobody asked for *)
               end
      end
  | PEnd t id =>
      match alookup (inprog m) id with
      | Some t' => if Nat.eqb t' t then POk (mkPM (aremove (inprog m) id) (undone m) (pcalls m))
                   else PErr 8
      | None => PErr 8
      end
  | PRet t (OInvoke id) r =>
      match alookup (pcalls m) t with
      | Some (id', invoked) =>
          if negb (Nat.eqb id' id) then PErr 8
          else if match alookup (inprog m) id with Some t' => Nat.eqb t' t | None => false end
          then PErr 8                                  (* the end of its invocation is missing *)
          else if Bool.eqb invoked (match r with ROk => true | _ => false end)
          then POk (mkPM (inprog m) (undone m) (aremove (pcalls m) t))
          else PErr 1                                  (* success without invocation, or error with one *)
      | None => PErr 8
      end
  | PRet _ (OUnregister id) _ =>
      match alookup (inprog m) id with
      | Some _ => PErr 2                               (* unregistration returned during an invocation *)
      | None => POk (mkPM (inprog m) (id :: undone m) (pcalls m))
      end
  | PRet _ (ORegister _) _ => POk m
  end.

Definition pmon_step (r : pres) (e : pevent) : pres :=
  match r with POk m => pmon_event m e | PErr _ => r end.
Definition pmon_run (evs : list pevent) : pres := fold_left pmon_step evs (POk pm0).

Definition check_C32_trace_code (evs : list pevent) : nat :=
  match pmon_run evs with POk _ => 0 | PErr c => c end.
Definition check_C32_trace (evs : list pevent) : bool :=
  match pmon_run evs with POk _ => true | PErr _ => false end.

(* the response-mode check applied to the real function's results *)
Definition check_C32_echo (prompt : list nat) (mode : nat) : bool :=
  Bool.eqb (Nat.eqb mode mode_echo) (existsb (has_suffix prompt) echo_suffixes).
