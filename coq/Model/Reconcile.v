(* M-Reconcile: model of pkg/synchronization/core/reconcile.go, transcribed
   branch for branch (definitions only, no proofs). Outputs are produced in
   depth-first order over the sorted name union. *)
From Coq Require Import List Bool Arith String.
Import ListNotations.
From Mv Require Import Model.Entry.

Inductive mode := TwoWaySafe | TwoWayResolved | OneWaySafe | OneWayReplica.

Record plan := {
  anc_changes : list change;
  alpha_ch : list change;
  beta_ch : list change;
  conflicts : list conflict
}.

Definition empty_plan : plan :=
  {| anc_changes := []; alpha_ch := []; beta_ch := []; conflicts := [] |}.

Definition plan_app (x y : plan) : plan :=
  {| anc_changes := anc_changes x ++ anc_changes y;
     alpha_ch := alpha_ch x ++ alpha_ch y;
     beta_ch := beta_ch x ++ beta_ch y;
     conflicts := conflicts x ++ conflicts y |}.

Definition p_anc (c : change) : plan :=
  {| anc_changes := [c]; alpha_ch := []; beta_ch := []; conflicts := [] |}.
Definition p_alpha (c : change) : plan :=
  {| anc_changes := []; alpha_ch := [c]; beta_ch := []; conflicts := [] |}.
Definition p_beta (c : change) : plan :=
  {| anc_changes := []; alpha_ch := []; beta_ch := [c]; conflicts := [] |}.
Definition p_conflict (c : conflict) : plan :=
  {| anc_changes := []; alpha_ch := []; beta_ch := []; conflicts := [c] |}.

(* extractNonDeletionChanges *)
Definition non_deletion (l : list change) : list change :=
  filter (fun c => match cnew c with Some _ => true | None => false end) l.

Definition is_nil (l : list change) : bool := match l with [] => true | _ => false end.

Definition mk (p : path) (o n : oentry) : change := {| cpath := p; cold := o; cnew := n |}.
Definition mkc (p : path) (a b : list change) : conflict :=
  {| root := p; alpha_changes := a; beta_changes := b |}.

(* handleDisagreementBidirectional *)
Definition handle_bidirectional (m : mode) (p : path) (ancestor alpha beta : oentry) : plan :=
  let a := synchronizable alpha in
  let b := synchronizable beta in
  let aDiff := diff p ancestor a in
  let bDiff := diff p ancestor b in
  if is_nil bDiff then
    let bu := diff p b beta in
    if negb (is_nil bu) then p_conflict (mkc p aDiff bu)
    else p_beta (mk p ancestor a)
  else if is_nil aDiff then
    let au := diff p a alpha in
    if negb (is_nil au) then p_conflict (mkc p au bDiff)
    else p_alpha (mk p ancestor b)
  else
  let aND := non_deletion aDiff in
  let bND := non_deletion bDiff in
  if is_nil aND && is_nil bND then
    match a with
    | None =>
      let bu := diff p b beta in
      if negb (is_nil bu) then p_conflict (mkc p aDiff bu)
      else p_beta (mk p b None)
    | Some _ =>
      let au := diff p a alpha in
      if negb (is_nil au) then p_conflict (mkc p au bDiff)
      else p_alpha (mk p a None)
    end
  else if is_nil bND then
    let bu := diff p b beta in
    if negb (is_nil bu) then p_conflict (mkc p aND bu)
    else p_beta (mk p b a)
  else if is_nil aND then
    let au := diff p a alpha in
    if negb (is_nil au) then p_conflict (mkc p au bND)
    else p_alpha (mk p a b)
  else
  match m with
  | TwoWaySafe => p_conflict (mkc p aND bND)
  | _ =>
    let bu := diff p b beta in
    if negb (is_nil bu) then p_conflict (mkc p aND bu)
    else p_beta (mk p b a)
  end.

Definition is_untracked (e : oentry) : bool :=
  match e with Some EUntracked => true | _ => false end.
Definition is_problem (e : oentry) : bool :=
  match e with Some (EProblem _) => true | _ => false end.
Definition is_dir (e : oentry) : bool :=
  match e with Some (EDir _) => true | _ => false end.
Definition is_none (e : oentry) : bool :=
  match e with None => true | _ => false end.

(* handleDisagreementOneWaySafe *)
Definition handle_one_way_safe (p : path) (ancestor alpha beta : oentry) : plan :=
  let b := synchronizable beta in
  let bND := non_deletion (diff p ancestor b) in
  if is_nil bND then
    let bu := diff p b beta in
    if negb (is_nil bu) then p_conflict (mkc p [mk p ancestor alpha] bu)
    else p_beta (mk p beta (synchronizable alpha))
  else
  let untrack := (is_none alpha || is_untracked alpha)
                 && (is_none ancestor || negb (is_dir ancestor)
                     || is_none beta || negb (is_dir beta)) in
  if untrack then
    (if is_none ancestor then empty_plan else p_anc (mk p None None))
  else p_conflict (mkc p [mk p ancestor alpha] bND).

(* handleDisagreementOneWayReplica *)
Definition handle_one_way_replica (p : path) (ancestor alpha beta : oentry) : plan :=
  let bu := diff p (synchronizable beta) beta in
  if negb (is_nil bu) then p_conflict (mkc p [mk p ancestor alpha] bu)
  else p_beta (mk p beta (synchronizable alpha)).

(* reconciler.reconcile, on fuel = depth *)
Fixpoint reconcile_f (fuel : nat) (m : mode) (p : path) (ancestor alpha beta : oentry) : plan :=
  if is_problem alpha then empty_plan
  else if is_problem beta then empty_plan
  else if (is_none alpha || is_untracked alpha) && (is_none beta || is_untracked beta) then
    (if is_none ancestor then empty_plan else p_anc (mk p None None))
  else if oshallow_eqb alpha beta then
    match fuel with
    | O => empty_plan
    | S fuel' =>
      let differs := negb (oshallow_eqb ancestor alpha) in
      let here := if differs then p_anc (mk p None (oslim alpha)) else empty_plan in
      let ac := if differs then [] else contents ancestor in
      let lc := contents alpha in
      let bc := contents beta in
      fold_left
        (fun acc n => plan_app acc
           (reconcile_f fuel' m (p ++ [n])%list (lookup n ac) (lookup n lc) (lookup n bc)))
        (name_union [ac; lc; bc]) here
    end
  else
    match m with
    | TwoWaySafe | TwoWayResolved => handle_bidirectional m p ancestor alpha beta
    | OneWaySafe => handle_one_way_safe p ancestor alpha beta
    | OneWayReplica => handle_one_way_replica p ancestor alpha beta
    end.

Definition reconcile (m : mode) (ancestor alpha beta : oentry) : plan :=
  reconcile_f (S (Nat.max (depth ancestor) (Nat.max (depth alpha) (depth beta))))
              m [] ancestor alpha beta.

(* canonical form of a plan, for comparison with the implementation *)
Definition canon (pl : plan) : plan :=
  {| anc_changes := sort_changes (anc_changes pl);
     alpha_ch := sort_changes (alpha_ch pl);
     beta_ch := sort_changes (beta_ch pl);
     conflicts := sort_conflicts (conflicts pl) |}.

Definition plan_eqb (x y : plan) : bool :=
  changes_eqb (anc_changes x) (anc_changes y) && changes_eqb (alpha_ch x) (alpha_ch y)
  && changes_eqb (beta_ch x) (beta_ch y) && conflicts_eqb (conflicts x) (conflicts y).
