(* M-Remote: model of pkg/synchronization/endpoint/remote (client.go, server.go,
   protocol.go): the agent protocol as functions over an ABSTRACT local endpoint
   (definitions only, no proofs).

   What is modelled, branch for branch:
     endpointClient.Scan / endpointServer.serveScan   (baseline state machine,
        signature in the request, delta in the response, every error path)
     endpointClient.Stage / endpointServer.serveStage (path-list compaction and
        expansion, StageRequest/StageResponse.ensureValid)
     endpointClient.Transition / serveTransition      (results wrapped in
        archives and unwrapped, problems, missing-files flag,
        TransitionResponse.ensureValid)
     endpointServer.serve                             (which failures end the
        request loop)
   What is NOT modelled: the compression handshake and stream framing (C22),
   Poll, the forwarding of rsync transmissions through the receivers returned by
   Stage/Supply, and the concurrency of the completion requests
   (Scan/Transition/Poll run the response reception and the completion request
   concurrently; both always happen, the model takes the state after both).
   Those are exercised by the harness (goharness/cmd/remote) only.

   The outside world is abstract: Protocol Buffers (marshal/unmarshal), the
   rsync engine (signature/deltify/patch), the validators of the payload types
   and the local endpoint itself are Section variables. *)
From Coq Require Import List Bool Arith String.
Import ListNotations.

Definition nonempty (s : string) : bool := negb (String.eqb s ""%string).

(* An order-preserving subsequence ("the returned path list must maintain the
   relative order of elements from the original list and must be a subset"). *)
Inductive subseq {A : Type} : list A -> list A -> Prop :=
| subseq_nil : forall l, subseq [] l
| subseq_take : forall x l1 l2, subseq l1 l2 -> subseq (x :: l1) (x :: l2)
| subseq_skip : forall x l1 l2, subseq l1 l2 -> subseq l1 (x :: l2).

(* Errors a client method can return. [ERemote m] is
   fmt.Errorf("remote error: %s", m); [ELocal m] is an error the client raises
   itself with exactly the text m; the others are wrapped errors whose tail is
   not modelled. *)
Inductive cerr :=
| ERemote (msg : string)
| ELocal (msg : string)
| EMarshalAncestor      (* "unable to marshal ancestor-based snapshot: ..." *)
| EInvalidResponse      (* "invalid scan/stage/transition response: ..."    *)
| EPatch                (* "unable to patch base snapshot: ..."             *)
| EUnmarshal            (* "unable to unmarshal snapshot: ..."              *)
| EInvalidSnapshot      (* "invalid snapshot received: ..."                 *)
| ETransport.           (* the stream failed: the server ended its loop     *)

Section Remote.

(* ------------------------------------------------------------ payloads *)
Variables snapshot ancestor bytes sgn delta : Type.
(* proto.MarshalOptions{Deterministic: true}.Marshal / proto.Unmarshal *)
Variable marshal : snapshot -> option bytes.
Variable unmarshal : bytes -> option snapshot.
(* rsync.Engine: BytesSignature(b, 0), DeltifyBytes(target, sig, 0), PatchBytes *)
Variable sig_of : bytes -> sgn.
Variable deltify : bytes -> sgn -> delta.
Variable patch : bytes -> sgn -> delta -> option bytes.
(* &core.Snapshot{Content: ancestor, PreservesExecutability: true} *)
Variable of_ancestor : ancestor -> snapshot.
Variable content_nil : snapshot -> bool.      (* snapshot.Content == nil       *)
Variable snap_valid : snapshot -> bool.       (* Snapshot.EnsureValid() == nil *)
Variable delta_valid : delta -> bool.         (* every Operation.EnsureValid   *)
Variable delta_empty : delta -> bool.         (* len(SnapshotDelta) == 0       *)
Variable delta_nil : delta.                   (* the field left unset          *)

Variables pathT digestT fsig : Type.
Variable fsig_valid : fsig -> bool.           (* rsync Signature.EnsureValid   *)

Variables result problem change : Type.       (* result = a possibly nil *core.Entry *)
Variable result_valid : result -> bool.       (* Archive{Content: r}.EnsureValid(true) *)
Variable problem_valid : problem -> bool.     (* Problem.EnsureValid           *)
Variable change_valid : change -> bool.       (* Change.EnsureValid(true)      *)

(* ================================================================== Scan *)

(* ScanRequest / ScanResponse (protocol.pb.go) *)
Record scan_request := { rq_sig : sgn; rq_full : bool }.
Record scan_response := { rs_delta : delta; rs_error : string; rs_try : bool }.

(* what the endpoint behind the server answers / what a Scan caller gets *)
Inductive scan_answer := SAOk (s : snapshot) | SAErr (msg : string) (try_again : bool).
Inductive scan_result := ROk (s : snapshot) | RErr (e : cerr) (try_again : bool).

(* client.go Scan, "Compute the bytes that we'll use as the base": the last
   snapshot bytes if there are any, otherwise the serialised ancestor-based
   snapshot (None = that serialisation failed). *)
Definition client_baseline (last : option bytes) (anc : ancestor) : option bytes :=
  match last with
  | Some b => Some b
  | None => marshal (of_ancestor anc)
  end.

Definition client_scan_request (base : bytes) (full : bool) : scan_request :=
  {| rq_sig := sig_of base; rq_full := full |}.

(* server.go serveScan: the endpoint is asked with a nil ancestor and the
   request's full flag; an endpoint error is passed on with its try-again flag,
   a snapshot is serialised deterministically and deltified against THE
   REQUEST'S signature (the server keeps no baseline of its own).
   Cancellation: when the caller's context is cancelled the client sends its
   completion request early and the server cancels the context it handed to
   the endpoint's Scan; that only influences WHICH answer the endpoint gives.
   Whatever the answer is, it is passed on as it is -- in particular the
   try-again flag of an error does not depend on whether the scan was
   preempted (the answer function below has no access to that fact), so
   c21_scan_history covers cancelled scans: they are histories whose answer
   happens to be the one the endpoint gives when preempted. *)
Definition server_scan (answer : bool -> scan_answer) (rq : scan_request) : scan_response :=
  match answer (rq_full rq) with
  | SAErr msg t => {| rs_delta := delta_nil; rs_error := msg; rs_try := t |}
  | SAOk s =>
    match marshal s with
    | None => {| rs_delta := delta_nil; rs_error := "unable to marshal snapshot"%string; rs_try := false |}
    | Some b => {| rs_delta := deltify b (rq_sig rq); rs_error := ""%string; rs_try := false |}
    end
  end.

(* protocol.go ScanResponse.ensureValid *)
Definition scan_response_valid (r : scan_response) : bool :=
  delta_valid (rs_delta r)
  && (if nonempty (rs_error r) then delta_empty (rs_delta r) else true).

(* client.go Scan after the response has arrived: returns the new value of
   lastSnapshotBytes and the result. The baseline is replaced on exactly one
   path: patching, unmarshalling and validation succeeded AND the snapshot's
   content is non-nil. *)
Definition client_scan_finish (last : option bytes) (base : bytes) (r : scan_response)
  : option bytes * scan_result :=
  if negb (scan_response_valid r) then (last, RErr EInvalidResponse false)
  else if nonempty (rs_error r) then (last, RErr (ERemote (rs_error r)) (rs_try r))
  else match patch base (sig_of base) (rs_delta r) with
       | None => (last, RErr EPatch false)
       | Some sb =>
         match unmarshal sb with
         | None => (last, RErr EUnmarshal false)
         | Some s =>
           if negb (snap_valid s) then (last, RErr EInvalidSnapshot false)
           else ((if content_nil s then last else Some sb), ROk s)
         end
       end.

(* One scan through client and server, with everything observable about it. *)
Record scan_step := {
  st_base : option bytes;            (* the bytes the client patches against   *)
  st_request : option scan_request;  (* what the server deltifies against      *)
  st_response : option scan_response;
  st_result : scan_result;
  st_last : option bytes             (* lastSnapshotBytes after the call       *)
}.

Definition remote_scan (last : option bytes) (anc : ancestor) (full : bool)
           (answer : bool -> scan_answer) : scan_step :=
  match client_baseline last anc with
  | None => {| st_base := None; st_request := None; st_response := None;
               st_result := RErr EMarshalAncestor false; st_last := last |}
  | Some base =>
    let rq := client_scan_request base full in
    let rs := server_scan answer rq in
    let '(last', res) := client_scan_finish last base rs in
    {| st_base := Some base; st_request := Some rq; st_response := Some rs;
       st_result := res; st_last := last' |}
  end.

(* A history of scans: per scan the ancestor and flag the caller passes and
   the endpoint's answer as a function of the flag it receives. *)
Record scan_event := { ev_anc : ancestor; ev_full : bool; ev_answer : bool -> scan_answer }.

Fixpoint scan_trace (last : option bytes) (h : list scan_event) : list scan_step :=
  match h with
  | [] => []
  | ev :: t =>
    let st := remote_scan last (ev_anc ev) (ev_full ev) (ev_answer ev) in
    st :: scan_trace (st_last st) t
  end.

(* ---- specification of the same history: no messages, no deltas. *)
Definition lift_scan (a : scan_answer) : scan_result :=
  match a with
  | SAOk s => ROk s
  | SAErr m t => RErr (ERemote m) t
  end.

(* the baseline both sides can compute from the answers alone: the
   serialisation of the most recent answered snapshot with non-nil content *)
Definition spec_update (last : option bytes) (a : scan_answer) : option bytes :=
  match a with
  | SAOk s => if content_nil s then last else marshal s
  | SAErr _ _ => last
  end.

Record spec_step := {
  sp_base : option bytes;     (* baseline before the request               *)
  sp_sig : option sgn;        (* the signature the server must deltify against *)
  sp_full : option bool;      (* the flag the endpoint must receive        *)
  sp_result : scan_result;
  sp_last : option bytes
}.

Fixpoint spec_trace (last : option bytes) (h : list scan_event) : list spec_step :=
  match h with
  | [] => []
  | ev :: t =>
    let a := ev_answer ev (ev_full ev) in
    let base := client_baseline last (ev_anc ev) in
    {| sp_base := base; sp_sig := option_map sig_of base; sp_full := Some (ev_full ev);
       sp_result := lift_scan a; sp_last := spec_update last a |}
    :: spec_trace (spec_update last a) t
  end.

Definition observe (st : scan_step) : spec_step :=
  {| sp_base := st_base st;
     sp_sig := option_map rq_sig (st_request st);
     sp_full := option_map rq_full (st_request st);
     sp_result := st_result st;
     sp_last := st_last st |}.

(* well-formed answers: what the theorem assumes of the endpoint and of Protocol
   Buffers for the values that occur *)
Definition answer_wf (a : scan_answer) : Prop :=
  match a with
  | SAOk s => snap_valid s = true /\ marshal s <> None
  | SAErr m _ => m <> ""%string
  end.

Definition event_wf (ev : scan_event) : Prop :=
  answer_wf (ev_answer ev (ev_full ev)) /\ marshal (of_ancestor (ev_anc ev)) <> None.

(* ================================================================= Stage *)

(* StageResponse (protocol.pb.go) *)
Record stage_response := { sg_paths : list pathT; sg_sigs : list fsig; sg_error : string }.

(* what the endpoint answers (the receiver is not modelled; the answer
   (nil, nil, nil, nil) is [GAOk [] []]) / what a Stage caller gets *)
Inductive stage_answer := GAOk (paths : list pathT) (sigs : list fsig) | GAErr (msg : string).
Inductive stage_result := GOk (paths : list pathT) (sigs : list fsig) | GErr (e : cerr).

(* client.go Stage, first statement: answered without any request *)
Definition client_stage_precheck (paths : list pathT) (digests : list digestT)
  : option stage_result :=
  if negb (List.length paths =? List.length digests)
  then Some (GErr (ELocal "path count does not match digest count"%string))
  else if List.length paths =? 0 then Some (GOk [] [])
  else None.

(* protocol.go StageRequest.ensureValid *)
Definition stage_request_valid (paths : list pathT) (digests : list digestT) : bool :=
  negb (List.length paths =? 0) && (List.length digests =? List.length paths).

(* server.go serveStage, "If all of the requested paths are required, then
   we'll signal this in the response by using an empty path list." *)
Definition compact (req paths : list pathT) (sigs : list fsig) : stage_response :=
  {| sg_paths := if List.length paths =? List.length req then [] else paths;
     sg_sigs := sigs; sg_error := ""%string |}.

(* serveStage once the request has passed ensureValid: the response and
   whether the request loop goes on. A failed Stage sends the error and ENDS
   the loop. *)
Definition server_stage (paths : list pathT) (a : stage_answer) : stage_response * bool :=
  match a with
  | GAErr m => ({| sg_paths := []; sg_sigs := []; sg_error := m |}, false)
  | GAOk ps ss => (compact paths ps ss, true)
  end.

(* protocol.go StageResponse.ensureValid(paths), with n = len(paths) *)
Definition stage_response_valid (n : nat) (r : stage_response) : bool :=
  let p0 := List.length (sg_paths r) in
  let s := List.length (sg_sigs r) in
  let shorthand := (p0 =? 0) && (0 <? s) in
  if shorthand && negb (s =? n) then false
  else let p := if shorthand then s else p0 in
       if negb (p =? s) then false
       else if n <? p then false
       else if negb (forallb fsig_valid (sg_sigs r)) then false
       else if nonempty (sg_error r) && (0 <? p0) then false
       else true.

(* client.go Stage, "Handle the shorthand mechanism used by the remote to
   indicate that all paths are required." *)
Definition expand (req : list pathT) (r : stage_response) : list pathT * list fsig :=
  (if (List.length (sg_paths r) =? 0) && (0 <? List.length (sg_sigs r)) then req else sg_paths r,
   sg_sigs r).

Definition client_stage_finish (req : list pathT) (r : stage_response) : stage_result :=
  if negb (stage_response_valid (List.length req) r) then GErr EInvalidResponse
  else if nonempty (sg_error r) then GErr (ERemote (sg_error r))
  else let '(ps, ss) := expand req r in
       if List.length ps =? 0 then GOk [] [] else GOk ps ss.

(* ============================================================ Transition *)

(* "HACK: Wrap the results in Archives since Protocol Buffers can't encode nil
   pointers in the result array." *)
Record archive := { ar_content : result }.

(* TransitionResponse (protocol.pb.go) *)
Record trans_response := {
  tr_results : list archive; tr_problems : list problem;
  tr_missing : bool; tr_error : string }.

Inductive trans_answer :=
| TAOk (results : list result) (problems : list problem) (missing : bool)
| TAErr (msg : string).
Inductive trans_result :=
| TOk (results : list result) (problems : list problem) (missing : bool)
| TErr (e : cerr).

(* server.go serveTransition (an endpoint error is reported and the loop goes on) *)
Definition server_transition (a : trans_answer) : trans_response :=
  match a with
  | TAErr m => {| tr_results := []; tr_problems := []; tr_missing := false; tr_error := m |}
  | TAOk rs ps m =>
    {| tr_results := map (fun r => {| ar_content := r |}) rs;
       tr_problems := ps; tr_missing := m; tr_error := ""%string |}
  end.

(* protocol.go TransitionResponse.ensureValid(expectedCount) *)
Definition trans_response_valid (n : nat) (r : trans_response) : bool :=
  (List.length (tr_results r) =? n)
  && forallb (fun a => result_valid (ar_content a)) (tr_results r)
  && forallb problem_valid (tr_problems r).

(* client.go Transition after the response has arrived. NOTE the order: the
   response is validated against the number of transitions BEFORE its error
   field is looked at, so an endpoint error on a non-empty transition list
   surfaces as an invalid response (the message is lost, the call still fails). *)
Definition client_transition_finish (n : nat) (r : trans_response) : trans_result :=
  if negb (trans_response_valid n r) then TErr EInvalidResponse
  else if nonempty (tr_error r) then TErr (ERemote (tr_error r))
  else TOk (map ar_content (tr_results r)) (tr_problems r) (tr_missing r).

(* protocol.go TransitionRequest.ensureValid *)
Definition trans_request_valid (cs : list change) : bool := forallb change_valid cs.

(* ========================================= sessions over an abstract endpoint *)

(* The local endpoint: a state machine whose answers are arbitrary. (Scan does
   not receive the ancestor: local endpoints ignore it and the server passes
   nil.) *)
Record endpoint (St : Type) := {
  ep_scan : St -> bool -> St * scan_answer;
  ep_stage : St -> list pathT -> list digestT -> St * stage_answer;
  ep_transition : St -> list change -> St * trans_answer
}.
Arguments ep_scan {St}.
Arguments ep_stage {St}.
Arguments ep_transition {St}.

Inductive op :=
| OpScan (anc : ancestor) (full : bool)
| OpStage (paths : list pathT) (digests : list digestT)
| OpTransition (changes : list change).

Inductive res :=
| ResScan (r : scan_result)
| ResStage (r : stage_result)
| ResTrans (r : trans_result).

Definition lift_stage (a : stage_answer) : stage_result :=
  match a with GAOk ps ss => GOk ps ss | GAErr m => GErr (ERemote m) end.
Definition lift_trans (a : trans_answer) : trans_result :=
  match a with TAOk rs ps m => TOk rs ps m | TAErr m => TErr (ERemote m) end.

Definition ends_session (r : res) : bool :=
  match r with ResStage (GErr _) => true | _ => false end.

Section Session.
Variable St : Type.
Variable E : endpoint St.

(* the endpoint used directly *)
Definition local_step (st : St) (o : op) : St * res :=
  match o with
  | OpScan _ full => let '(st', a) := ep_scan E st full in (st', ResScan (lift_scan a))
  | OpStage ps ds => let '(st', a) := ep_stage E st ps ds in (st', ResStage (lift_stage a))
  | OpTransition cs => let '(st', a) := ep_transition E st cs in (st', ResTrans (lift_trans a))
  end.

(* "If any method returns an error, the endpoint should be considered failed
   and no more of its methods should be invoked" (synchronization.Endpoint).
   The model is more generous: a run goes on after failed scans and
   transitions (the server's loop does) and stops only after a failed Stage,
   the one failure after which the server's request loop has ended. *)
Fixpoint local_run (st : St) (ops : list op) : list res :=
  match ops with
  | [] => []
  | o :: t => let '(st', r) := local_step st o in
              r :: (if ends_session r then [] else local_run st' t)
  end.

(* the endpoint behind client and server. State: the client's
   lastSnapshotBytes, whether the server's request loop is still running, and
   the endpoint's state. *)
Record session := { cl_last : option bytes; sv_alive : bool; sv_state : St }.

Definition dead_result (o : op) : res :=
  match o with
  | OpScan _ _ => ResScan (RErr ETransport false)
  | OpStage _ _ => ResStage (GErr ETransport)
  | OpTransition _ => ResTrans (TErr ETransport)
  end.

Definition remote_step (s : session) (o : op) : session * res :=
  match o with
  | OpScan anc full =>
    match client_baseline (cl_last s) anc with
    | None => (s, ResScan (RErr EMarshalAncestor false))
    | Some base =>
      if negb (sv_alive s) then (s, dead_result o) else
      let rq := client_scan_request base full in
      (* the endpoint is asked once, with the flag found in the request *)
      let '(st', a) := ep_scan E (sv_state s) (rq_full rq) in
      let rs := server_scan (fun _ => a) rq in
      let '(last', r) := client_scan_finish (cl_last s) base rs in
      ({| cl_last := last'; sv_alive := true; sv_state := st' |}, ResScan r)
    end
  | OpStage ps ds =>
    match client_stage_precheck ps ds with
    | Some r => (s, ResStage r)
    | None =>
      if negb (sv_alive s) then (s, dead_result o) else
      if negb (stage_request_valid ps ds)
      then ({| cl_last := cl_last s; sv_alive := false; sv_state := sv_state s |}, dead_result o)
      else
        let '(st', a) := ep_stage E (sv_state s) ps ds in
        let '(rs, alive) := server_stage ps a in
        ({| cl_last := cl_last s; sv_alive := alive; sv_state := st' |},
         ResStage (client_stage_finish ps rs))
    end
  | OpTransition cs =>
    if negb (sv_alive s) then (s, dead_result o) else
    if negb (trans_request_valid cs)
    then ({| cl_last := cl_last s; sv_alive := false; sv_state := sv_state s |}, dead_result o)
    else
      let '(st', a) := ep_transition E (sv_state s) cs in
      ({| cl_last := cl_last s; sv_alive := true; sv_state := st' |},
       ResTrans (client_transition_finish (List.length cs) (server_transition a)))
  end.

Fixpoint remote_run (s : session) (ops : list op) : list res :=
  match ops with
  | [] => []
  | o :: t => let '(s', r) := remote_step s o in
              r :: (if ends_session r then [] else remote_run s' t)
  end.

End Session.

(* ============================ what the theorems assume of the endpoint *)

(* local/endpoint.go Stage, first statements. As the code is ([fixed] = false):
   a read-only endpoint refuses first, then the same two argument checks the
   client makes. As it would be after the proposed repair ([fixed] = true):
   the two argument checks first, then the read-only refusal. *)
Definition local_stage_front (fixed read_only : bool) (paths : list pathT) (digests : list digestT)
  : option stage_answer :=
  let mismatch := negb (List.length paths =? List.length digests) in
  let empty := List.length paths =? 0 in
  let refuse := Some (GAErr "endpoint is in read-only mode"%string) in
  let bad := Some (GAErr "path count does not match digest count"%string) in
  if fixed
  then if mismatch then bad else if empty then Some (GAOk [] []) else if read_only then refuse else None
  else if read_only then refuse else if mismatch then bad else if empty then Some (GAOk [] []) else None.

(* the known-finding class (unrepaired code only): Stage with no paths and no
   digests on a read-only endpoint (the local endpoint fails, the client
   reports "nothing to stage") *)
Definition known_c21 (fixed read_only : bool) (o : op) : bool :=
  match o with
  | OpStage [] [] => negb fixed && read_only
  | _ => false
  end.

Definition stage_answer_wf (req : list pathT) (a : stage_answer) : Prop :=
  match a with
  | GAOk ps ss => subseq ps req /\ List.length ss = List.length ps /\ forallb fsig_valid ss = true
  | GAErr m => m <> ""%string
  end.

Definition trans_answer_wf (n : nat) (a : trans_answer) : Prop :=
  match a with
  | TAOk rs ps _ => List.length rs = n /\ forallb result_valid rs = true
                    /\ forallb problem_valid ps = true
  | TAErr m => m <> ""%string
  end.

(* An endpoint that honours the synchronization.Endpoint contract on its
   answers and whose Stage begins as the local endpoint's does. *)
Record endpoint_ok (fixed read_only : bool) (St : Type) (E : endpoint St) : Prop := {
  ok_scan : forall st full, answer_wf (snd (ep_scan E st full));
  ok_stage : forall st ps ds, stage_answer_wf ps (snd (ep_stage E st ps ds));
  ok_stage_front : forall st ps ds a,
      local_stage_front fixed read_only ps ds = Some a -> ep_stage E st ps ds = (st, a);
  ok_transition : forall st cs, trans_request_valid cs = true ->
                                trans_answer_wf (List.length cs) (snd (ep_transition E st cs))
}.

(* what the caller must respect: serialisable ancestors, valid changes *)
Definition op_wf (o : op) : Prop :=
  match o with
  | OpScan anc _ => marshal (of_ancestor anc) <> None
  | OpStage _ _ => True
  | OpTransition cs => trans_request_valid cs = true
  end.

(* ============================================== the property as a checker *)

(* Two results are the same outcome: equal values, or both failures (for Scan
   with the same try-again flag). The property is about "snapshots, staging
   requirements, transition results, problems and missing-file indications";
   the text of an error is not part of it (the client necessarily rewords it). *)
Variable snapshot_eqb : snapshot -> snapshot -> bool.
Variable path_eqb : pathT -> pathT -> bool.
Variable fsig_eqb : fsig -> fsig -> bool.
Variable result_eqb : result -> result -> bool.
Variable problem_eqb : problem -> problem -> bool.

Fixpoint list_eqb {A : Type} (eqb : A -> A -> bool) (x y : list A) : bool :=
  match x, y with
  | [], [] => true
  | a :: x', b :: y' => eqb a b && list_eqb eqb x' y'
  | _, _ => false
  end.

Definition same_outcome (loc rem : res) : bool :=
  match loc, rem with
  | ResScan (ROk a), ResScan (ROk b) => snapshot_eqb a b
  | ResScan (RErr _ t), ResScan (RErr _ t') => Bool.eqb t t'
  | ResStage (GOk p s), ResStage (GOk p' s') => list_eqb path_eqb p p' && list_eqb fsig_eqb s s'
  | ResStage (GErr _), ResStage (GErr _) => true
  | ResTrans (TOk r p m), ResTrans (TOk r' p' m') =>
    list_eqb result_eqb r r' && list_eqb problem_eqb p p' && Bool.eqb m m'
  | ResTrans (TErr _), ResTrans (TErr _) => true
  | _, _ => false
  end.

(* the same as a proposition *)
Definition same_outcome_prop (loc rem : res) : Prop :=
  match loc, rem with
  | ResScan (ROk a), ResScan (ROk b) => a = b
  | ResScan (RErr _ t), ResScan (RErr _ t') => t = t'
  | ResStage (GOk p s), ResStage (GOk p' s') => p = p' /\ s = s'
  | ResStage (GErr _), ResStage (GErr _) => True
  | ResTrans (TOk r p m), ResTrans (TOk r' p' m') => r = r' /\ p = p' /\ m = m'
  | ResTrans (TErr _), ResTrans (TErr _) => True
  | _, _ => False
  end.

(* check_C21: input = what the endpoint used directly returned, per operation;
   implementation output = what the endpoint behind the protocol returned. *)
Fixpoint check_c21 (loc rem : list res) : bool :=
  match loc, rem with
  | [], [] => true
  | a :: loc', b :: rem' => same_outcome a b && check_c21 loc' rem'
  | _, _ => false
  end.

Definition is_error (r : res) : bool :=
  match r with
  | ResScan (RErr _ _) | ResStage (GErr _) | ResTrans (TErr _) => true
  | _ => false
  end.

End Remote.

Arguments subseq {A}.

(* type arguments are implicit from here on *)
Arguments rq_sig {sgn}. Arguments rq_full {sgn}.
Arguments rs_delta {delta}. Arguments rs_error {delta}. Arguments rs_try {delta}.
Arguments SAOk {snapshot}. Arguments SAErr {snapshot}.
Arguments ROk {snapshot}. Arguments RErr {snapshot}.
Arguments st_base {snapshot bytes sgn delta}. Arguments st_request {snapshot bytes sgn delta}.
Arguments st_response {snapshot bytes sgn delta}. Arguments st_result {snapshot bytes sgn delta}.
Arguments st_last {snapshot bytes sgn delta}.
Arguments ev_anc {snapshot ancestor}. Arguments ev_full {snapshot ancestor}.
Arguments ev_answer {snapshot ancestor}.
Arguments sp_base {snapshot bytes sgn}. Arguments sp_sig {snapshot bytes sgn}.
Arguments sp_full {snapshot bytes sgn}. Arguments sp_result {snapshot bytes sgn}.
Arguments sp_last {snapshot bytes sgn}.
Arguments sg_paths {pathT fsig}. Arguments sg_sigs {pathT fsig}. Arguments sg_error {pathT fsig}.
Arguments GAOk {pathT fsig}. Arguments GAErr {pathT fsig}.
Arguments GOk {pathT fsig}. Arguments GErr {pathT fsig}.
Arguments ar_content {result}.
Arguments tr_results {result problem}. Arguments tr_problems {result problem}.
Arguments tr_missing {result problem}. Arguments tr_error {result problem}.
Arguments TAOk {result problem}. Arguments TAErr {result problem}.
Arguments TOk {result problem}. Arguments TErr {result problem}.
Arguments OpScan {ancestor pathT digestT change}. Arguments OpStage {ancestor pathT digestT change}.
Arguments OpTransition {ancestor pathT digestT change}.
Arguments ResScan {snapshot pathT fsig result problem}. Arguments ResStage {snapshot pathT fsig result problem}.
Arguments ResTrans {snapshot pathT fsig result problem}.
Arguments cl_last {bytes St}. Arguments sv_alive {bytes St}. Arguments sv_state {bytes St}.
Arguments compact {pathT fsig}. Arguments expand {pathT fsig}. Arguments server_stage {pathT fsig}.
Arguments stage_response_valid {pathT fsig}. Arguments client_stage_finish {pathT fsig}.
Arguments client_stage_precheck {pathT digestT fsig}. Arguments stage_request_valid {pathT digestT}.
Arguments server_transition {result problem}. Arguments trans_response_valid {result problem}.
Arguments client_transition_finish {result problem}.
Arguments client_baseline {snapshot ancestor bytes}. Arguments client_scan_request {bytes sgn}.
Arguments server_scan {snapshot bytes sgn delta}. Arguments scan_response_valid {delta}.
Arguments client_scan_finish {snapshot bytes sgn delta}.
Arguments lift_scan {snapshot}. Arguments lift_stage {pathT fsig}. Arguments lift_trans {result problem}.
Arguments ends_session {snapshot pathT fsig result problem}.
Arguments is_error {snapshot pathT fsig result problem}.
Arguments same_outcome {snapshot pathT fsig result problem}.
Arguments same_outcome_prop {snapshot pathT fsig result problem}.
Arguments check_c21 {snapshot pathT fsig result problem}.
Arguments known_c21 {ancestor pathT digestT change}.
Arguments local_stage_front {pathT digestT fsig}.
Arguments answer_wf {snapshot bytes}. Arguments event_wf {snapshot ancestor bytes}.
Arguments spec_update {snapshot bytes}. Arguments spec_trace {snapshot ancestor bytes sgn}.
Arguments scan_trace {snapshot ancestor bytes sgn delta}.
Arguments remote_scan {snapshot ancestor bytes sgn delta}.
Arguments observe {snapshot bytes sgn delta}.
Arguments local_step {snapshot ancestor pathT digestT fsig result problem change St}.
Arguments local_run {snapshot ancestor pathT digestT fsig result problem change St}.
Arguments remote_step {snapshot ancestor bytes sgn delta} _ _ _ _ _ _ _ _ _ _ _ {pathT digestT fsig} _ {result problem change} _ _ _ {St}.
Arguments remote_run {snapshot ancestor bytes sgn delta} _ _ _ _ _ _ _ _ _ _ _ {pathT digestT fsig} _ {result problem change} _ _ _ {St}.
Arguments endpoint_ok {snapshot bytes} _ _ {pathT digestT fsig} _ {result problem change} _ _ _ _ _ {St}.
Arguments op_wf {snapshot ancestor bytes} _ _ {pathT digestT change}.
Arguments stage_answer_wf {pathT fsig}. Arguments trans_answer_wf {result problem}.
Arguments trans_request_valid {change}.
Arguments ok_scan {snapshot bytes marshal snap_valid pathT digestT fsig fsig_valid result problem change result_valid problem_valid change_valid fixed read_only St E}.
Arguments ok_stage {snapshot bytes marshal snap_valid pathT digestT fsig fsig_valid result problem change result_valid problem_valid change_valid fixed read_only St E}.
Arguments ok_stage_front {snapshot bytes marshal snap_valid pathT digestT fsig fsig_valid result problem change result_valid problem_valid change_valid fixed read_only St E}.
Arguments ok_transition {snapshot bytes marshal snap_valid pathT digestT fsig fsig_valid result problem change result_valid problem_valid change_valid fixed read_only St E}.
Arguments ep_scan {snapshot pathT digestT fsig result problem change St}.
Arguments ep_stage {snapshot pathT digestT fsig result problem change St}.
Arguments ep_transition {snapshot pathT digestT fsig result problem change St}.
