(* Model of pkg/multiplexing/ring/buffer.go (definitions only, no proofs).

   Two layers:
   - the CONCRETE model [buf]: storage/size/start/used with the modular
     arithmetic of the Go code, each method transcribed loop for loop;
   - the ABSTRACT specification [spec]: a bounded FIFO queue (capacity, list).

   Elements are of an arbitrary type A (the Go code never inspects bytes).
   Peers (io.Reader for ReadNFrom, io.Writer for WriteTo) are scripted oracles
   that may short-read, short-write and fail. *)
From Coq Require Import List Arith Lia.
Import ListNotations.

Set Implicit Arguments.

Section Ring.
Variable A : Type.
Variable dflt : A. (* value of freshly made storage cells: Go zero byte *)

(* ---------- errors, as a small enum ---------- *)
Inductive err := ENil | EFull | EEOF | EOther.

(* ---------- concrete buffer ---------- *)
Record buf := { storage : list A; size : nat; start : nat; used : nat }.

Definition new_buffer (n : nat) : buf :=
  {| storage := repeat dflt n; size := n; start := 0; used := 0 |}.

(* storage[i : i+len d] = d *)
Definition upd_range (l : list A) (i : nat) (d : list A) : list A :=
  firstn i l ++ d ++ skipn (i + length d) l.

(* first contiguous free segment: (freeStart, length) *)
Definition free_seg (b : buf) : nat * nat :=
  let fs := (start b + used b) mod size b in
  (fs, Nat.min (fs + (size b - used b)) (size b) - fs).

(* first contiguous data segment: (start, length) *)
Definition data_seg (b : buf) : nat * nat :=
  (start b, Nat.min (start b + used b) (size b) - start b).

Definition slice (l : list A) (i n : nat) : list A := firstn n (skipn i l).

(* Write: the for loop, on fuel. Returns None when out of fuel. *)
Fixpoint write_loop (fuel : nat) (b : buf) (data : list A) (result : nat)
  : option (buf * list A * nat) :=
  match data with
  | [] => Some (b, data, result)
  | _ :: _ =>
    if Nat.eqb (used b) (size b) then Some (b, data, result) else
    match fuel with
    | O => None
    | S fuel' =>
      let '(fs, fl) := free_seg b in
      let copied := Nat.min fl (length data) in
      let b' := {| storage := upd_range (storage b) fs (firstn copied data);
                   size := size b; start := start b; used := used b + copied |} in
      write_loop fuel' b' (skipn copied data) (result + copied)
    end
  end.

Definition write (b : buf) (data : list A) : option (buf * nat * err) :=
  match write_loop (S (length data)) b data 0 with
  | None => None
  | Some (b', rest, result) =>
    let e := match rest with
             | [] => ENil
             | _ :: _ => if Nat.eqb (used b') (size b') then EFull else ENil
             end in
    Some (b', result, e)
  end.

Definition write_byte (b : buf) (x : A) : buf * err :=
  if Nat.eqb (used b) (size b) then (b, EFull) else
  let fs := (start b + used b) mod size b in
  ({| storage := upd_range (storage b) fs [x];
      size := size b; start := start b; used := used b + 1 |}, ENil).

Definition reset (b : buf) : buf :=
  {| storage := storage b; size := size b; start := 0; used := 0 |}.

(* Read: loop over the destination length [n]. *)
Fixpoint read_loop (fuel : nat) (b : buf) (n : nat) (acc : list A)
  : option (buf * list A) :=
  match n with
  | O => Some (b, acc)
  | S _ =>
    match used b with
    | O => Some (b, acc)
    | S _ =>
      match fuel with
      | O => None
      | S fuel' =>
        let '(ds, dl) := data_seg b in
        let copied := Nat.min n dl in
        let b' := {| storage := storage b; size := size b;
                     start := (start b + copied) mod size b;
                     used := used b - copied |} in
        read_loop fuel' b' (n - copied) (acc ++ slice (storage b) ds copied)
      end
    end
  end.

Definition reset_if_empty (b : buf) : buf :=
  match used b with
  | O => {| storage := storage b; size := size b; start := 0; used := 0 |}
  | S _ => b
  end.

(* Read(buffer) with len(buffer) = n: returns the bytes copied, and the error *)
Definition read (b : buf) (n : nat) : option (buf * list A * err) :=
  match n with
  | O => Some (b, [], ENil)
  | S _ =>
    match used b with
    | O => Some (b, [], EEOF)
    | S _ =>
      match read_loop (S n) b n [] with
      | None => None
      | Some (b', out) => Some (reset_if_empty b', out, ENil)
      end
    end
  end.

Definition read_byte (b : buf) : buf * option A * err :=
  match used b with
  | O => (b, None, EEOF)
  | S _ =>
    let r := nth_error (storage b) (start b) in
    let b' := {| storage := storage b; size := size b;
                 start := (start b + 1) mod size b; used := used b - 1 |} in
    (reset_if_empty b', r, ENil)
  end.

(* ---------- scripted peers ---------- *)

(* A reader peer: holds a source of bytes and a script. On Read(p) with
   len(p) = m it takes the next script entry (k, e), hands over
   c = min k m (len src) bytes and returns (c, e).  With the script exhausted
   it returns (0, EOF). Every interaction is logged as (m, c, e). *)
Record reader := { rsrc : list A; rscript : list (nat * err);
                   rlog : list (nat * nat * err) }.

Definition reader_read (r : reader) (m : nat) : reader * list A * err :=
  match rscript r with
  | [] => ({| rsrc := rsrc r; rscript := []; rlog := rlog r ++ [(m, 0, EEOF)] |},
           [], EEOF)
  | (k, e) :: rest =>
    let c := Nat.min (Nat.min k m) (length (rsrc r)) in
    ({| rsrc := skipn c (rsrc r); rscript := rest;
        rlog := rlog r ++ [(m, c, e)] |}, firstn c (rsrc r), e)
  end.

(* A writer peer: on Write(p) with len(p) = m it takes the next entry (k, e),
   accepts c = min k m bytes and returns (c, e). With the script exhausted it
   accepts everything. Accepted bytes are appended to wsink. *)
Record writer := { wsink : list A; wscript : list (nat * err);
                   wlog : list (nat * nat * err) }.

Definition writer_write (w : writer) (d : list A) : writer * nat * err :=
  match wscript w with
  | [] => ({| wsink := wsink w ++ d; wscript := [];
              wlog := wlog w ++ [(length d, length d, ENil)] |}, length d, ENil)
  | (k, e) :: rest =>
    let c := Nat.min k (length d) in
    ({| wsink := wsink w ++ firstn c d; wscript := rest;
        wlog := wlog w ++ [(length d, c, e)] |}, c, e)
  end.

Definition is_nil (e : err) : bool := match e with ENil => true | _ => false end.
Definition is_eof (e : err) : bool := match e with EEOF => true | _ => false end.

(* ReadNFrom(reader, n) *)
Fixpoint readn_loop (fuel : nat) (b : buf) (r : reader) (n : nat) (result : nat) (e : err)
  : option (buf * reader * nat * nat * err) :=
  if (Nat.eqb n 0 || Nat.eqb (used b) (size b) || negb (is_nil e))%bool
  then Some (b, r, n, result, e) else
  match fuel with
  | O => None
  | S fuel' =>
    let '(fs, fl) := free_seg b in
    let m := if Nat.ltb n fl then n else fl in
    let '(r', got, e') := reader_read r m in
    let c := length got in
    let b' := {| storage := upd_range (storage b) fs got;
                 size := size b; start := start b; used := used b + c |} in
    readn_loop fuel' b' r' (n - c) (result + c) e'
  end.

Definition read_n_from (b : buf) (r : reader) (n : nat)
  : option (buf * reader * nat * err) :=
  match readn_loop (length (rscript r) + 2) b r n 0 ENil with
  | None => None
  | Some (b', r', n', result, e) =>
    let e1 := if (negb (Nat.eqb n' 0) && Nat.eqb (used b') (size b') && is_nil e)%bool
              then EFull else e in
    let e2 := if (is_eof e1 && Nat.eqb n' 0)%bool then ENil else e1 in
    Some (b', r', result, e2)
  end.

(* WriteTo(writer) *)
Fixpoint writeto_loop (fuel : nat) (b : buf) (w : writer) (result : nat) (e : err)
  : option (buf * writer * nat * err) :=
  if (Nat.eqb (used b) 0 || negb (is_nil e))%bool then Some (b, w, result, e) else
  match fuel with
  | O => None
  | S fuel' =>
    let '(ds, dl) := data_seg b in
    let '(w', c, e') := writer_write w (slice (storage b) ds dl) in
    let b' := {| storage := storage b; size := size b;
                 start := (start b + c) mod size b; used := used b - c |} in
    writeto_loop fuel' b' w' (result + c) e'
  end.

Definition write_to (b : buf) (w : writer) : option (buf * writer * nat * err) :=
  match writeto_loop (length (wscript w) + 3) b w 0 ENil with
  | None => None
  | Some (b', w', result, e) => Some (reset_if_empty b', w', result, e)
  end.

(* ---------- abstraction function and invariant ---------- *)
Definition rotate (l : list A) (i : nat) : list A := skipn i l ++ firstn i l.
Definition abs (b : buf) : list A := firstn (used b) (rotate (storage b) (start b)).

Definition inv (b : buf) : Prop :=
  length (storage b) = size b /\ used b <= size b /\
  (start b < size b \/ (size b = 0 /\ start b = 0)).

(* ---------- abstract specification: bounded FIFO ---------- *)
Record spec := { cap : nat; q : list A }.

Definition spec_write (s : spec) (d : list A) : spec * nat * err :=
  let k := Nat.min (length d) (cap s - length (q s)) in
  ({| cap := cap s; q := q s ++ firstn k d |}, k,
   if Nat.ltb k (length d) then EFull else ENil).

Definition spec_write_byte (s : spec) (x : A) : spec * err :=
  if Nat.eqb (length (q s)) (cap s) then (s, EFull)
  else ({| cap := cap s; q := q s ++ [x] |}, ENil).

Definition spec_read (s : spec) (n : nat) : spec * list A * err :=
  match n with
  | O => (s, [], ENil)
  | S _ => match q s with
           | [] => (s, [], EEOF)
           | _ :: _ => ({| cap := cap s; q := skipn n (q s) |}, firstn n (q s), ENil)
           end
  end.

Definition spec_read_byte (s : spec) : spec * option A * err :=
  match q s with
  | [] => (s, None, EEOF)
  | x :: t => ({| cap := cap s; q := t |}, Some x, ENil)
  end.

Definition spec_reset (s : spec) : spec := {| cap := cap s; q := [] |}.

(* ---------- operations and a uniform step function (for histories) ------- *)
Inductive op :=
| OWrite (d : list A)
| OWriteByte (x : A)
| ORead (n : nat)
| OReadByte
| OReset
| OReadNFrom (src : list A) (script : list (nat * err)) (n : nat)
| OWriteTo (script : list (nat * err))
| OStat.

(* Observable result of an operation. *)
Inductive res :=
| RCount (n : nat) (e : err)                       (* Write *)
| RErr (e : err)                                   (* WriteByte *)
| RData (d : list A) (e : err)                     (* Read *)
| RByte (x : option A) (e : err)                   (* ReadByte *)
| RUnit                                            (* Reset *)
| RReadN (n : nat) (e : err) (consumed : list A) (log : list (nat * nat * err))
| RWriteTo (n : nat) (e : err) (sink : list A) (log : list (nat * nat * err))
| RStat (size used free : nat)
| ROutOfFuel.

Definition consumed_of (src : list A) (r : reader) : list A :=
  firstn (length src - length (rsrc r)) src.

Definition step (b : buf) (o : op) : buf * res :=
  match o with
  | OWrite d => match write b d with
                | Some (b', n, e) => (b', RCount n e)
                | None => (b, ROutOfFuel)
                end
  | OWriteByte x => let '(b', e) := write_byte b x in (b', RErr e)
  | ORead n => match read b n with
               | Some (b', d, e) => (b', RData d e)
               | None => (b, ROutOfFuel)
               end
  | OReadByte => let '(b', x, e) := read_byte b in (b', RByte x e)
  | OReset => (reset b, RUnit)
  | OReadNFrom src script n =>
    match read_n_from b {| rsrc := src; rscript := script; rlog := [] |} n with
    | Some (b', r', k, e) => (b', RReadN k e (consumed_of src r') (rlog r'))
    | None => (b, ROutOfFuel)
    end
  | OWriteTo script =>
    match write_to b {| wsink := []; wscript := script; wlog := [] |} with
    | Some (b', w', k, e) => (b', RWriteTo k e (wsink w') (wlog w'))
    | None => (b, ROutOfFuel)
    end
  | OStat => (b, RStat (size b) (used b) (size b - used b))
  end.

Fixpoint run (b : buf) (ops : list op) : list res :=
  match ops with
  | [] => []
  | o :: rest => let '(b', r) := step b o in r :: run b' rest
  end.

Fixpoint run_state (b : buf) (ops : list op) : buf :=
  match ops with
  | [] => b
  | o :: rest => run_state (fst (step b o)) rest
  end.

(* ---------- the specification as a checker on observed results ---------- *)
(* The peer logs (m, c, e) make the spec deterministic on an observed trace:
   [spec_check s o r] says whether result r is what a bounded FIFO queue in
   state s may answer to o, and yields the next queue state. *)

Fixpoint sum_c (l : list (nat * nat * err)) : nat :=
  match l with [] => 0 | (_, c, _) :: t => c + sum_c t end.

Definition last_err (l : list (nat * nat * err)) : err :=
  match rev l with [] => ENil | (_, _, e) :: _ => e end.

(* every peer request before the last returned nil *)
Fixpoint errs_nil_but_last (l : list (nat * nat * err)) : bool :=
  match l with
  | [] => true
  | [_] => true
  | (_, _, e) :: t => (is_nil e && errs_nil_but_last t)%bool
  end.

(* reader requests: 1 <= m <= min(remaining n, remaining free), c <= m *)
Fixpoint readn_log_ok (l : list (nat * nat * err)) (n free : nat) : bool :=
  match l with
  | [] => true
  | (m, c, _) :: t =>
    (Nat.leb 1 m && Nat.leb m n && Nat.leb m free && Nat.leb c m
     && readn_log_ok t (n - c) (free - c))%bool
  end.

(* writer requests: each a non-empty prefix of what is still queued, c <= m *)
Fixpoint writeto_log_ok (l : list (nat * nat * err)) (qlen : nat) : bool :=
  match l with
  | [] => true
  | (m, c, _) :: t =>
    (Nat.leb 1 m && Nat.leb m qlen && Nat.leb c m && writeto_log_ok t (qlen - c))%bool
  end.

Variable eqA : A -> A -> bool.

Fixpoint list_eqb (x y : list A) : bool :=
  match x, y with
  | [], [] => true
  | a :: x', b :: y' => (eqA a b && list_eqb x' y')%bool
  | _, _ => false
  end.

Definition err_eqb (a b : err) : bool :=
  match a, b with
  | ENil, ENil | EFull, EFull | EEOF, EEOF | EOther, EOther => true
  | _, _ => false
  end.

Definition opt_eqb (x y : option A) : bool :=
  match x, y with
  | None, None => true
  | Some a, Some b => eqA a b
  | _, _ => false
  end.

Definition spec_check (s : spec) (o : op) (r : res) : option spec :=
  match o, r with
  | OWrite d, RCount n e =>
    let '(s', n', e') := spec_write s d in
    if (Nat.eqb n n' && err_eqb e e')%bool then Some s' else None
  | OWriteByte x, RErr e =>
    let '(s', e') := spec_write_byte s x in
    if err_eqb e e' then Some s' else None
  | ORead n, RData d e =>
    let '(s', d', e') := spec_read s n in
    if (list_eqb d d' && err_eqb e e')%bool then Some s' else None
  | OReadByte, RByte x e =>
    let '(s', x', e') := spec_read_byte s in
    if (opt_eqb x x' && err_eqb e e')%bool then Some s' else None
  | OReset, RUnit => Some (spec_reset s)
  | OStat, RStat sz u f =>
    if (Nat.eqb sz (cap s) && Nat.eqb u (length (q s)) && Nat.eqb f (cap s - length (q s)))%bool
    then Some s else None
  | OReadNFrom src script n, RReadN k e consumed log =>
    let free := cap s - length (q s) in
    let le := last_err log in
    (* the count is what the peer handed over; the bytes are the next k of the
       source; requests respect n and the free space; the loop stops at the
       first peer error; the error is reported by the documented rule *)
    let expect_e :=
      if is_nil le then (if (Nat.ltb k n && Nat.eqb k free)%bool then EFull else ENil)
      else if (is_eof le && Nat.eqb k n)%bool then ENil else le in
    let stopped_right :=
      (* a nil last error means the loop ended because n or the space ran out *)
      if is_nil le then (Nat.eqb k n || Nat.eqb k free)%bool else true in
    if (Nat.eqb k (sum_c log) && list_eqb consumed (firstn k src)
        && readn_log_ok log n free && errs_nil_but_last log
        && err_eqb e expect_e && stopped_right)%bool
    then Some {| cap := cap s; q := q s ++ consumed |} else None
  | OWriteTo script, RWriteTo k e sink log =>
    let le := last_err log in
    let stopped_right :=
      if is_nil le then Nat.eqb k (length (q s)) else true in
    if (Nat.eqb k (sum_c log) && list_eqb sink (firstn k (q s))
        && writeto_log_ok log (length (q s)) && errs_nil_but_last log
        && err_eqb e le && stopped_right)%bool
    then Some {| cap := cap s; q := skipn k (q s) |} else None
  | _, _ => None
  end.

Fixpoint spec_check_all (s : spec) (ops : list op) (rs : list res) : bool :=
  match ops, rs with
  | [], [] => true
  | o :: ops', r :: rs' =>
    match spec_check s o r with
    | Some s' => spec_check_all s' ops' rs'
    | None => false
    end
  | _, _ => false
  end.

(* ---------- boolean equality of results (for the correspondence harness) --- *)
Fixpoint log_eqb (x y : list (nat * nat * err)) : bool :=
  match x, y with
  | [], [] => true
  | (a, b, e) :: x', (a', b', e') :: y' =>
    (Nat.eqb a a' && Nat.eqb b b' && err_eqb e e' && log_eqb x' y')%bool
  | _, _ => false
  end.

Definition res_eqb (x y : res) : bool :=
  match x, y with
  | RCount n e, RCount n' e' => (Nat.eqb n n' && err_eqb e e')%bool
  | RErr e, RErr e' => err_eqb e e'
  | RData d e, RData d' e' => (list_eqb d d' && err_eqb e e')%bool
  | RByte x e, RByte x' e' => (opt_eqb x x' && err_eqb e e')%bool
  | RUnit, RUnit => true
  | RReadN n e c l, RReadN n' e' c' l' =>
    (Nat.eqb n n' && err_eqb e e' && list_eqb c c' && log_eqb l l')%bool
  | RWriteTo n e s l, RWriteTo n' e' s' l' =>
    (Nat.eqb n n' && err_eqb e e' && list_eqb s s' && log_eqb l l')%bool
  | RStat a b c, RStat a' b' c' => (Nat.eqb a a' && Nat.eqb b b' && Nat.eqb c c')%bool
  | ROutOfFuel, ROutOfFuel => true
  | _, _ => false
  end.

Fixpoint results_eqb (x y : list res) : bool :=
  match x, y with
  | [], [] => true
  | a :: x', b :: y' => (res_eqb a b && results_eqb x' y')%bool
  | _, _ => false
  end.

End Ring.
