(* Model of pkg/synchronization/rsync/engine.go and transmit.go
   (definitions only, no proofs).

   Bytes are [Coq.Init.Byte.byte]; a Go []byte is a [list byte].  Sizes and indices that slice lists are [nat]; the weak hash
   arithmetic is in [Z] with the uint32 wrap-around ([u32]) and the final
   [mod 2^16] written out exactly as in the Go code.  The strong hash (SHA-1 in
   the Go code) is a Section variable [H]; nothing is assumed about it here.

   Go function                      -> Gallina
   Engine.weakHash                  -> weak_hash
   Engine.rollWeakHash              -> roll_hash
   Engine.Signature                 -> signature        (loop: sig_loop, fuelled)
   Signature.EnsureValid            -> sig_valid
   Operation.EnsureValid            -> op_valid
   Engine.transmitData/Block        -> data_op / block_op + transmit
   Engine.chunkAndTransmitAll       -> chunk_all        (fuelled)
   Deltify: closure sendBlock       -> send_block       (parameter [fixed], see below)
   Deltify: closure sendData        -> send_data        (loop: send_chunks, fuelled)
   Deltify: main for-loop           -> main_loop        (fuelled; advance + react)
   Deltify: short-last-block tail   -> tail_phase
   Engine.Deltify                   -> deltify_tx
   Engine.DeltifyBytes              -> deltify
   Engine.Patch                     -> patch_op         (loop: copy_blocks)
   Engine.PatchBytes                -> patch
   rsync.Transmit (transmit.go)     -> transmit_files   (per file: transmit_file)

   The transmitter handed to Deltify is an oracle [tx : nat -> bool]: the k-th
   call (k = 0, 1, ...) succeeds iff [tx k = true]; a failed call does not
   deliver its operation.  The transmitter state is the full call log.

   [fixed : bool] selects the behaviour of ONE return statement in sendBlock:
   the tree as it is has [return nil] on a failed flush of the coalesced block
   operation ([fixed = false]); the repaired code has [return err]
   ([fixed = true]).  Everything else is common to both variants. *)
From Coq Require Import List Arith ZArith Bool.
From Coq Require Import Init.Byte.
From Coq Require Strings.Byte.
Import ListNotations.

Set Implicit Arguments.

(* ------------------------------------------------------------------ *)
(* fixed-width arithmetic of the weak hash                             *)

Definition M16 : Z := 65536.         (* const m = 1 << 16 *)
Definition M32 : Z := 4294967296.    (* uint32 wrap *)
(* [x mod 2^n] for the mask k = 2^n - 1, written with [Z.land] on non-negative
   arguments only because that evaluates ~50x faster than [Z.modulo] under
   vm_compute; Proof/Rsync.v proves u32 x = x mod 2^32 and m16 x = x mod 2^16
   for every x (lemmas u32_mod, m16_mod). *)
Definition zmask (k x : Z) : Z :=
  if (0 <=? x)%Z then Z.land x k else (k - Z.land (- x - 1) k)%Z.
Definition u32 (x : Z) : Z := zmask 4294967295 x.    (* uint32 arithmetic wraps *)
Definition m16 (x : Z) : Z := zmask 65535 x.         (* x % m *)
Definition zb (b : byte) : Z := Z.of_N (Byte.to_N b). (* uint32(b), 0..255 *)

(* for i, b := range data { r1 += uint32(b); r2 += (uint32(bs) - uint32(i)) * uint32(b) } *)
Fixpoint weak_loop (data : list byte) (bs i r1 r2 : Z) : Z * Z :=
  match data with
  | [] => (r1, r2)
  | b :: t =>
    weak_loop t bs (i + 1)%Z
              (u32 (r1 + zb b))
              (u32 (r2 + u32 (u32 (u32 bs - u32 i) * zb b)))
  end.

(* weakHash(data, blockSize) = (result, r1, r2) *)
Definition weak_hash (data : list byte) (bs : nat) : Z * Z * Z :=
  let '(a, b) := weak_loop data (Z.of_nat bs) 0%Z 0%Z 0%Z in
  let r1 := m16 a in
  let r2 := m16 b in
  (u32 (r1 + u32 (M16 * r2)), r1, r2).

(* rollWeakHash(r1, r2, out, in, blockSize) = (result, r1', r2') *)
Definition roll_hash (r1 r2 : Z) (out inb : byte) (bs : nat) : Z * Z * Z :=
  let r1' := m16 (u32 (u32 (r1 - zb out) + zb inb)) in
  let r2' := m16 (u32 (u32 (r2 - u32 (u32 (Z.of_nat bs) * zb out)) + r1')) in
  (u32 (r1' + u32 (M16 * r2')), r1', r2').

Definition weak_of (data : list byte) (bs : nat) : Z := fst (fst (weak_hash data bs)).

(* ------------------------------------------------------------------ *)
(* operations (type Operation: Data, Start, Count)                     *)

Record op := mkop { odata : list byte; ostart : nat; ocount : nat }.

Definition data_op (d : list byte) : op := mkop d 0 0.          (* transmitData *)
Definition block_op (s c : nat) : op := mkop [] s c.           (* transmitBlock *)

(* Operation.EnsureValid *)
Definition op_valid (o : op) : bool :=
  if 0 <? length (odata o)
  then (ostart o =? 0) && (ocount o =? 0)
  else negb (ocount o =? 0).

Definition is_data (o : op) : bool := 0 <? length (odata o).

(* const DefaultMaximumDataOperationSize = 1 << 16 (never unfolded by simpl) *)
Definition default_max_op : nat := N.to_nat 65536.
Global Arguments default_max_op : simpl never.

Definition eff_max (maxop : nat) : nat :=
  if maxop =? 0 then default_max_op else maxop.

Definition list_eqb (x y : list byte) : bool :=
  (fix go (x y : list byte) : bool :=
     match x, y with
     | [], [] => true
     | a :: x', b :: y' => Byte.eqb a b && go x' y'
     | _, _ => false
     end) x y.

Definition op_eqb (a b : op) : bool :=
  list_eqb (odata a) (odata b) && (ostart a =? ostart b) && (ocount a =? ocount b).

Fixpoint ops_eqb (x y : list op) : bool :=
  match x, y with
  | [], [] => true
  | a :: x', b :: y' => op_eqb a b && ops_eqb x' y'
  | _, _ => false
  end.

Definition olist_eqb (x y : option (list byte)) : bool :=
  match x, y with
  | None, None => true
  | Some a, Some b => list_eqb a b
  | _, _ => false
  end.

(* ------------------------------------------------------------------ *)
(* transmitter: oracle + call log                                      *)

Definition tlog := list (op * bool).           (* every call, in order, with its outcome *)

Definition transmit (tx : nat -> bool) (t : tlog) (o : op) : tlog * bool :=
  let ok := tx (length t) in (t ++ [(o, ok)], ok).

Definition sent_of (t : tlog) : list op := map fst (filter snd t).
Definition any_failed (t : tlog) : bool := existsb (fun x => negb (snd x)) t.
(* transmit.go: the variable transmitError holds the outcome of the LAST call *)
Definition last_ok (t : tlog) : bool :=
  match rev t with [] => true | (_, ok) :: _ => ok end.

Definition all_ok : nat -> bool := fun _ => true.

(* results of the engine's functions *)
Inductive dres := DOk | DErr | DPanic | DFuel.

Definition dres_eqb (a b : dres) : bool :=
  match a, b with
  | DOk, DOk | DErr, DErr | DPanic, DPanic | DFuel, DFuel => true
  | _, _ => false
  end.

(* block i of the base (shorter than blk only for the last block) *)
Definition block_at (base : list byte) (blk i : nat) : list byte :=
  firstn blk (skipn (i * blk) base).

Section Rsync.

(* the strong hash *)
Variable D : Type.
Variable H : list byte -> D.
Variable Deqb : D -> D -> bool.           (* bytes.Equal on digests *)
Variable strong_valid : D -> bool.        (* len(h.Strong) != 0 *)

(* ------------------------------------------------------------------ *)
(* signatures                                                          *)

Record bhash := mkbh { bweak : Z; bstrong : D }.
Record sig := mksig { sblk : nat; slast : nat; shashes : list bhash }.

Definition hash_block (b : list byte) (blk : nat) : bhash :=
  mkbh (weak_of b blk) (H b).

(* SPEC-LEVEL ASSUMPTION used by C19: the strong hash does not collide between a
   block of the base and a window (contiguous piece) of the target *)
Definition collision_free (base : list byte) (blk : nat) (target : list byte) : Prop :=
  forall i w, i * blk < length base -> (exists p q, target = p ++ w ++ q) ->
              H w = H (block_at base blk i) -> w = block_at base blk i.

(* for !eof { n, err := io.ReadFull(base, buffer) ... } : returns
   (LastBlockSize, Hashes); None = out of fuel *)
Fixpoint sig_loop (fuel : nat) (blk : nat) (base : list byte) : option (nat * list bhash) :=
  match fuel with
  | O => None
  | S f =>
    match base with
    | [] => Some (blk, [])                                     (* io.EOF *)
    | _ :: _ =>
      if length base <? blk
      then Some (length base, [hash_block base blk])           (* io.ErrUnexpectedEOF *)
      else match sig_loop f blk (skipn blk base) with
           | Some (l, hs) => Some (l, hash_block (firstn blk base) blk :: hs)
           | None => None
           end
    end
  end.

(* Engine.Signature with blockSize = blk <> 0 (the zero case chooses a
   size from the base length and is not modelled) *)
Definition signature (base : list byte) (blk : nat) : option sig :=
  match sig_loop (S (length base)) blk base with
  | None => None
  | Some (l, hs) =>
    match hs with
    | [] => Some (mksig 0 0 [])
    | _ :: _ => Some (mksig blk l hs)
    end
  end.

(* Signature.EnsureValid *)
Definition sig_valid (s : sig) : bool :=
  forallb (fun h => strong_valid (bstrong h)) (shashes s) &&
  (if sblk s =? 0
   then (slast s =? 0) && (length (shashes s) =? 0)
   else negb (slast s =? 0) && (slast s <=? sblk s) && negb (length (shashes s) =? 0)).

(* ------------------------------------------------------------------ *)
(* patching                                                            *)

(* for c := 0; c < Count; c++ { copyLength; io.ReadFull(base, buffer) } with the
   reader at [pos]; None = ReadFull failed *)
Fixpoint copy_blocks (base : list byte) (s : sig) (n idx pos : nat) : option (list byte) :=
  match n with
  | O => Some []
  | S n' =>
    let nh := length (shashes s) in
    (* operation.Start+c == uint64(len(signature.Hashes)-1); with no hashes the
       right-hand side is 2^64-1 and the comparison is false *)
    let len := if (0 <? nh) && (idx =? nh - 1) then slast s else sblk s in
    if pos + len <=? length base
    then match copy_blocks base s n' (S idx) (pos + len) with
         | Some r => Some (firstn len (skipn pos base) ++ r)
         | None => None
         end
    else None
  end.

(* Engine.Patch: the bytes written to the destination *)
Definition patch_op (base : list byte) (s : sig) (o : op) : option (list byte) :=
  if 0 <? length (odata o) then Some (odata o)
  else copy_blocks base s (ocount o) (ostart o) (ostart o * sblk s).

(* Engine.PatchBytes *)
Fixpoint patch (base : list byte) (s : sig) (ops : list op) : option (list byte) :=
  match ops with
  | [] => Some []
  | o :: rest =>
    match patch_op base s o with
    | None => None
    | Some d => match patch base s rest with
                | None => None
                | Some r => Some (d ++ r)
                end
    end
  end.

(* ------------------------------------------------------------------ *)
(* deltification                                                       *)

Variable fixed : bool.          (* false: sendBlock as in the tree; true: repaired *)
Variable tx : nat -> bool.      (* transmit oracle *)

(* engine-side mutable state shared by the two closures *)
Record estate := mkes { et : tlog; ecs : nat; ecc : nat }.   (* log, coalescedStart, coalescedCount *)

(* chunkAndTransmitAll *)
Fixpoint chunk_all (fuel : nat) (maxop : nat) (t : tlog) (target : list byte) : tlog * dres :=
  match fuel with
  | O => (t, DFuel)
  | S f =>
    match target with
    | [] => (t, DOk)                                                    (* io.EOF *)
    | _ :: _ =>
      if length target <? maxop
      then let '(t', ok) := transmit tx t (data_op target) in         (* io.ErrUnexpectedEOF *)
           (t', if ok then DOk else DErr)
      else let '(t', ok) := transmit tx t (data_op (firstn maxop target)) in
           if ok then chunk_all f maxop t' (skipn maxop target) else (t', DErr)
    end
  end.

(* sendBlock := func(index uint64) error *)
Definition send_block (e : estate) (index : nat) : estate * dres :=
  if 0 <? ecc e then
    if ecs e + ecc e =? index then (mkes (et e) (ecs e) (S (ecc e)), DOk)
    else let '(t', ok) := transmit tx (et e) (block_op (ecs e) (ecc e)) in
         if ok then (mkes t' index 1, DOk)
         else if fixed then (mkes t' (ecs e) (ecc e), DErr)      (* return err *)
         else (mkes t' (ecs e) (ecc e), DOk)                     (* return nil  (engine.go, as is) *)
  else (mkes (et e) index 1, DOk).

(* for len(data) > 0 { sendSize := min(len(data), maxDataOpSize); ... } *)
Fixpoint send_chunks (fuel : nat) (maxop : nat) (t : tlog) (data : list byte) : tlog * dres :=
  match data with
  | [] => (t, DOk)
  | _ :: _ =>
    match fuel with
    | O => (t, DFuel)
    | S f =>
      let k := Nat.min (length data) maxop in
      let '(t', ok) := transmit tx t (data_op (firstn k data)) in
      if ok then send_chunks f maxop t' (skipn k data) else (t', DErr)
    end
  end.

(* sendData := func(data []byte) error *)
Definition send_data (maxop : nat) (e : estate) (data : list byte) : estate * dres :=
  if (0 <? length data) && (0 <? ecc e) then
    let '(t', ok) := transmit tx (et e) (block_op (ecs e) (ecc e)) in
    if ok then
      let '(t'', r) := send_chunks (length data) maxop t' data in (mkes t'' 0 0, r)
    else (mkes t' (ecs e) (ecc e), DErr)
  else
    let '(t'', r) := send_chunks (length data) maxop (et e) data in
    (mkes t'' (ecs e) (ecc e), r).

(* for _, p := range weakToBlockHashes[weak] { if bytes.Equal(base.Hashes[p].Strong, strong) ... }
   The map groups the indices of the full blocks by weak hash in increasing
   order, so the first hit is the first index with equal weak and strong hash. *)
Fixpoint find_match (hs : list bhash) (i : nat) (w : Z) (strong : D) : option nat :=
  match hs with
  | [] => None
  | h :: t =>
    if (bweak h =? w)%Z && Deqb (bstrong h) strong then Some i
    else find_match t (S i) w strong
  end.

Section Deltify.
Variable s : sig.              (* base signature *)
Variable maxop : nat.          (* effective maximum data operation size (non-zero) *)

Definition have_short : bool := negb (slast s =? sblk s).
Definition last_index : nat := length (shashes s) - 1.
(* hashes = hashes[:lastBlockIndex] when the last block is short *)
Definition full_hashes : list bhash :=
  if have_short then firstn last_index (shashes s) else shashes s.
Definition buf_cap : nat := sblk s + maxop.       (* len(buffer) *)

(* first half of a loop iteration: refill an empty buffer or append one byte *)
Inductive adv :=
| ABreak (buf : list byte)                                   (* break, occupancy = length buf *)
| APanic
| ACont (buf : list byte) (w r1 r2 : Z) (rem : list byte).

Definition advance (buf : list byte) (r1 r2 : Z) (rem : list byte) : adv :=
  match buf with
  | [] =>                                                   (* occupancy == 0 *)
    if length rem <? sblk s then ABreak rem                (* EOF / ErrUnexpectedEOF: occupancy = n *)
    else let b := firstn (sblk s) rem in
         let '(w, a, c) := weak_hash b (sblk s) in
         ACont b w a c (skipn (sblk s) rem)
  | _ :: _ =>
    if length buf <? sblk s then APanic                     (* "buffer contains less than a block worth of data" *)
    else match rem with
         | [] => ABreak buf                                 (* ReadByte: io.EOF *)
         | b :: rem' =>
           if buf_cap <=? length buf then APanic            (* buffer[occupancy] = b out of range *)
           else
           let '(w, a, c) := roll_hash r1 r2 (nth (length buf - sblk s) buf x00) b (sblk s) in
           ACont (buf ++ [b]) w a c rem'
         end
  end.

(* second half: search for a match, transmit, truncate *)
Definition react (e : estate) (buf : list byte) (w : Z) : estate * dres * list byte :=
  let occ := length buf in
  let window := skipn (occ - sblk s) buf in
  match find_match full_hashes 0 w (H window) with
  | Some idx =>
    let '(e1, r1) := send_data maxop e (firstn (occ - sblk s) buf) in
    match r1 with
    | DOk => let '(e2, r2) := send_block e1 idx in
             match r2 with
             | DOk => (e2, DOk, [])                          (* occupancy = 0 *)
             | _ => (e2, r2, buf)
             end
    | _ => (e1, r1, buf)
    end
  | None =>
    if occ =? buf_cap then
      let '(e1, r1) := send_data maxop e (firstn (occ - sblk s) buf) in
      match r1 with
      | DOk => (e1, DOk, window)                             (* copy(...); occupancy = BlockSize *)
      | _ => (e1, r1, buf)
      end
    else (e, DOk, buf)
  end.

Fixpoint main_loop (fuel : nat) (e : estate) (buf : list byte) (r1 r2 : Z) (rem : list byte)
  : estate * dres * list byte :=
  match fuel with
  | O => (e, DFuel, buf)
  | S f =>
    match advance buf r1 r2 rem with
    | ABreak buf' => (e, DOk, buf')
    | APanic => (e, DPanic, buf)
    | ACont buf' w a c rem' =>
      let '(e', r, buf'') := react e buf' w in
      match r with
      | DOk => main_loop f e' buf'' a c rem'
      | _ => (e', r, buf'')
      end
    end
  end.

(* after the loop: short last block, remaining data, pending coalesced operation *)
Definition tail_phase (e : estate) (buf : list byte) : estate * dres :=
  let occ := length buf in
  let short_hit :=
    if have_short && (slast s <=? occ) then
      let cand := skipn (occ - slast s) buf in
      match nth_error (shashes s) last_index with
      | Some sh => (weak_of cand (sblk s) =? bweak sh)%Z && Deqb (H cand) (bstrong sh)
      | None => false
      end
    else false in
  let '(e1, r1, buf1) :=
    if short_hit then
      let '(ea, ra) := send_data maxop e (firstn (occ - slast s) buf) in
      match ra with
      | DOk => let '(eb, rb) := send_block ea last_index in
               match rb with
               | DOk => (eb, DOk, [])
               | _ => (eb, rb, buf)
               end
      | _ => (ea, ra, buf)
      end
    else (e, DOk, buf) in
  match r1 with
  | DOk =>
    let '(e2, r2) := send_data maxop e1 buf1 in
    match r2 with
    | DOk =>
      if 0 <? ecc e2 then
        let '(t', ok) := transmit tx (et e2) (block_op (ecs e2) (ecc e2)) in
        (mkes t' (ecs e2) (ecc e2), if ok then DOk else DErr)
      else (e2, DOk)
    | _ => (e2, r2)
    end
  | _ => (e1, r1)
  end.

End Deltify.

(* Engine.Deltify(target, base = s, maxDataOpSize = maxop0, transmit) *)
Definition deltify_tx (target : list byte) (s : sig) (maxop0 : nat) : dres * tlog :=
  let maxop := eff_max maxop0 in
  match shashes s with
  | [] => let '(t, r) := chunk_all (S (length target)) maxop [] target in (r, t)
  | _ :: _ =>
    let '(e, r, buf) := main_loop s maxop (S (length target)) (mkes [] 0 0) [] 0%Z 0%Z target in
    match r with
    | DOk => let '(e', r') := tail_phase s maxop e buf in (r', et e')
    | _ => (r, et e)
    end
  end.

End Rsync.

(* ------------------------------------------------------------------ *)
(* transmit.go: Transmit(root, paths, signatures, receiver)            *)

(* a Transmission: an operation with ExpectedSize, or Done with/without Error *)
Inductive tmsg := TOp (esize : nat) (o : op) | TDone (haserr : bool).

(* the messages of one Deltify call log as seen by receiver.Receive: the first
   CALL carries the file size, later ones 0 (fileSize = 0 after each call) *)
Fixpoint msgs_of (size : nat) (t : tlog) : list (tmsg * bool) :=
  match t with
  | [] => []
  | (o, ok) :: rest => (TOp size o, ok) :: msgs_of 0 rest
  end.

Inductive tres := TOk | TErrSendError | TErrDelta | TErrDone | TErrFinalize | TErrCount.

(* DeltifyBytes: a transmitter that never fails (fixed is then irrelevant;
   the tree's variant is used) *)
Definition deltify (D : Type) (H : list byte -> D) (Deqb : D -> D -> bool)
           (target : list byte) (s : sig D) (maxop0 : nat) : option (list op) :=
  match deltify_tx H Deqb false all_ok target s maxop0 with
  | (DOk, t) => Some (sent_of t)
  | _ => None
  end.

Section Transmit.
Variable D : Type.
Variable H : list byte -> D.
Variable Deqb : D -> D -> bool.
Variable fixed : bool.
Variable rx : nat -> bool.      (* receiver.Receive oracle: call k succeeds iff rx k *)

(* one requested file: None = opener.OpenFile failed *)
Definition tfile := (option (list byte) * sig D)%type.

(* receiver-side log: every Receive call with its outcome, in order *)
Definition rlog := list (tmsg * bool).

Definition receive (r : rlog) (m : tmsg) : rlog * bool :=
  let ok := rx (length r) in (r ++ [(m, ok)], ok).

(* the loop body for one path; result None = continue with the next file *)
Definition transmit_file (r : rlog) (f : tfile) : rlog * option tres :=
  match fst f with
  | None =>
    let '(r', ok) := receive r (TDone true) in
    (r', if ok then None else Some TErrSendError)
  | Some target =>
    (* transmit closure: every call goes to receiver.Receive; the oracle of
       this file's Deltify is the receiver's oracle shifted by the calls so far *)
    let '(res, t) := deltify_tx H Deqb fixed (fun k => rx (length r + k)) target (snd f) 0 in
    let r1 := r ++ msgs_of (length target) t in
    if negb (last_ok t) then (r1, Some TErrDelta)             (* transmitError != nil *)
    else
      let '(r2, ok) := receive r1 (TDone (negb (dres_eqb res DOk))) in
      (r2, if ok then None else Some TErrDone)
  end.

Fixpoint transmit_loop (r : rlog) (fs : list tfile) : rlog * tres :=
  match fs with
  | [] => (r, TOk)
  | f :: rest =>
    match transmit_file r f with
    | (r', Some e) => (r', e)
    | (r', None) => transmit_loop r' rest
    end
  end.

(* finalize is modelled as always succeeding (receiver.finalize returns nil
   unless called twice; Transmit calls it exactly once on every path) *)
Definition transmit_files (fs : list tfile) : rlog * tres := transmit_loop [] fs.

Definition delivered (r : rlog) : list tmsg := map fst (filter snd r).

(* SPEC: what the receiver must have been handed for one file when Transmit
   reports success: an explicit per-file error if the file cannot be opened,
   otherwise exactly the failure-free delta of the file followed by Done *)
Definition expected_file (f : tfile) : list tmsg :=
  match fst f with
  | None => [TDone true]
  | Some target =>
    let '(res, t) := deltify_tx H Deqb fixed all_ok target (snd f) 0 in
    map fst (msgs_of (length target) t) ++ [TDone (negb (dres_eqb res DOk))]
  end.
Definition rx_any_failed (r : rlog) : bool := existsb (fun x => negb (snd x)) r.

(* what the receiver holds for each file after the delivered messages:
   split at Done messages; the ops before a Done belong to that file *)
Fixpoint split_files (ms : list tmsg) (cur : list op) : list (list op * bool) :=
  match ms with
  | [] => []
  | TOp _ o :: rest => split_files rest (cur ++ [o])
  | TDone e :: rest => (cur, e) :: split_files rest []
  end.

End Transmit.

(* ------------------------------------------------------------------ *)
(* checkers applied to the implementation's outputs                    *)

Section Checkers.
Variable D : Type.
Variable H : list byte -> D.
Variable Deqb : D -> D -> bool.
Variable strong_valid : D -> bool.

(* block operation within the signature's range *)
Definition op_in_range (nh : nat) (o : op) : bool :=
  if is_data o then true else (ostart o <? nh) && (ostart o + ocount o <=? nh).

Definition op_data_bound (maxop0 : nat) (o : op) : bool :=
  length (odata o) <=? eff_max maxop0.

(* C19 on an observed operation list [ops] for (base, target, blk, maxop0):
   patching reproduces the target; every operation is valid, in range and within
   the literal bound; an unchanged target carries no literal data; the
   signature is valid. *)
Definition check_C19 (base target : list byte) (blk maxop0 : nat) (ops : list op) : bool :=
  match signature H base blk with
  | None => false
  | Some s =>
    olist_eqb (patch base s ops) (Some target)
    && forallb op_valid ops
    && forallb (op_in_range (length (shashes s))) ops
    && forallb (op_data_bound maxop0) ops
    && (if list_eqb base target then forallb (fun o => negb (is_data o)) ops else true)
    && sig_valid strong_valid s
  end.

(* the property C19 as a Prop on (input, observed operations) *)
Definition C19_holds (base target : list byte) (blk maxop0 : nat) (ops : list op) : Prop :=
  exists s, signature H base blk = Some s /\
    patch base s ops = Some target /\
    Forall (fun o => op_valid o = true) ops /\
    Forall (fun o => op_in_range (length (shashes s)) o = true) ops /\
    Forall (fun o => length (odata o) <= eff_max maxop0) ops /\
    (base = target -> Forall (fun o => is_data o = false) ops) /\
    sig_valid strong_valid s = true.

(* C20 on an observed Deltify run: [err] = Deltify returned an error,
   [t] = the transmitter's call log (operation, delivered?).  Either an error
   was reported, or no call failed and the delivered operations patch the base
   into the target. *)
Definition check_C20 (base target : list byte) (blk : nat) (err : bool) (t : tlog) : bool :=
  if err then true
  else negb (any_failed t)
       && match signature H base blk with
          | None => false
          | Some s => olist_eqb (patch base s (sent_of t)) (Some target)
          end.

(* C20 on an observed Transmit run: [err] = Transmit returned an error,
   [r] = the receiver's call log; [files] = (base, target-or-open-failure, blk).
   Either an error was reported, or no Receive failed and the receiver was
   handed, for every file, either an explicit per-file error or operations that
   patch its base into its target. *)
Fixpoint files_ok (files : list (list byte * option (list byte) * nat))
         (got : list (list op * bool)) : bool :=
  match files, got with
  | [], [] => true
  | (base, tgt, blk) :: fr, (ops, e) :: gr =>
    (if e then true
     else match tgt, signature H base blk with
          | Some target, Some s => olist_eqb (patch base s ops) (Some target)
          | _, _ => false
          end) && files_ok fr gr
  | _, _ => false
  end.

Definition check_C20_transmit (files : list (list byte * option (list byte) * nat))
           (err : bool) (r : list (tmsg * bool)) : bool :=
  if err then true
  else negb (rx_any_failed r) && files_ok files (split_files (delivered r) []).

End Checkers.
