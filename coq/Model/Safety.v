(* M-Safety: model of pkg/synchronization/safety.go (definitions only).

   one_endpoint_emptied_root   = oneEndpointEmptiedRoot
   contains_root_deletion      = containsRootDeletion   (Change.IsRootDeletion)
   contains_root_type_change   = containsRootTypeChange (Change.IsRootTypeChange)
   filtered_paths_are_subset   = filteredPathsAreSubset
   safety_verdict              = the three checks in the order in which
                                 controller.synchronize applies them
   plus the specifications the theorems of Props/C11.v relate them to and the
   checker applied to the results of the real functions. *)
From Coq Require Import List Bool Arith String.
Import ListNotations.
From Mv Require Import Model.Entry Model.Reconcile.

(* oneEndpointEmptiedRoot: the three nil/kind tests, the "< 2" test on the
   ancestor, then "one but not both". len(Contents) is the length of the
   association list. *)
Definition one_endpoint_emptied_root (ancestor alpha beta : oentry) : bool :=
  match ancestor with
  | Some (EDir ac) =>
    match alpha with
    | Some (EDir lc) =>
      match beta with
      | Some (EDir bc) =>
        if Nat.ltb (List.length ac) 2 then false
        else
          let alpha_emptied := Nat.eqb (List.length lc) 0 in
          let beta_emptied := Nat.eqb (List.length bc) 0 in
          (alpha_emptied || beta_emptied) && negb (alpha_emptied && beta_emptied)
      | _ => false
      end
    | _ => false
    end
  | _ => false
  end.

(* containsRootDeletion / containsRootTypeChange: a linear search *)
Definition contains_root_deletion (changes : list change) : bool :=
  existsb is_root_deletion changes.

Definition contains_root_type_change (changes : list change) : bool :=
  existsb is_root_type_change changes.

(* filteredPathsAreSubset: for every filtered path, the first match in what
   remains of the original list; the remainder starts after the match. Paths
   are Go strings here (not component lists). *)
Fixpoint drop_through (x : string) (l : list string) : option (list string) :=
  match l with
  | [] => None
  | y :: t => if String.eqb y x then Some t else drop_through x t
  end.

Fixpoint filtered_paths_are_subset (filtered original : list string) : bool :=
  match filtered with
  | [] => true
  | x :: rest =>
    match drop_through x original with
    | None => false
    | Some original' => filtered_paths_are_subset rest original'
    end
  end.

(* ---------- the order of the checks in controller.synchronize ---------- *)
Inductive halt_kind := HaltEmptied | HaltRootDeletion | HaltRootTypeChange.

Definition halt_kind_eqb (a b : halt_kind) : bool :=
  match a, b with
  | HaltEmptied, HaltEmptied | HaltRootDeletion, HaltRootDeletion
  | HaltRootTypeChange, HaltRootTypeChange => true
  | _, _ => false
  end.

(* Status_HaltedOnRootEmptied = 1, ..RootDeletion = 2, ..RootTypeChange = 3 *)
Definition halt_status (k : halt_kind) : nat :=
  match k with HaltEmptied => 1 | HaltRootDeletion => 2 | HaltRootTypeChange => 3 end.

Definition plan_halts (pl : plan) : option halt_kind :=
  if contains_root_deletion (alpha_ch pl) || contains_root_deletion (beta_ch pl)
  then Some HaltRootDeletion
  else if contains_root_type_change (alpha_ch pl) || contains_root_type_change (beta_ch pl)
  then Some HaltRootTypeChange
  else None.

Definition safety_verdict (m : mode) (ancestor alpha beta : oentry) : option halt_kind :=
  if one_endpoint_emptied_root ancestor alpha beta then Some HaltEmptied
  else plan_halts (reconcile m ancestor alpha beta).

(* ---------- specifications ---------- *)
Definition dir_children (e : oentry) : option (list (name * entry)) :=
  match e with Some (EDir c) => Some c | _ => None end.

(* "all three are directories, the ancestor has at least two children, exactly
   one of alpha and beta has none" *)
Definition emptied_spec (ancestor alpha beta : oentry) : Prop :=
  exists ac lc bc,
    ancestor = Some (EDir ac) /\ alpha = Some (EDir lc) /\ beta = Some (EDir bc) /\
    2 <= List.length ac /\
    ((lc = [] /\ bc <> []) \/ (lc <> [] /\ bc = [])).

Definition root_deletion_spec (changes : list change) : Prop :=
  exists c o, In c changes /\ cpath c = [] /\ cold c = Some o /\ cnew c = None.

Definition root_type_change_spec (changes : list change) : Prop :=
  exists c o n, In c changes /\ cpath c = [] /\ cold c = Some o /\ cnew c = Some n /\
                kind_of o <> kind_of n.

(* order-preserving sub-list *)
Inductive subseq : list string -> list string -> Prop :=
| subseq_nil : forall l, subseq [] l
| subseq_take : forall x f o, subseq f o -> subseq (x :: f) (x :: o)
| subseq_skip : forall y f o, subseq f o -> subseq f (y :: o).

(* an independently written decision of emptied_spec, used as the checker for
   the results of the real function *)
Definition is_dir_with (p : list (name * entry) -> bool) (e : oentry) : bool :=
  match e with Some (EDir c) => p c | _ => false end.
Definition no_children (c : list (name * entry)) : bool :=
  match c with [] => true | _ => false end.
Definition emptied_specb (ancestor alpha beta : oentry) : bool :=
  is_dir_with (fun c => Nat.leb 2 (List.length c)) ancestor
  && is_dir_with (fun _ => true) alpha && is_dir_with (fun _ => true) beta
  && xorb (is_dir_with no_children alpha) (is_dir_with no_children beta).

(* what the harness records about one call of each real function *)
Inductive pred_case :=
| PEmptied (ancestor alpha beta : oentry) (result : bool)
| PChanges (changes : list change) (deletion type_change : bool)
| PSubset (filtered original : list string) (result : bool).

(* model result = implementation result *)
Definition pred_agrees (c : pred_case) : bool :=
  match c with
  | PEmptied anc a b r => Bool.eqb (one_endpoint_emptied_root anc a b) r
  | PChanges cs d t => Bool.eqb (contains_root_deletion cs) d
                       && Bool.eqb (contains_root_type_change cs) t
  | PSubset f o r => Bool.eqb (filtered_paths_are_subset f o) r
  end.

(* the implementation's result satisfies the specification: emptied through
   emptied_specb, the change predicates through an existsb over a separately
   written per-change test, the subset helper through a search that tries
   both alternatives at every original element *)
Definition root_del_specb (c : change) : bool :=
  match cpath c with
  | [] => match cold c with
          | Some _ => match cnew c with None => true | Some _ => false end
          | None => false
          end
  | _ :: _ => false
  end.
Definition root_type_specb (c : change) : bool :=
  match cpath c with
  | [] => match cold c, cnew c with
          | Some o, Some n => negb (kind_eqb (kind_of o) (kind_of n))
          | _, _ => false
          end
  | _ :: _ => false
  end.
Fixpoint subseqb (f o : list string) : bool :=
  match o with
  | [] => match f with [] => true | _ => false end
  | y :: o' =>
    match f with
    | [] => true
    | x :: f' => (String.eqb x y && subseqb f' o') || subseqb f o'
    end
  end.

Definition check_pred (c : pred_case) : bool :=
  match c with
  | PEmptied anc a b r => Bool.eqb (emptied_specb anc a b) r
  | PChanges cs d t => Bool.eqb (existsb root_del_specb cs) d
                       && Bool.eqb (existsb root_type_specb cs) t
  | PSubset f o r => Bool.eqb (subseqb f o) r
  end.
