(* M-FS / scan: model of pkg/synchronization/core/scan.go (definitions only).

   [scan] transcribes core.Scan with its three handlers (scanner.file,
   scanner.symbolicLink, scanner.directory), the root handling, the baseline
   validation, the dirty-path closure, the Linux empty-directory heuristic, the
   digest reuse keyed on (type, mtime, size, file id) and the reuse of baseline
   subtrees with propagation of cache entries.  It runs on a Model/Fs.v tree.

   Outside world (Section variables): the content hash [H]; the ignorer
   [ign : path -> is_directory -> (status, continueTraversal)]; the faults
   [flt : path -> fop -> outcome].  During one scan each Directory primitive
   is issued at most once per path (OpenDirectory, ReadContents, OpenFile, the
   read of the opened file, ReadSymbolicLink), so the fate of "the n-th
   primitive call" of Model/Fs.v is given here per (path, primitive) instead of
   per call number: the two are inter-definable for a single scan and the
   path-indexed form lets the specification [describes] speak about failures.
   [Cancelled] at any point aborts the scan (ErrScanCancelled); [FCheck] is the
   per-content cancellation check of the directory loop.

   Mutation -> values: the scanner's accumulators (newCache, newIgnoreCache,
   the four counters) are returned by every handler and combined by the
   caller at the places where the Go code writes them.  The digest cache is a
   trie over path components ([ctree], one node per snapshot entry; Go: a map
   from '/'-joined paths); the ignore cache is an association list read as a
   map (first binding wins).  Directory contents (a Go map) are association
   lists sorted by name.

   Not modelled: Unicode recomposition (decomposesUnicode is carried as data,
   it is false on Linux), failures of the behaviour probes, the text of OS
   error messages (only their fixed prefixes are exact). *)
From Coq Require Import List Bool Arith String Ascii NArith DecimalString.
From Mv Require Import Model.Entry Model.Fs.
Import ListNotations.
Open Scope string_scope.

(* ---------- association lists with sorted insertion ---------- *)
Section Assoc.
  Context {A : Type}.

  Fixpoint alookup (n : name) (c : list (name * A)) : option A :=
    match c with
    | [] => None
    | (m, x) :: t => if String.eqb n m then Some x else alookup n t
    end.

  Fixpoint adel (n : name) (c : list (name * A)) : list (name * A) :=
    match c with
    | [] => []
    | (m, x) :: t => if String.eqb n m then adel n t else (m, x) :: adel n t
    end.

  Fixpoint ains (n : name) (v : A) (c : list (name * A)) : list (name * A) :=
    match c with
    | [] => [(n, v)]
    | (m, x) :: t => if String.ltb n m then (n, v) :: c else (m, x) :: ains n v t
    end.

  (* map[n] = v *)
  Definition aset (n : name) (v : A) (c : list (name * A)) : list (name * A) :=
    ains n v (adel n c).
End Assoc.

Definition amap {A B : Type} (f : A -> B) (c : list (name * A)) : list (name * B) :=
  map (fun nx => (fst nx, f (snd nx))) c.

(* ---------- UTF-8 (unicode/utf8.ValidString, strings.ToValidUTF8) ---------- *)
Definition is_cont (b : N) : bool := (N.leb 128 b && N.leb b 191)%bool.

(* width of the well-formed encoding at the head of the byte list, 0 if the
   head byte does not start one (utf8.DecodeRune returning RuneError, 1) *)
Definition utf8_width (l : list N) : nat :=
  match l with
  | [] => 0
  | b0 :: r =>
    if N.ltb b0 128 then 1
    else if N.leb 194 b0 && N.leb b0 223 then
      match r with
      | b1 :: _ => if is_cont b1 then 2 else 0
      | _ => 0
      end
    else if N.leb 224 b0 && N.leb b0 239 then
      match r with
      | b1 :: b2 :: _ =>
        let lo := if N.eqb b0 224 then 160%N else 128%N in
        let hi := if N.eqb b0 237 then 159%N else 191%N in
        if N.leb lo b1 && N.leb b1 hi && is_cont b2 then 3 else 0
      | _ => 0
      end
    else if N.leb 240 b0 && N.leb b0 244 then
      match r with
      | b1 :: b2 :: b3 :: _ =>
        let lo := if N.eqb b0 240 then 144%N else 128%N in
        let hi := if N.eqb b0 244 then 143%N else 191%N in
        if N.leb lo b1 && N.leb b1 hi && is_cont b2 && is_cont b3 then 4 else 0
      | _ => 0
      end
    else 0
  end.

Fixpoint utf8_valid_f (fuel : nat) (l : list N) : bool :=
  match fuel with
  | O => match l with [] => true | _ => false end
  | S f =>
    match l with
    | [] => true
    | _ => match utf8_width l with
           | O => false
           | w => utf8_valid_f f (skipn w l)
           end
    end
  end.

(* replace every maximal run of invalid bytes by U+FFFD (EF BF BD) *)
Fixpoint to_valid_f (fuel : nat) (l : list N) (in_run : bool) : list N :=
  match fuel with
  | O => []
  | S f =>
    match l with
    | [] => []
    | b :: r =>
      match utf8_width l with
      | O => (if in_run then [] else [239; 191; 189]%N) ++ to_valid_f f r true
      | w => firstn w l ++ to_valid_f f (skipn w l) false
      end
    end
  end.

Definition bytes_of_string (s : string) : list N := map N_of_ascii (list_ascii_of_string s).
Definition string_of_bytes (l : list N) : string := string_of_list_ascii (map ascii_of_N l).

Definition utf8_valid (s : string) : bool :=
  let l := bytes_of_string s in utf8_valid_f (List.length l) l.

(* strings.ToValidUTF8(name, "�") + " (non-UTF-8)" *)
Definition escape_name (s : string) : string :=
  let l := bytes_of_string s in
  string_of_bytes (to_valid_f (List.length l) l false) ++ " (non-UTF-8)".

(* filesystem.TemporaryNamePrefix *)
Definition temp_prefix : string := ".mutagen-temporary-".
Definition is_temp (n : name) : bool := String.prefix temp_prefix n.

(* ---------- configuration ---------- *)
Inductive symmode := SLIgnore | SLPortable | SLPosixRaw.
Inductive permmode := PMPortable | PMManual.

Record config := {
  c_sym : symmode;
  c_perm : permmode;
  c_preserves : bool;    (* probed: the filesystem preserves executability *)
  c_decomposes : bool;   (* probed: the filesystem decomposes Unicode      *)
  c_fix16 : bool         (* symbolic_link.go counts an empty target
                            component as a name (false) or skips it (true) *)
}.

(* ---------- ignores ---------- *)
Inductive istatus := INominal | IIgnored | IUnignored.
Definition ival := (istatus * bool)%type.     (* IgnoreCacheValue *)
Definition ikey := (path * bool)%type.        (* IgnoreCacheKey   *)
Definition icache := list (ikey * ival).

Definition istatus_eqb (a b : istatus) : bool :=
  match a, b with
  | INominal, INominal | IIgnored, IIgnored | IUnignored, IUnignored => true
  | _, _ => false
  end.
Definition ival_eqb (a b : ival) : bool :=
  istatus_eqb (fst a) (fst b) && Bool.eqb (snd a) (snd b).

Fixpoint ic_lookup (p : path) (d : bool) (c : icache) : option ival :=
  match c with
  | [] => None
  | ((q, e), v) :: t => if path_eqb p q && Bool.eqb d e then Some v else ic_lookup p d t
  end.

(* ---------- digest cache ---------- *)
Record centry := {
  ce_mode : N;      (* full st_mode *)
  ce_mtime : N;
  ce_size : N;
  ce_fid : N;
  ce_digest : string
}.

Definition centry_eqb (a b : centry) : bool :=
  N.eqb (ce_mode a) (ce_mode b) && N.eqb (ce_mtime a) (ce_mtime b)
  && N.eqb (ce_size a) (ce_size b) && N.eqb (ce_fid a) (ce_fid b)
  && String.eqb (ce_digest a) (ce_digest b).

Inductive ctree := CT (v : option centry) (c : list (name * ctree)).

Definition ct_empty : ctree := CT None [].
Definition ct_val (t : ctree) : option centry := match t with CT v _ => v end.
Definition ct_kids (t : ctree) : list (name * ctree) := match t with CT _ c => c end.

(* cache.Entries[path] *)
Fixpoint ct_get (p : path) (t : ctree) : option centry :=
  match p with
  | [] => ct_val t
  | n :: q => match alookup n (ct_kids t) with
              | Some s => ct_get q s
              | None => None
              end
  end.

Fixpoint ct_insert (p : path) (ce : centry) (t : ctree) : ctree :=
  match p with
  | [] => CT (Some ce) (ct_kids t)
  | n :: q =>
    let s := match alookup n (ct_kids t) with Some s => s | None => ct_empty end in
    CT (ct_val t) (aset n (ct_insert q ce s) (ct_kids t))
  end.

Definition ct_of_list (l : list (path * centry)) : ctree :=
  fold_left (fun t pc => ct_insert (fst pc) (snd pc) t) l ct_empty.

(* all bindings, depth first, children in list order *)
Fixpoint ct_flatten (p : path) (t : ctree) : list (path * centry) :=
  let fix go (l : list (name * ctree)) : list (path * centry) :=
    match l with
    | [] => []
    | (n, s) :: r => (ct_flatten (p ++ [n])%list s ++ go r)%list
    end in
  match t with
  | CT v c => (match v with Some ce => [(p, ce)] | None => [] end ++ go c)%list
  end.

(* ---------- counters ---------- *)
Record counters := { n_dirs : N; n_files : N; n_links : N; n_bytes : N }.
Definition cnt0 : counters := {| n_dirs := 0; n_files := 0; n_links := 0; n_bytes := 0 |}.
Definition cnt_add (a b : counters) : counters :=
  {| n_dirs := n_dirs a + n_dirs b; n_files := n_files a + n_files b;
     n_links := n_links a + n_links b; n_bytes := n_bytes a + n_bytes b |}.
Definition cnt_dir : counters := {| n_dirs := 1; n_files := 0; n_links := 0; n_bytes := 0 |}.
Definition cnt_file (size : N) : counters :=
  {| n_dirs := 0; n_files := 1; n_links := 0; n_bytes := size |}.
Definition cnt_link : counters := {| n_dirs := 0; n_files := 0; n_links := 1; n_bytes := 0 |}.
Definition cnt_eqb (a b : counters) : bool :=
  N.eqb (n_dirs a) (n_dirs b) && N.eqb (n_files a) (n_files b)
  && N.eqb (n_links a) (n_links b) && N.eqb (n_bytes a) (n_bytes b).

(* ---------- faults ---------- *)
Inductive fop := FOpenRoot | FOpenDir | FReadContents | FOpenFile | FReadData | FReadLink | FCheck.

Definition errno_msg (e : errno) : string :=
  match e with
  | ENOENT => "no such file or directory"
  | EEXIST => "file exists"
  | ENOTDIR => "not a directory"
  | EISDIR => "is a directory"
  | ENOTEMPTY => "directory not empty"
  | ELOOP => "too many levels of symbolic links"
  | EINVAL => "invalid argument"
  | EXDEV => "invalid cross-device link"
  | EACCES => "permission denied"
  | EPERM => "operation not permitted"
  | EIO => "input/output error"
  | ENOSPC => "no space left on device"
  | EBADNAME => "path separator appears in name"
  | ENOTFILE => "path is not a file"
  | EUNSUPPORTED => "unsupported open type"
  | ESTALE => "stale file handle"
  | EOTHER _ => "errno"
  end.

Definition dec (n : N) : string := NilEmpty.string_of_uint (N.to_uint n).

(* ---------- symbolic link targets (symbolic_link.go) ---------- *)
Fixpoint split_slash_f (s : string) (cur : string) : list string :=
  match s with
  | EmptyString => [cur]
  | String a r => if Ascii.eqb a "/"%char then cur :: split_slash_f r ""
                  else split_slash_f r (cur ++ String a "")
  end.
Definition split_slash (s : string) : list string := split_slash_f s "".

Definition has_char (c : ascii) (s : string) : bool :=
  existsb (Ascii.eqb c) (list_ascii_of_string s).

(* the depth walk: None = escaped the root *)
Fixpoint depth_walk (fix16 : bool) (d : nat) (cs : list string) : bool :=
  match cs with
  | [] => true
  | c :: r =>
    if String.eqb c "." then depth_walk fix16 d r
    else if String.eqb c ".." then
      match d with O => false | S d' => depth_walk fix16 d' r end
    else if fix16 && String.eqb c "" then depth_walk fix16 d r
    else depth_walk fix16 (S d) r
  end.

(* normalizeSymbolicLinkAndEnsurePortable(path, target) on POSIX:
   inl target | inr message *)
Definition normalize_link (fix16 : bool) (p : path) (target : string) : string + string :=
  if String.eqb target "" then inr "target empty"
  else if Nat.ltb 247 (String.length target) then inr "target too long"
  else if has_char ":"%char target then inr "colon in target (absolute or unsupported path)"
  else if has_char "\"%char target then inr "backslash in target"
  else if String.prefix "/" target then inr "target is absolute"
  else if depth_walk fix16 (Nat.pred (List.length p)) (split_slash target) then inl target
  else inr "target references location outside synchronization root".

(* anyExecutableBitSet *)
Definition any_exec (mode : N) : bool := negb (N.eqb (N.land mode 73) 0).   (* 0111 *)

(* timestamppb.Timestamp.CheckValid for a non-negative time *)
Definition mtime_valid (ns : N) : bool := N.ltb ns (253402300800 * 1000000000).

(* ---------- snapshots and results ---------- *)
Record snapshot := {
  s_content : oentry;
  s_preserves : bool;
  s_decomposes : bool;
  s_cnt : counters
}.

Inductive scan_out :=
| SErr                                          (* error return (incl. cancellation) *)
| SOk (s : snapshot) (c : ctree) (ic : icache).

(* result of one handler / of one directory content *)
Inductive hres :=
| HAbort                                        (* return nil, err (not IsNotExist)  *)
| HVanished                                     (* return nil, err with IsNotExist   *)
| HOk (e : entry) (t : ctree) (ic : icache) (cnt : counters).

Definition problem (msg : string) : hres := HOk (EProblem msg) ct_empty [] cnt0.

(* The root is handed to the handlers already open: OpenDirectory / OpenFile
   are not issued for the root path, so they cannot fail there. *)
Definition root_opened (flt : path -> fop -> outcome) : path -> fop -> outcome :=
  fun p op =>
    match p, op with
    | [], FOpenDir | [], FOpenFile => Ok
    | _, _ => flt p op
    end.

(* one directory content's outcome *)
Inductive cres :=
| CAbort                                        (* the scan fails                   *)
| COmit                                         (* nothing is recorded              *)
| CList (k : name) (e : entry) (t : ctree) (ic : icache) (cnt : counters).

Definition of_hres (k : name) (ic0 : icache) (r : hres) : cres :=
  match r with
  | HAbort => CAbort
  | HVanished => COmit                 (* treated as if it had never existed *)
  | HOk e t ic cnt => CList k e t (ic0 ++ ic)%list cnt
  end.

(* (contents with their cache subtrees, ignore-cache entries, counters) *)
Definition kids_acc := (list (name * (entry * ctree)) * icache * counters)%type.

(* contents[k] = e, and the accumulators *)
Definition step (r : cres) (rest : option kids_acc) : option kids_acc :=
  match r with
  | CAbort => None
  | COmit => rest
  | CList k e t ic cnt =>
    match rest with
    | None => None
    | Some (out, ics, cnts) => Some (aset k (e, t) out, (ic ++ ics)%list, cnt_add cnt cnts)
    end
  end.

Section Scan.
  Variable H : string -> string.                (* the hasher                  *)
  Variable ign : path -> bool -> ival.          (* ignorer.Ignore              *)
  Variable flt : path -> fop -> outcome.        (* faults                      *)
  Variable cfg : config.
  Variable rootdev : N.                         (* scanner.deviceID            *)
  Variable oc : ctree.                          (* scanner.cache               *)
  Variable oic : icache.                        (* scanner.ignoreCache         *)
  Variable dirty : path -> bool.                (* scanner.dirtyPaths          *)

  (* ----- scanner.file ----- *)
  Definition executable (mode : N) : bool :=
    match c_perm cfg with
    | PMPortable => c_preserves cfg && any_exec mode
    | PMManual => false
    end.

  (* cacheContentMatch; [mode] is the full st_mode of a regular file *)
  Definition content_match (mode : N) (m : meta) (ce : centry) : bool :=
    N.eqb (N.land mode S_IFMT) (N.land (ce_mode ce) S_IFMT)
    && N.eqb (m_mtime m) (ce_mtime ce)
    && N.eqb (m_size m) (ce_size ce)
    && N.eqb (m_fid m) (ce_fid ce).

  Definition new_centry (mode : N) (m : meta) (digest : string) : centry :=
    {| ce_mode := mode; ce_mtime := m_mtime m; ce_size := m_size m; ce_fid := m_fid m;
       ce_digest := digest |}.

  (* the tail of scanner.file once the digest is known *)
  Definition file_finish (mode : N) (m : meta) (digest : string) (reuse : option centry) : hres :=
    match reuse with
    | Some ce =>
      HOk (EFile (executable mode) digest) (CT (Some ce) []) [] (cnt_file (m_size m))
    | None =>
      if negb (mtime_valid (m_mtime m)) then
        problem "unable to convert file modification time"
      else
        HOk (EFile (executable mode) digest) (CT (Some (new_centry mode m digest)) []) []
            (cnt_file (m_size m))
    end.

  Definition scan_file (p : path) (m : meta) (data : string) : hres :=
    let mode := (S_IFREG + m_mode m)%N in
    let cached := ct_get p oc in
    let cmatch := match cached with Some ce => content_match mode m ce | None => false end in
    match cached, cmatch with
    | Some ce, true =>
      file_finish mode m (ce_digest ce) (if N.eqb mode (ce_mode ce) then Some ce else None)
    | _, _ =>
      match flt p FOpenFile with
      | Cancelled => HAbort
      | Fail e => if is_not_exist e then HVanished
                  else problem ("unable to open file: " ++ errno_msg e)
      | Ok =>
        match flt p FReadData with
        | Cancelled => HAbort
        | Fail e => problem ("unable to hash file contents: " ++ errno_msg e)
        | Ok =>
          if negb (N.eqb (strlen data) (m_size m)) then
            problem ("hashed size mismatch: " ++ dec (strlen data) ++ " != " ++ dec (m_size m))
          else file_finish mode m (H data) None
        end
      end
    end.

  (* ----- scanner.symbolicLink ----- *)
  Definition scan_link (p : path) (target : string) (enforce_portable : bool) : hres :=
    match flt p FReadLink with
    | Cancelled => HAbort
    | Fail e => if is_not_exist e then HVanished
                else problem ("unable to read symbolic link target: " ++ errno_msg e)
    | Ok =>
      if enforce_portable then
        match normalize_link (c_fix16 cfg) p target with
        | inl t => HOk (ELink t) ct_empty [] cnt_link
        | inr msg => problem ("invalid symbolic link: " ++ msg)
        end
      else if String.eqb target "" then problem "symbolic link target is empty"
      else HOk (ELink target) ct_empty [] cnt_link
    end.

  Definition scan_link_mode (p : path) (target : string) : hres :=
    match c_sym cfg with
    | SLPortable => scan_link p target true
    | SLIgnore => HOk EUntracked ct_empty [] cnt0
    | SLPosixRaw => scan_link p target false
    end.

  (* ----- the walk over a re-used baseline directory ----- *)
  Definition ic_prop (p : path) (d : bool) : icache :=
    match ic_lookup p d oic with
    | Some v => [((p, d), v)]
    | None => []
    end.

  (* (cache entries, ignore-cache entries, counters, missingCacheEntries) *)
  Fixpoint walk (p : path) (e : entry) {struct e} : ctree * icache * counters * bool :=
    let fix kids (l : list (name * entry)) : list (name * ctree) * icache * counters * bool :=
      match l with
      | [] => ([], [], cnt0, false)
      | (n, x) :: r =>
        let '(t, ic, cnt, miss) := walk (p ++ [n])%list x in
        let '(ts, ics, cnts, misss) := kids r in
        ((n, t) :: ts, (ic ++ ics)%list, cnt_add cnt cnts, miss || misss)
      end in
    match e with
    | EDir c | EPhantom c =>
      let '(ts, ics, cnts, miss) := kids c in
      (CT None ts, (ic_prop p true ++ ics)%list, cnt_add cnt_dir cnts, miss)
    | EFile _ _ =>
      match ct_get p oc with
      | Some ce => (CT (Some ce) [], ic_prop p false, cnt_file (ce_size ce), false)
      | None => (ct_empty, ic_prop p false, cnt_file 0, true)
      end
    | ELink _ => (ct_empty, ic_prop p false, cnt_link, false)
    | EUntracked | EProblem _ => (ct_empty, [], cnt0, false)
    end.

  Definition reuse (p : path) (d : list (name * entry)) : hres :=
    let '(t, ic, cnt, miss) := walk p (EDir d) in
    if miss then HAbort else HOk (EDir d) t ic cnt.

  (* ----- the per-content decisions of scanner.directory before a handler runs ----- *)
  Inductive pre :=
  | PSkip                                     (* temporary name: continue            *)
  | PLeaf (k : name) (e : entry) (ic : icache)  (* recorded without calling a handler *)
  | PHandle (ic : icache) (mask' : bool).     (* a handler runs with this ignore mask *)

  Definition ignore_of (cp : path) (isd : bool) : ival :=
    match ic_lookup cp isd oic with
    | Some v => v
    | None => ign cp isd
    end.

  Definition child_pre (p : path) (mask : bool) (n : name) (y : node) : pre :=
    if is_temp n then PSkip
    else if negb (utf8_valid n) then
      PLeaf (escape_name n) (if mask then EUntracked else EProblem "non-UTF-8 filename") []
    else
      match y with
      | NOther _ _ => PLeaf n EUntracked []
      | _ =>
        let cp := (p ++ [n])%list in
        let isd := is_dir y in
        let ib := ignore_of cp isd in
        let key := [((cp, isd), ib)] in
        match fst ib with
        | INominal => if mask && negb (snd ib) then PLeaf n EUntracked key else PHandle key mask
        | IIgnored => if negb (snd ib) then PLeaf n EUntracked key else PHandle key true
        | IUnignored => PHandle key false
        end
      end.

  (* directoryBaseline *)
  Definition dir_baseline (bl : option (list (name * entry))) (n : name)
    : option (list (name * entry)) :=
    match bl with
    | Some bc => match lookup n bc with
                 | Some (EDir d) => Some d
                 | _ => None
                 end
    | None => None
    end.

  (* can the baseline be re-used for the content at [cp]?  (with the Linux
     heuristic: an empty baseline directory counts as dirty) *)
  Definition reusable (cp : path) (d : list (name * entry)) : bool :=
    negb (dirty cp || match d with [] => true | _ => false end).

  (* one content of the directory at [p]: the body of the loop of
     scanner.directory; [rec] is scanner.directory itself *)
  Definition child_res (rec : path -> node -> option (list (name * entry)) -> bool -> hres)
             (p : path) (mask : bool) (bl : option (list (name * entry)))
             (n : name) (y : node) : cres :=
    let cp := (p ++ [n])%list in
    match flt cp FCheck with
    | Cancelled => CAbort
    | _ =>
      match child_pre p mask n y with
      | PSkip => COmit
      | PLeaf k e ic => CList k e ct_empty ic cnt0
      | PHandle ic mask' =>
        of_hres n ic
          match y with
          | NFile fm data => scan_file cp fm data
          | NLink _ target => scan_link_mode cp target
          | NDir _ _ =>
            let dbl := dir_baseline bl n in
            match dbl with
            | Some d => if reusable cp d then reuse cp d else rec cp y dbl mask'
            | None => rec cp y None mask'
            end
          | NOther _ _ => HAbort   (* unreachable: child_pre records it *)
          end
      end
    end.

  (* ----- scanner.directory ----- *)
  Fixpoint scan_dir (p : path) (x : node)
           (bl : option (list (name * entry))) (mask : bool) {struct x} : hres :=
    match x with
    | NDir m c =>
      if negb (N.eqb (m_dev m) rootdev) then problem "scan crossed filesystem boundary" else
      match flt p FOpenDir with
      | Cancelled => HAbort
      | Fail e => if is_not_exist e then HVanished
                  else problem ("unable to open directory: " ++ errno_msg e)
      | Ok =>
        match flt p FReadContents with
        | Cancelled => HAbort
        | Fail e => problem ("unable to read directory contents: " ++ errno_msg e)
        | Ok =>
          let fix loop (l : list (name * node)) : option kids_acc :=
            match l with
            | [] => Some ([], [], cnt0)
            | (n, y) :: r =>
              step (child_res (fun cp y' b m' => scan_dir cp y' b m') p mask bl n y) (loop r)
            end in
          match loop c with
          | None => HAbort
          | Some (out, ics, cnts) =>
            HOk ((if mask then EPhantom else EDir) (amap fst out))
                (CT None (amap snd out)) ics (cnt_add cnts cnt_dir)
          end
        end
      end
    | _ => HAbort   (* not called on non-directories *)
    end.
End Scan.

(* ---------- core.Scan ---------- *)
Definition dirty_of (recheck : list path) : path -> bool :=
  fun q => existsb (fun r => is_prefix q r) recheck.

Definition empty_snapshot : snapshot :=
  {| s_content := None; s_preserves := false; s_decomposes := false; s_cnt := cnt0 |}.

Inductive rootkind := RKDir | RKFile.

Definition baseline_valid (cfg : config) (rk : rootkind) (b : snapshot) : bool :=
  match s_content b, rk with
  | Some (EDir _), RKDir | Some (EFile _ _), RKFile =>
    Bool.eqb (s_preserves b) (c_preserves cfg) && Bool.eqb (s_decomposes b) (c_decomposes cfg)
  | _, _ => false
  end.

Definition scan (H : string -> string) (ign : path -> bool -> ival) (flt : path -> fop -> outcome)
           (cfg : config) (baseline : option snapshot) (recheck : list path)
           (oc : ctree) (oic : icache) (root : option node) : scan_out :=
  match (match root with None => Fail ENOENT | Some _ => flt [] FOpenRoot end), root with
  | Cancelled, _ => SErr
  | Fail e, _ => if is_not_exist e then SOk empty_snapshot ct_empty [] else SErr
  | Ok, None => SErr
  | Ok, Some (NLink _ _) | Ok, Some (NOther _ _) => SErr
  | Ok, Some x =>
    let rk := if is_dir x then RKDir else RKFile in
    let baseline := match baseline with
                    | Some b => if baseline_valid cfg rk b then Some b else None
                    | None => None
                    end in
    match baseline, recheck with
    | Some b, [] => SOk b oc oic
    | _, _ =>
      let dirty := match baseline with Some _ => dirty_of recheck | None => fun _ => false end in
      let rootdev := m_dev (node_meta x) in
      let r :=
        match x with
        | NDir _ _ =>
          let bl := match baseline with
                    | Some b => match s_content b with Some (EDir c) => Some c | _ => None end
                    | None => None
                    end in
          scan_dir H ign (root_opened flt) cfg rootdev oc oic dirty [] x bl false
        | NFile m data => scan_file H (root_opened flt) cfg oc [] m data
        | _ => HAbort
        end in
      match r with
      | HOk e t ic cnt =>
        SOk {| s_content := Some e; s_preserves := c_preserves cfg;
               s_decomposes := c_decomposes cfg; s_cnt := cnt |} t ic
      | _ => SErr
      end
    end
  end.

(* a fresh full scan: no baseline, no caches *)
Definition scan_full H ign flt cfg (root : option node) : scan_out :=
  scan H ign flt cfg None [] ct_empty [] root.

(* an accelerated scan *)
Definition scan_accel H ign flt cfg (baseline : snapshot) (recheck : list path)
           (oc : ctree) (oic : icache) (root : option node) : scan_out :=
  scan H ign flt cfg (Some baseline) recheck oc oic root.
