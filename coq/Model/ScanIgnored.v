(* The premise C03 needs from the scan: content the user's ignore rules mark
   as ignored never becomes synchronizable content of a snapshot (Reconcile only
   leaves alone what the snapshot marks untracked). Definitions only.

   "Ignored" is Mutagen's own rule, for any ignore.Ignorer and independent of
   any reference semantics: the status the ignorer returns for the path itself
   decides; a nominal status inherits the verdict of the parent directory (the
   ignore mask); the root is not ignored. *)
From Coq Require Import List Bool Arith String Ascii.
Import ListNotations.
From Mv Require Import Model.Entry Model.IgnoreScan.
Open Scope list_scope.

(* the effective verdict on path q, taken as a directory or not *)
Fixpoint eff_ignored (ign : ignorer) (q : rpath) (dir : bool) : bool :=
  match q with
  | [] => false
  | _ :: q' =>
    match fst (ign q dir) with
    | Ignored => true
    | Unignored => false
    | Nominal => eff_ignored ign q' true
    end
  end.

(* File, Directory or SymbolicLink: what Reconcile treats as content *)
Definition synchronizable_entry (e : entry) : bool :=
  match e with EFile _ _ | ELink _ | EDir _ => true | _ => false end.
Definition entry_is_dir (e : entry) : bool :=
  match e with EDir _ | EPhantom _ => true | _ => false end.

(* no ignored path is synchronizable content of the snapshot *)
Definition check_c03_scan (ign : ignorer) (snap : entry) : bool :=
  forallb (fun qe => negb (synchronizable_entry (snd qe))
                     || negb (eff_ignored ign (fst qe) (entry_is_dir (snd qe))))
          (entries [] snap).

(* the Ignorer contract used by the walk: traversal continuation is only ever
   requested for directories *)
Definition cont_only_dirs (ign : ignorer) : Prop := forall q, snd (ign q false) = false.

(* an ignorer given as the table of the real ignorer's answers *)
Definition verdict_row := (string * bool * status * bool)%type.   (* path, dir, status, continue *)
Definition table_ignorer (t : list verdict_row) : ignorer :=
  fun q dir =>
    let p := path_string q in
    match find (fun r => match r with (p', d', _, _) => String.eqb p p' && Bool.eqb dir d' end) t with
    | Some (_, _, st, c) => (st, c)
    | None => (Nominal, false)
    end.
Definition table_cont_only_dirs (t : list verdict_row) : bool :=
  forallb (fun r => match r with (_, d, _, c) => d || negb c end) t.
