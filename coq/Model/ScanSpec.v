(* Specification side of C12 / C13 (definitions only).

   [describes] says what a correct snapshot of a filesystem tree is, without
   reference to how Scan computes it: an inductive relation between a node of
   Model/Fs.v and the entry that must be reported for it.  [check_C12] is the
   same relation as a boolean; it is applied to the snapshots returned by the
   real core.Scan.  [check_C13] compares the results of an accelerated and of a
   fresh full scan as the property demands. *)
From Coq Require Import List Bool Arith String Ascii NArith.
From Mv Require Import Model.Entry Model.Fs Model.Scan.
Import ListNotations.
Open Scope string_scope.

(* what the ignore rules decide for a content with ignore behaviour [v] inside
   a directory scanned under ignore mask [mask] *)
Inductive decision := DUntracked | DScan (mask' : bool).

Definition decide (mask : bool) (v : ival) : decision :=
  match fst v with
  | IIgnored => if snd v then DScan true else DUntracked
  | IUnignored => DScan false
  | INominal => if mask && negb (snd v) then DUntracked else DScan mask
  end.

Inductive listing := LOmit | LEntry (k : name) (e : entry).

Definition nonutf8_entry (mask : bool) : entry :=
  if mask then EUntracked else EProblem "non-UTF-8 filename".

Section Spec.
  Variable H : string -> string.
  Variable ign : path -> bool -> ival.
  Variable flt : path -> fop -> outcome.
  Variable cfg : config.
  Variable rootdev : N.

  Definition spec_exec (m : meta) : bool :=
    match c_perm cfg with
    | PMPortable => c_preserves cfg && any_exec (m_mode m)
    | PMManual => false
    end.

  Inductive describes : path -> bool -> node -> option entry -> Prop :=
  (* ----- regular files ----- *)
  | D_file_vanished : forall p mask m data,
      flt p FOpenFile = Fail ENOENT ->
      describes p mask (NFile m data) None
  | D_file_unopenable : forall p mask m data e,
      flt p FOpenFile = Fail e -> is_not_exist e = false ->
      describes p mask (NFile m data) (Some (EProblem ("unable to open file: " ++ errno_msg e)))
  | D_file_unreadable : forall p mask m data e,
      flt p FOpenFile = Ok -> flt p FReadData = Fail e ->
      describes p mask (NFile m data)
                (Some (EProblem ("unable to hash file contents: " ++ errno_msg e)))
  | D_file_size : forall p mask m data,
      flt p FOpenFile = Ok -> flt p FReadData = Ok ->
      strlen data <> m_size m ->
      describes p mask (NFile m data)
                (Some (EProblem ("hashed size mismatch: " ++ dec (strlen data) ++ " != " ++ dec (m_size m))))
  | D_file_mtime : forall p mask m data,
      flt p FOpenFile = Ok -> flt p FReadData = Ok ->
      strlen data = m_size m -> mtime_valid (m_mtime m) = false ->
      describes p mask (NFile m data) (Some (EProblem "unable to convert file modification time"))
  | D_file : forall p mask m data,
      flt p FOpenFile = Ok -> flt p FReadData = Ok ->
      strlen data = m_size m -> mtime_valid (m_mtime m) = true ->
      describes p mask (NFile m data) (Some (EFile (spec_exec m) (H data)))
  (* ----- symbolic links ----- *)
  | D_link_ignored : forall p mask m t,
      c_sym cfg = SLIgnore ->
      describes p mask (NLink m t) (Some EUntracked)
  | D_link_vanished : forall p mask m t,
      c_sym cfg <> SLIgnore -> flt p FReadLink = Fail ENOENT ->
      describes p mask (NLink m t) None
  | D_link_unreadable : forall p mask m t e,
      c_sym cfg <> SLIgnore -> flt p FReadLink = Fail e -> is_not_exist e = false ->
      describes p mask (NLink m t)
                (Some (EProblem ("unable to read symbolic link target: " ++ errno_msg e)))
  | D_link_portable : forall p mask m t t',
      c_sym cfg = SLPortable -> flt p FReadLink = Ok ->
      normalize_link (c_fix16 cfg) p t = inl t' ->
      describes p mask (NLink m t) (Some (ELink t'))
  | D_link_unportable : forall p mask m t msg,
      c_sym cfg = SLPortable -> flt p FReadLink = Ok ->
      normalize_link (c_fix16 cfg) p t = inr msg ->
      describes p mask (NLink m t) (Some (EProblem ("invalid symbolic link: " ++ msg)))
  | D_link_raw : forall p mask m t,
      c_sym cfg = SLPosixRaw -> flt p FReadLink = Ok -> t <> "" ->
      describes p mask (NLink m t) (Some (ELink t))
  | D_link_raw_empty : forall p mask m,
      c_sym cfg = SLPosixRaw -> flt p FReadLink = Ok ->
      describes p mask (NLink m "") (Some (EProblem "symbolic link target is empty"))
  (* ----- directories ----- *)
  | D_dir_crossing : forall p mask m c,
      m_dev m <> rootdev ->
      describes p mask (NDir m c) (Some (EProblem "scan crossed filesystem boundary"))
  | D_dir_vanished : forall p mask m c,
      m_dev m = rootdev -> flt p FOpenDir = Fail ENOENT ->
      describes p mask (NDir m c) None
  | D_dir_unopenable : forall p mask m c e,
      m_dev m = rootdev -> flt p FOpenDir = Fail e -> is_not_exist e = false ->
      describes p mask (NDir m c)
                (Some (EProblem ("unable to open directory: " ++ errno_msg e)))
  | D_dir_unreadable : forall p mask m c e,
      m_dev m = rootdev -> flt p FOpenDir = Ok -> flt p FReadContents = Fail e ->
      describes p mask (NDir m c)
                (Some (EProblem ("unable to read directory contents: " ++ errno_msg e)))
  | D_dir : forall p mask m c out,
      m_dev m = rootdev -> flt p FOpenDir = Ok -> flt p FReadContents = Ok ->
      describes_kids p mask c out ->
      describes p mask (NDir m c) (Some ((if mask then EPhantom else EDir) out))

  (* the contents reported for a directory with children [c]: nothing is
     listed that no child accounts for, and every child is accounted for *)
  with describes_kids : path -> bool -> list (name * node) -> list (name * entry) -> Prop :=
  | DK : forall p mask c out,
      sorted_names (map fst out) = true ->
      (forall k e, lookup k out = Some e ->
                   exists n y, In (n, y) c /\ lists p mask n y (LEntry k e)) ->
      (forall n y, In (n, y) c ->
                   exists l, lists p mask n y l /\
                             match l with
                             | LOmit => True
                             | LEntry k e => lookup k out = Some e
                             end) ->
      describes_kids p mask c out

  (* how one child named [n] of the directory at [p] is listed *)
  with lists : path -> bool -> name -> node -> listing -> Prop :=
  | L_temporary : forall p mask n y,
      is_temp n = true ->
      lists p mask n y LOmit
  | L_nonutf8 : forall p mask n y,
      is_temp n = false -> utf8_valid n = false ->
      lists p mask n y (LEntry (escape_name n) (nonutf8_entry mask))
  | L_unsupported : forall p mask n m ty,
      is_temp n = false -> utf8_valid n = true ->
      lists p mask n (NOther m ty) (LEntry n EUntracked)
  | L_ignored : forall p mask n y,
      is_temp n = false -> utf8_valid n = true ->
      (forall m ty, y <> NOther m ty) ->
      decide mask (ign (p ++ [n])%list (is_dir y)) = DUntracked ->
      lists p mask n y (LEntry n EUntracked)
  | L_vanished : forall p mask n y mask',
      is_temp n = false -> utf8_valid n = true ->
      (forall m ty, y <> NOther m ty) ->
      decide mask (ign (p ++ [n])%list (is_dir y)) = DScan mask' ->
      describes (p ++ [n])%list mask' y None ->
      lists p mask n y LOmit
  | L_listed : forall p mask n y mask' e,
      is_temp n = false -> utf8_valid n = true ->
      (forall m ty, y <> NOther m ty) ->
      decide mask (ign (p ++ [n])%list (is_dir y)) = DScan mask' ->
      describes (p ++ [n])%list mask' y (Some e) ->
      lists p mask n y (LEntry n e).

  (* ---------- the same as a boolean ---------- *)
  Definition spec_file (p : path) (m : meta) (data : string) : option (option entry) :=
    match flt p FOpenFile with
    | Cancelled => None
    | Fail e => if is_not_exist e then Some None
                else Some (Some (EProblem ("unable to open file: " ++ errno_msg e)))
    | Ok =>
      match flt p FReadData with
      | Cancelled => None
      | Fail e => Some (Some (EProblem ("unable to hash file contents: " ++ errno_msg e)))
      | Ok =>
        if negb (N.eqb (strlen data) (m_size m)) then
          Some (Some (EProblem ("hashed size mismatch: " ++ dec (strlen data) ++ " != " ++ dec (m_size m))))
        else if negb (mtime_valid (m_mtime m)) then
          Some (Some (EProblem "unable to convert file modification time"))
        else Some (Some (EFile (spec_exec m) (H data)))
      end
    end.

  Definition spec_link (p : path) (t : string) : option (option entry) :=
    match c_sym cfg with
    | SLIgnore => Some (Some EUntracked)
    | sm =>
      match flt p FReadLink with
      | Cancelled => None
      | Fail e => if is_not_exist e then Some None
                  else Some (Some (EProblem ("unable to read symbolic link target: " ++ errno_msg e)))
      | Ok =>
        match sm with
        | SLPortable =>
          match normalize_link (c_fix16 cfg) p t with
          | inl t' => Some (Some (ELink t'))
          | inr msg => Some (Some (EProblem ("invalid symbolic link: " ++ msg)))
          end
        | _ => if String.eqb t "" then Some (Some (EProblem "symbolic link target is empty"))
               else Some (Some (ELink t))
        end
      end
    end.

  Definition expect (spec : option (option entry)) (oe : option entry) : bool :=
    match spec with
    | Some s => oentry_eqb s oe
    | None => false
    end.

  (* the key under which a child is listed, if it is *)
  Definition out_key (n : name) : option name :=
    if is_temp n then None else Some (if utf8_valid n then n else escape_name n).

  Definition keys_covered (c : list (name * node)) (out : list (name * entry)) : bool :=
    forallb (fun k => existsb (fun ny => match out_key (fst ny) with
                                         | Some k' => String.eqb k k'
                                         | None => false
                                         end) c)
            (map fst out).

  (* one child of the directory at [p] against the reported contents [out];
     [chk] is check_node itself *)
  Definition check_child (chk : path -> bool -> node -> option entry -> bool)
             (p : path) (mask : bool) (out : list (name * entry)) (n : name) (y : node) : bool :=
    if is_temp n then true
    else if negb (utf8_valid n) then
      oentry_eqb (Some (nonutf8_entry mask)) (lookup (escape_name n) out)
    else
      match y with
      | NOther _ _ => oentry_eqb (Some EUntracked) (lookup n out)
      | _ =>
        match decide mask (ign (p ++ [n])%list (is_dir y)) with
        | DUntracked => oentry_eqb (Some EUntracked) (lookup n out)
        | DScan mask' => chk (p ++ [n])%list mask' y (lookup n out)
        end
      end.

  Fixpoint check_node (p : path) (mask : bool) (x : node) (oe : option entry) {struct x} : bool :=
    match x with
    | NFile m data => expect (spec_file p m data) oe
    | NLink _ t => expect (spec_link p t) oe
    | NOther _ _ => false
    | NDir m c =>
      if negb (N.eqb (m_dev m) rootdev) then
        oentry_eqb (Some (EProblem "scan crossed filesystem boundary")) oe
      else
        match flt p FOpenDir with
        | Cancelled => false
        | Fail e => if is_not_exist e then oentry_eqb None oe
                    else oentry_eqb (Some (EProblem ("unable to open directory: " ++ errno_msg e))) oe
        | Ok =>
          match flt p FReadContents with
          | Cancelled => false
          | Fail e => oentry_eqb (Some (EProblem ("unable to read directory contents: " ++ errno_msg e))) oe
          | Ok =>
            let body (out : list (name * entry)) : bool :=
              sorted_names (map fst out) && keys_covered c out &&
              (fix kids (l : list (name * node)) : bool :=
                 match l with
                 | [] => true
                 | (n, y) :: r =>
                   check_child (fun q m' y' oe' => check_node q m' y' oe') p mask out n y && kids r
                 end) c in
            match oe, mask with
            | Some (EDir out), false => body out
            | Some (EPhantom out), true => body out
            | _, _ => false
            end
          end
        end
    end.
End Spec.

(* ---------- folds over the returned content ---------- *)
Fixpoint count_dirs (e : entry) : N :=
  let fix go (l : list (name * entry)) : N :=
    match l with [] => 0%N | (_, x) :: t => (count_dirs x + go t)%N end in
  match e with
  | EDir c | EPhantom c => (1 + go c)%N
  | _ => 0%N
  end.

Fixpoint count_files (e : entry) : N :=
  let fix go (l : list (name * entry)) : N :=
    match l with [] => 0%N | (_, x) :: t => (count_files x + go t)%N end in
  match e with
  | EDir c | EPhantom c => go c
  | EFile _ _ => 1%N
  | _ => 0%N
  end.

Fixpoint count_links (e : entry) : N :=
  let fix go (l : list (name * entry)) : N :=
    match l with [] => 0%N | (_, x) :: t => (count_links x + go t)%N end in
  match e with
  | EDir c | EPhantom c => go c
  | ELink _ => 1%N
  | _ => 0%N
  end.

(* total size of the regular files of [x] that the content lists as files *)
Fixpoint count_bytes (x : option node) (e : entry) : N :=
  let fix go (l : list (name * entry)) : N :=
    match l with
    | [] => 0%N
    | (n, y) :: t =>
      (count_bytes (match x with Some (NDir _ c) => nlookup n c | _ => None end) y + go t)%N
    end in
  match e with
  | EDir c | EPhantom c => go c
  | EFile _ _ => match x with Some (NFile m _) => m_size m | _ => 0%N end
  | _ => 0%N
  end.

Definition content_counts (x : option node) (e : oentry) : counters :=
  match e with
  | None => cnt0
  | Some e => {| n_dirs := count_dirs e; n_files := count_files e;
                 n_links := count_links e; n_bytes := count_bytes x e |}
  end.

(* ---------- preconditions on the tree ---------- *)
(* no invalid name's escaped form equals a valid sibling name *)
Fixpoint escape_safe (x : node) : bool :=
  let fix go (l : list (name * node)) : bool :=
    match l with [] => true | (_, y) :: t => escape_safe y && go t end in
  match x with
  | NDir _ c =>
    forallb (fun ny => utf8_valid (fst ny) ||
                       negb (existsb (fun mz => utf8_valid (fst mz) && String.eqb (fst mz) (escape_name (fst ny))) c)) c
    && go c
  | _ => true
  end.

Definition scan_wf (x : node) : bool := wf_node x && escape_safe x.

(* ---------- check_C12 ---------- *)
Definition check_C12 (H : string -> string) (ign : path -> bool -> ival)
           (flt : path -> fop -> outcome) (cfg : config)
           (root : option node) (s : snapshot) : bool :=
  match root with
  | None => oentry_eqb (s_content s) None && cnt_eqb (s_cnt s) cnt0
  | Some x =>
    match x, s_content s with
    | NDir _ _, Some e | NFile _ _, Some e =>
      check_node H ign (root_opened flt) cfg (m_dev (node_meta x)) [] false x (Some e)
      && cnt_eqb (s_cnt s) (content_counts root (Some e))
      && Bool.eqb (s_preserves s) (c_preserves cfg)
    | _, _ => false
    end
  end.

(* ---------- check_C13 ---------- *)
Definition snapshot_eqb (a b : snapshot) : bool :=
  oentry_eqb (s_content a) (s_content b) && Bool.eqb (s_preserves a) (s_preserves b)
  && Bool.eqb (s_decomposes a) (s_decomposes b) && cnt_eqb (s_cnt a) (s_cnt b).

Fixpoint bindings_eqb (a b : list (path * centry)) : bool :=
  match a, b with
  | [], [] => true
  | (p, x) :: a', (q, y) :: b' => path_eqb p q && centry_eqb x y && bindings_eqb a' b'
  | _, _ => false
  end.

(* equality of digest caches as maps (canonical tries) *)
Definition cache_eqb (a b : ctree) : bool :=
  bindings_eqb (ct_flatten [] a) (ct_flatten [] b).

Definition ic_subset (a b : icache) : bool :=
  forallb (fun kv => match ic_lookup (fst (fst kv)) (snd (fst kv)) b with
                     | Some v => ival_eqb v (snd kv)
                     | None => false
                     end) a.

(* accelerated result vs fresh full result: the property speaks about the
   snapshot (the caches are compared by the correspondence bit) *)
Definition check_C13 (accel full : scan_out) : bool :=
  match accel, full with
  | SOk sa _ _, SOk sf _ _ => snapshot_eqb sa sf
  | SErr, SErr => true
  | _, _ => false
  end.
