(* Model of session selection and listing (definitions only, no proofs):
     pkg/synchronization/core/fastpath/fastpath.go   Less        -> less / lessb
     pkg/synchronization/core/conflict.go, problem.go SortConflicts / SortProblems
                                                                 -> sort_items
     pkg/synchronization/manager.go  List (truncation block)     -> sort_truncate
                                     List (creation-time order)  -> list_order
                                     findControllersBySpecification -> select_by_spec
                                     findControllersByLabelSelector -> select_by_label
                                     selectControllers + List    -> run_query
   Strings are Coq [string]s (bytes), as in Model/Entry.v, whose [path] and
   [path_ltb] (depth-first order on component lists) are reused.

   The label-selector parser is third party (vendored Kubernetes labels): a
   selector is modelled as its abstract syntax [list req]; the harness prints
   the syntax tree in the selector grammar, has the real parser parse it and
   compares the real Matches with [sel_matches]. *)
From Coq Require Import List Bool Arith String Ascii NArith.
Import ListNotations.
From Mv Require Import Model.Entry.
Open Scope string_scope.

(* ================= fastpath.Less on raw strings ================= *)
Definition is_slash (c : ascii) : bool := Ascii.eqb c "/"%char.

(* the front component and, if there is a '/', what follows it *)
Fixpoint split_slash (s : string) : string * option string :=
  match s with
  | EmptyString => (EmptyString, None)
  | String c t => if is_slash c then (EmptyString, Some t)
                  else let '(f, r) := split_slash t in (String c f, r)
  end.

(* the for loop of Less; None = out of fuel *)
Fixpoint less_loop (fuel : nat) (first second : string) : option bool :=
  match fuel with
  | O => None
  | S f =>
    let '(fa, ra) := split_slash first in
    let '(fb, rb) := split_slash second in
    if String.ltb fa fb then Some true
    else if String.ltb fb fa then Some false
    else match ra, rb with
         | None, _ => Some true
         | Some _, None => Some false
         | Some a', Some b' => less_loop f a' b'
         end
  end.

Definition less (first second : string) : option bool :=
  if String.eqb first second then Some false
  else if String.eqb first "" then Some true
  else if String.eqb second "" then Some false
  else less_loop (S (String.length first)) first second.

Definition lessb (a b : string) : bool := match less a b with Some r => r | None => false end.

(* raw path string <-> component list *)
Definition join (p : path) : string := String.concat "/" p.

(* all '/'-separated pieces: first piece, following pieces *)
Fixpoint pieces (s : string) : string * list string :=
  match s with
  | EmptyString => (EmptyString, [])
  | String c t => let '(h, tl) := pieces t in
                  if is_slash c then (EmptyString, h :: tl) else (String c h, tl)
  end.
Definition split_path (s : string) : path :=
  if String.eqb s "" then [] else let '(h, tl) := pieces s in h :: tl.

Definition no_slash (n : string) : bool := negb (existsb is_slash (list_ascii_of_string n)).
Definition comp_ok (n : string) : bool := negb (String.eqb n "") && no_slash n.
Definition path_ok (p : path) : bool := forallb comp_ok p.
(* a root-relative path string: "" or non-empty components joined by '/' *)
Definition valid_raw (s : string) : bool := path_ok (split_path s).

(* ================= sorting and truncation ================= *)
(* a conflict (root) or a problem (path) with the rest of it as a tag *)
Definition item := (string * nat)%type.

Fixpoint insert_item (x : item) (l : list item) : list item :=
  match l with
  | [] => [x]
  | y :: t => if lessb (fst y) (fst x) then y :: insert_item x t else x :: l
  end.
Definition sort_items (l : list item) : list item := fold_right insert_item [] l.

(* maximumListConflicts = maximumListScanProblems = maximumListTransitionProblems *)
Definition MAXLIST := 10.

(* the block of Manager.List: sort; if longer than the maximum, record the
   excess and cut *)
Definition sort_truncate (l : list item) : list item * nat :=
  let s := sort_items l in
  if Nat.ltb MAXLIST (List.length s) then (firstn MAXLIST s, List.length s - MAXLIST) else (s, 0).

(* ================= sessions ================= *)
Record session := { sid : string; sname : string; slabels : list (string * string); sctime : N }.

Fixpoint lookup_label (k : string) (ls : list (string * string)) : option string :=
  match ls with
  | [] => None
  | (k', v) :: t => if String.eqb k k' then Some v else lookup_label k t
  end.

(* a requirement of a label selector *)
Inductive req :=
| RExists (k : string)                    (*  k            *)
| RNotExists (k : string)                 (*  !k           *)
| REq (k v : string)                      (*  k=v   k==v   *)
| RNeq (k v : string)                     (*  k!=v         *)
| RIn (k : string) (vs : list string)     (*  k in (..)    *)
| RNotIn (k : string) (vs : list string). (*  k notin (..) *)

Definition mem (v : string) (vs : list string) : bool := existsb (String.eqb v) vs.

Definition req_sat (ls : list (string * string)) (r : req) : bool :=
  match r with
  | RExists k => match lookup_label k ls with Some _ => true | None => false end
  | RNotExists k => match lookup_label k ls with Some _ => false | None => true end
  | REq k v => match lookup_label k ls with Some x => String.eqb x v | None => false end
  | RNeq k v => match lookup_label k ls with Some x => negb (String.eqb x v) | None => true end
  | RIn k vs => match lookup_label k ls with Some x => mem x vs | None => false end
  | RNotIn k vs => match lookup_label k ls with Some x => negb (mem x vs) | None => true end
  end.
Definition sel_matches (sel : list req) (ls : list (string * string)) : bool :=
  forallb (req_sat ls) sel.

Definition spec_match (s : session) (spec : string) : bool :=
  String.eqb (sid s) spec || String.eqb (sname s) spec.

(* findControllersBySpecification: the first specification matching nothing
   is an error; otherwise the set of sessions matching some specification *)
Inductive selres := SelOk (r : list session) | SelErr (spec : option string).

Fixpoint first_unmatched (ss : list session) (specs : list string) : option string :=
  match specs with
  | [] => None
  | sp :: t => if existsb (fun s => spec_match s sp) ss then first_unmatched ss t else Some sp
  end.

Definition select_by_spec (ss : list session) (specs : list string) : selres :=
  match first_unmatched ss specs with
  | Some sp => SelErr (Some sp)
  | None => SelOk (filter (fun s => existsb (spec_match s) specs) ss)
  end.

(* findControllersByLabelSelector: None = the selector does not parse *)
Definition select_by_label (ss : list session) (sel : option (list req)) : selres :=
  match sel with
  | None => SelErr None
  | Some rs => SelOk (filter (fun s => sel_matches rs (slabels s)) ss)
  end.

(* List: ordered by creation time, oldest first *)
Fixpoint insert_session (x : session) (l : list session) : list session :=
  match l with
  | [] => [x]
  | y :: t => if N.ltb (sctime x) (sctime y) then x :: l else y :: insert_session x t
  end.
Definition list_order (l : list session) : list session := fold_right insert_session [] l.

Inductive query :=
| QAll
| QSpecs (specs : list string)
| QLabel (sel : option (list req)).

(* what List returns: the identifiers in order, or an error (naming the
   unmatched specification, if that is the reason) *)
Inductive qres := QOk (ids : list string) | QErr (spec : option string).

Definition run_query (ss : list session) (q : query) : qres :=
  let r := match q with
           | QAll => SelOk ss
           | QSpecs specs => select_by_spec ss specs
           | QLabel sel => select_by_label ss sel
           end in
  match r with
  | SelOk l => QOk (map sid (list_order l))
  | SelErr sp => QErr sp
  end.

(* ================= checkers on observed outputs ================= *)
Fixpoint strs_eqb (x y : list string) : bool :=
  match x, y with
  | [], [] => true
  | a :: x', b :: y' => String.eqb a b && strs_eqb x' y'
  | _, _ => false
  end.

Definition item_eqb (a b : item) : bool := String.eqb (fst a) (fst b) && Nat.eqb (snd a) (snd b).

(* remove one occurrence; None if absent *)
Fixpoint remove_item (x : item) (l : list item) : option (list item) :=
  match l with
  | [] => None
  | y :: t => if item_eqb x y then Some t
              else match remove_item x t with Some t' => Some (y :: t') | None => None end
  end.
Fixpoint remove_all (xs l : list item) : option (list item) :=
  match xs with
  | [] => Some l
  | x :: t => match remove_item x l with Some l' => remove_all t l' | None => None end
  end.

(* no later element is strictly before an earlier one *)
Fixpoint sorted_items (l : list item) : bool :=
  match l with
  | [] => true
  | x :: t => forallb (fun y => negb (lessb (fst y) (fst x))) t && sorted_items t
  end.

(* [out] is what a sort of [input] followed by truncation to [MAXLIST] may
   return, and [excluded] the number left out *)
Definition check_sort_truncate (input out : list item) (excluded : N) : bool :=
  let n := List.length input in
  Nat.eqb (List.length out) (Nat.min MAXLIST n)
  && N.eqb excluded (N.of_nat (n - Nat.min MAXLIST n))
  && sorted_items out
  && match remove_all out input with
     | None => false
     | Some rest =>
       (* nothing left out belongs before something kept *)
       forallb (fun e => forallb (fun o => negb (lessb (fst e) (fst o))) out) rest
     end.

(* a full sort (core.SortConflicts / core.SortProblems) *)
Definition check_sort (input out : list item) : bool :=
  sorted_items out
  && match remove_all out input with Some [] => true | _ => false end.

Fixpoint nodup_strs (l : list string) : bool :=
  match l with
  | [] => true
  | a :: t => negb (mem a t) && nodup_strs t
  end.

Definition ctime_of (ss : list session) (id : string) : N :=
  match find (fun s => String.eqb (sid s) id) ss with Some s => sctime s | None => 0%N end.

Fixpoint ctime_sorted (ss : list session) (ids : list string) : bool :=
  match ids with
  | [] => true
  | a :: t => forallb (fun b => N.leb (ctime_of ss a) (ctime_of ss b)) t && ctime_sorted ss t
  end.

(* the identifiers returned are exactly those of the sessions satisfying
   [want], each once, oldest first *)
Definition exact_ids (ss : list session) (want : session -> bool) (ids : list string) : bool :=
  nodup_strs ids
  && forallb (fun id => existsb (fun s => String.eqb (sid s) id && want s) ss) ids
  && forallb (fun s => implb (want s) (mem (sid s) ids)) ss
  && ctime_sorted ss ids.

Definition check_query (ss : list session) (q : query) (r : qres) : bool :=
  match q, r with
  | QAll, QOk ids => exact_ids ss (fun _ => true) ids
  | QSpecs specs, QOk ids =>
    (* every specification matches something *)
    forallb (fun sp => existsb (fun s => spec_match s sp) ss) specs
    && exact_ids ss (fun s => existsb (spec_match s) specs) ids
  | QSpecs specs, QErr (Some sp) =>
    (* the named specification matches nothing *)
    mem sp specs && negb (existsb (fun s => spec_match s sp) ss)
  | QLabel (Some rs), QOk ids => exact_ids ss (fun s => sel_matches rs (slabels s)) ids
  | QLabel None, QErr None => true
  | _, _ => false
  end.

Definition qres_eqb (a b : qres) : bool :=
  match a, b with
  | QOk x, QOk y => strs_eqb x y
  | QErr None, QErr None => true
  | QErr (Some x), QErr (Some y) => String.eqb x y
  | _, _ => false
  end.

(* ================= harness cases ================= *)
Inductive scase :=
(* fastpath.Less(a, b) *)
| CLess (a b : string) (r : bool)
(* core.SortConflicts / core.SortProblems on items, whole output *)
| CSort (input out : list item)
(* Manager.List on a session whose conflict / problem list was [input]:
   the list returned and the Excluded... counter *)
| CList (input out : list item) (excluded : N)
(* a Manager holding [ss]; queries answered by Manager.List; for label
   queries also the real selector's Matches on every session *)
| CSelect (ss : list session) (qs : list (query * qres))
(* selection.ParseLabelSelector(text).Matches(labels) for the selector [sel] *)
| CMatch (sel : list req) (ls : list (string * string)) (r : bool).

Fixpoint items_keys_eqb (x y : list item) : bool :=
  match x, y with
  | [], [] => true
  | a :: x', b :: y' => String.eqb (fst a) (fst b) && items_keys_eqb x' y'
  | _, _ => false
  end.

Definition sids_unique (ss : list session) : bool := nodup_strs (map sid ss).
Fixpoint keys_unique (ls : list (string * string)) : bool :=
  match ls with
  | [] => true
  | (k, _) :: t => negb (existsb (fun p => String.eqb (fst p) k) t) && keys_unique t
  end.

Definition model_agrees_c40 (c : scase) : bool :=
  match c with
  | CLess a b r => match less a b with Some m => Bool.eqb m r | None => false end
  (* the paths (not the tags: elements with equal paths may come in any order) *)
  | CSort input out => items_keys_eqb (sort_items input) out
  | CList input out ex =>
    let '(o, e) := sort_truncate input in items_keys_eqb o out && N.eqb (N.of_nat e) ex
  | CSelect ss qs => forallb (fun p : query * qres => qres_eqb (run_query ss (fst p)) (snd p)) qs
  | CMatch sel ls r => Bool.eqb (sel_matches sel ls) r
  end.

Definition check_c40 (c : scase) : bool :=
  match c with
  | CLess a b r =>
    (* on root-relative paths: the depth-first order of the component lists *)
    if valid_raw a && valid_raw b then Bool.eqb r (path_ltb (split_path a) (split_path b)) else true
  | CSort input out => check_sort input out
  | CList input out ex => check_sort_truncate input out ex
  | CSelect ss qs => forallb (fun p : query * qres => check_query ss (fst p) (snd p)) qs
  | CMatch _ _ _ => true     (* validates the selector semantics; judged by bit 1 *)
  end.

(* inputs inside the domain of the theorems: valid paths in the lists to be
   sorted, unique session identifiers, unique label keys *)
Definition in_domain_c40 (c : scase) : bool :=
  match c with
  | CLess _ _ _ => true
  | CSort input _ | CList input _ _ => forallb (fun x : item => valid_raw (fst x)) input
  | CSelect ss _ => sids_unique ss && forallb (fun s => keys_unique (slabels s)) ss
  | CMatch _ ls _ => keys_unique ls
  end.
