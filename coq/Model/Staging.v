(* Model of content-addressed staging (C10; the store part is shared with C41).
   Definitions only.
   Go: pkg/synchronization/endpoint/local/staging/store/store.go
         (Store.Contains / Path, Storage.Write / Commit),
       pkg/synchronization/endpoint/local/staging/stager.go (Sink / Provide),
       pkg/synchronization/endpoint/local/endpoint.go (stageFromRoot, the
         filtering loop of Stage),
       pkg/synchronization/rsync/receive.go (receiver.Receive / finalize),
       pkg/synchronization/rsync/engine.go (Engine.Patch),
       pkg/synchronization/core/transition.go (swapFile, createFile,
         findAndMoveStagedFileIntoPlace).

   The hash function is a Section variable [H]: nothing is assumed of it (the
   property is about the digest of what is on disk, so collisions are harmless).
   File contents are byte strings. A synchronization root is represented by its
   regular files (path |-> content); directories are implicit. *)
From Coq Require Import List Bool Arith NArith String.
Import ListNotations.
Local Open Scope string_scope.
Local Open Scope list_scope.

Definition bytes := string.     (* Go []byte / file content *)
Definition path := string.      (* root-relative path, "/"-joined *)
Definition digest := string.

Definition blen (b : bytes) : N := N.of_nat (String.length b).

(* ---------- regular files of a root ---------- *)

Definition files := list (path * bytes).

Fixpoint f_lookup (p : path) (fs : files) : option bytes :=
  match fs with
  | [] => None
  | (q, c) :: t => if String.eqb p q then Some c else f_lookup p t
  end.

Fixpoint f_remove (p : path) (fs : files) : files :=
  match fs with
  | [] => []
  | (q, c) :: t => if String.eqb p q then f_remove p t else (q, c) :: f_remove p t
  end.

Definition f_set (p : path) (c : bytes) (fs : files) : files := (p, c) :: f_remove p fs.

(* ---------- rsync signature / operation / transmission (shapes only) ---------- *)

Record sigt := { sblock : N; slast : N; snum : N }.   (* BlockSize, LastBlockSize, len(Hashes) *)
Record rop := { odata : bytes; ostart : N; ocount : nat }.   (* Operation *)
Inductive transmission := TDone | TOp (o : rop).

Section Staging.

Variable H : bytes -> digest.

(* ---------- the store: (digest, path) |-> content ---------- *)

Definition skey := (digest * path)%type.
Definition skey_eqb (a b : skey) : bool :=
  String.eqb (fst a) (fst b) && String.eqb (snd a) (snd b).

Definition store := list (skey * bytes).

Fixpoint s_lookup (k : skey) (s : store) : option bytes :=
  match s with
  | [] => None
  | (k', c) :: t => if skey_eqb k k' then Some c else s_lookup k t
  end.

Fixpoint s_remove (k : skey) (s : store) : store :=
  match s with
  | [] => []
  | (k', c) :: t => if skey_eqb k k' then s_remove k t else (k', c) :: s_remove k t
  end.

Definition s_insert (k : skey) (c : bytes) (s : store) : store := (k, c) :: s_remove k s.

(* Storage.Commit: the address is computed from the digest of WHAT WAS WRITTEN
   (hasher.Sum over the bytes that went through the hashed writer) and the
   path; an empty digest is refused and the temporary file removed; an existing
   entry at the address is replaced (rename with replace = true). *)
Definition commit (s : store) (p : path) (c : bytes) : store :=
  if String.eqb (H c) "" then s else s_insert (H c, p) c s.

(* Store.Contains (digest non-empty: the empty digest is an error, handled by
   the callers below) and Stager.Provide = Store.Path followed by the use of
   the file at that path. *)
Definition contains (s : store) (p : path) (d : digest) : bool :=
  match s_lookup (d, p) s with Some _ => true | None => false end.
Definition provide (s : store) (p : path) (d : digest) : option bytes := s_lookup (d, p) s.

(* Storage.Write through a sink: refused as a whole when it would exceed the
   maximum staging file size; nothing of a refused write is stored. *)
Definition sink_write (mxsize : N) (acc data : bytes) : bytes * bool :=
  if (mxsize - blen acc <? blen data)%N then (acc, false) else (String.append acc data, true).

(* ---------- endpoint.stageFromRoot ----------
   [src] is the result of the reverse lookup (a path the scan cache lists with
   digest [d]); the file is opened in the CURRENT root, copied into a sink for
   [p], the sink is closed (= committed under the digest of what was copied),
   and only then Contains(p, d) decides. Contents are assumed shorter than the
   io.Copy buffer (one Write). *)
Definition stage_from_root (mxsize : N) (root : files) (s : store)
           (src : option path) (p : path) (d : digest) : store * bool :=
  match src with
  | None => (s, false)
  | Some q =>
      match f_lookup q root with
      | None => (s, false)                         (* opener.OpenFile fails *)
      | Some c =>
          let '(w, ok) := sink_write mxsize "" c in
          let s' := commit s p w in                  (* sink.Close() before the error check *)
          if ok then (s', contains s' p d) else (s', false)
      end
  end.

(* The filtering loop of endpoint.Stage. [srcs] gives, per request item, the
   reverse-lookup result (None = digest not in the cache). Result: None when
   Contains fails (empty digest), else the flags "still needs data" per item. *)
Fixpoint stage_loop (mxsize : N) (root : files) (s : store)
         (req : list (path * digest)) (srcs : list (option path)) : store * option (list bool) :=
  match req with
  | [] => (s, Some [])
  | (p, d) :: t =>
      if String.eqb d "" then (s, None)              (* errDigestEmpty from Contains *)
      else if contains s p d then
        match stage_loop mxsize root s t (tl srcs) with
        | (s', Some m) => (s', Some (false :: m))
        | r => r
        end
      else
        let '(s1, ok) := stage_from_root mxsize root s (hd None srcs) p d in
        match stage_loop mxsize root s1 t (tl srcs) with
        | (s', Some m) => (s', Some (negb ok :: m))
        | r => r
        end
  end.

Fixpoint select {A} (m : list bool) (l : list A) : list A :=
  match m, l with
  | true :: m', x :: l' => x :: select m' l'
  | false :: m', _ :: l' => select m' l'
  | _, _ => []
  end.

(* ---------- Engine.Patch into a sink ---------- *)

Definition sub (b : bytes) (off len : N) : option bytes :=
  if (off + len <=? blen b)%N then Some (substring (N.to_nat off) (N.to_nat len) b) else None.

(* copy [c] blocks, the k-th of which is block number start + k; io.ReadFull
   fails when fewer bytes than the block length remain (nothing of that block
   is written); a write may be refused by the size limit *)
Fixpoint copy_blocks (mxsize : N) (acc base : bytes) (sg : sigt)
         (pos : N) (blk : N) (c : nat) : bytes * bool :=
  match c with
  | O => (acc, true)
  | S c' =>
      let len := if (blk =? (snum sg + 18446744073709551615) mod 18446744073709551616)%N
                 then slast sg else sblock sg in
      match sub base pos len with
      | None => (acc, false)
      | Some chunk =>
          let '(acc', ok) := sink_write mxsize acc chunk in
          if ok then copy_blocks mxsize acc' base sg (pos + len)%N (blk + 1)%N c' else (acc', false)
      end
  end.

Definition patch (mxsize : N) (acc base : bytes) (sg : sigt) (o : rop) : bytes * bool :=
  if (0 <? blen (odata o))%N then sink_write mxsize acc (odata o)
  else copy_blocks mxsize acc base sg (ostart o * sblock sg)%N (ostart o) (ocount o).

(* ---------- rsync.receiver ---------- *)

Record recv := {
  rpaths : list path;
  rsigs : list sigt;
  received : nat;
  finalized : bool;
  burning : bool;
  ropen : option (bytes * bytes)      (* (base content, bytes written to the sink so far) *)
}.

Definition new_recv (ps : list path) (sg : list sigt) : recv :=
  {| rpaths := ps; rsigs := sg; received := 0; finalized := false; burning := false; ropen := None |}.

Definition empty_sig : sigt := {| sblock := 0; slast := 0; snum := 0 |}.

Inductive recv_res := RvOk | RvUnexpected | RvPanic.

Definition with_open (r : recv) (o : option (bytes * bytes)) : recv :=
  {| rpaths := rpaths r; rsigs := rsigs r; received := received r; finalized := finalized r;
     burning := burning r; ropen := o |}.
Definition with_burning (r : recv) (b : bool) : recv :=
  {| rpaths := rpaths r; rsigs := rsigs r; received := received r; finalized := finalized r;
     burning := b; ropen := ropen r |}.

(* receiver.Receive. [sink_ok] : does Sinker.Sink succeed for this call (the
   fault oracle supplies it). The root is consulted for the base of a
   non-empty signature. *)
Definition receive (mxsize : N) (root : files) (sink_ok : bool)
           (s : store) (r : recv) (t : transmission) : store * recv * recv_res :=
  if finalized r then (s, r, RvPanic)
  else if Nat.eqb (received r) (List.length (rpaths r)) then (s, r, RvUnexpected)
  else
    let p := nth (received r) (rpaths r) "" in
    match t with
    | TDone =>
        let s' := match ropen r with
                  | Some (_, w) => commit s p w                    (* target.Close() *)
                  | None => if burning r then s
                            else if sink_ok then commit s p ""      (* empty file: Sink, Close *)
                            else s
                  end in
        (s', {| rpaths := rpaths r; rsigs := rsigs r; received := S (received r);
                finalized := false; burning := false; ropen := None |}, RvOk)
    | TOp o =>
        if burning r then (s, r, RvOk)
        else
          let sg := nth (received r) (rsigs r) empty_sig in
          let opened :=
            match ropen r with
            | Some bw => Some bw
            | None =>
                let base := if (sblock sg =? 0)%N then Some "" else f_lookup p root in
                match base with
                | None => None                                     (* base cannot be opened *)
                | Some b => if sink_ok then Some (b, "") else None  (* Sink fails *)
                end
            end in
          match opened with
          | None => (s, with_burning r true, RvOk)
          | Some (b, w) =>
              let '(w', ok) := patch mxsize w b sg o in
              if ok then (s, with_open r (Some (b, w')), RvOk)
              else (commit s p w', with_burning (with_open r None) true, RvOk)   (* target.Close(), burn *)
          end
    end.

(* receiver.finalize: an open target is closed, i.e. committed as it is *)
Definition finalize (s : store) (r : recv) : store * recv * bool :=
  if finalized r then (s, r, false)
  else
    let p := nth (received r) (rpaths r) "" in
    let s' := match ropen r with Some (_, w) => commit s p w | None => s end in
    (s', {| rpaths := rpaths r; rsigs := rsigs r; received := received r; finalized := true;
            burning := burning r; ropen := None |}, true).

(* ---------- core.Transition restricted to file installation ---------- *)

(* one planned file: create (iold = None: nothing may exist at the path) or
   swap (iold = Some d: a file with digest d is expected at the path) *)
Record item := { ipath : path; idigest : digest; iold : option digest }.

(* fault oracle for one item: the step before Provide fails (walk to the
   parent, validation of the existing file), the permission change of the
   staged file fails, the rename fails; each for a reason other than the
   staged file not existing *)
Inductive fault := FNone | FPre | FPerm | FRename.

Record tstate := { troot : files; tstore : store; tmissing : bool; tproblems : list path }.

Definition problem (t : tstate) (p : path) : tstate :=
  {| troot := troot t; tstore := tstore t; tmissing := tmissing t; tproblems := p :: tproblems t |}.

(* findAndMoveStagedFileIntoPlace: the file moved into the root is the one
   Provide names for (path, planned digest); if there is none the provider is
   reported as missing files *)
Definition move_into_place (t : tstate) (it : item) (f : fault) : tstate * bool :=
  match provide (tstore t) (ipath it) (idigest it) with
  | None =>
      ({| troot := troot t; tstore := tstore t; tmissing := true;
          tproblems := ipath it :: tproblems t |}, false)
  | Some c =>
      match f with
      | FPerm | FRename => (problem t (ipath it), false)
      | _ =>
          ({| troot := f_set (ipath it) c (troot t);
              tstore := s_remove (idigest it, ipath it) (tstore t);
              tmissing := tmissing t; tproblems := tproblems t |}, true)
      end
  end.

Definition install (t : tstate) (it : item) (f : fault) : tstate * bool :=
  match f with
  | FPre => (problem t (ipath it), false)
  | _ =>
      match iold it, f_lookup (ipath it) (troot t) with
      | None, None => move_into_place t it f                       (* createFile *)
      | None, Some _ =>                                            (* rename without replace onto existing content *)
          match provide (tstore t) (ipath it) (idigest it) with
          | None => ({| troot := troot t; tstore := tstore t; tmissing := true;
                        tproblems := ipath it :: tproblems t |}, false)
          | Some _ => (problem t (ipath it), false)
          end
      | Some d0, Some c0 =>
          if negb (String.eqb (H c0) d0) then (problem t (ipath it), false)   (* ensureExpectedFile *)
          else if String.eqb d0 (idigest it) then (t, true)        (* same content: permissions only *)
          else move_into_place t it f                              (* swapFile *)
      | Some _, None => (problem t (ipath it), false)
      end
  end.

Fixpoint transition (t : tstate) (plan : list item) (fs : list fault) : tstate * list bool :=
  match plan with
  | [] => (t, [])
  | it :: rest =>
      let '(t1, ok) := install t it (hd FNone fs) in
      let '(t2, oks) := transition t1 rest (tl fs) in
      (t2, ok :: oks)
  end.

(* ---------- a staging session: every way the store is written ---------- *)

Record session := { sroot : files; sstore : store; srecv : option recv }.

Inductive sop :=
| SStage (req : list (path * digest)) (srcs : list (option path)) (sigs : list sigt)
| SRecv (t : transmission) (sink_ok : bool)
| SFinal
| SEdit (p : path) (c : option bytes)                 (* external change of the root *)
| STransition (plan : list item) (fs : list fault).   (* ends with Stager.Finalize *)

Inductive sres :=
| XStage (needed : option (list path))
| XRecv (r : recv_res)
| XFinal (ok : bool)
| XEdit
| XTransition (installed : list bool) (missing : bool) (problems : list path)
| XNoReceiver.

Definition sstep (mxsize : N) (x : session) (o : sop) : session * sres :=
  match o with
  | SStage req srcs sigs =>
      match stage_loop mxsize (sroot x) (sstore x) req srcs with
      | (s', None) => ({| sroot := sroot x; sstore := s'; srecv := srecv x |}, XStage None)
      | (s', Some m) =>
          let ps := select m (map fst req) in
          ({| sroot := sroot x; sstore := s';
              srecv := match ps with [] => srecv x | _ => Some (new_recv ps sigs) end |},
           XStage (Some ps))
      end
  | SRecv t sink_ok =>
      match srecv x with
      | None => (x, XNoReceiver)
      | Some r =>
          let '(s', r', res) := receive mxsize (sroot x) sink_ok (sstore x) r t in
          ({| sroot := sroot x; sstore := s'; srecv := Some r' |}, XRecv res)
      end
  | SFinal =>
      match srecv x with
      | None => (x, XNoReceiver)
      | Some r =>
          let '(s', r', ok) := finalize (sstore x) r in
          ({| sroot := sroot x; sstore := s'; srecv := Some r' |}, XFinal ok)
      end
  | SEdit p c =>
      ({| sroot := match c with Some b => f_set p b (sroot x) | None => f_remove p (sroot x) end;
          sstore := sstore x; srecv := srecv x |}, XEdit)
  | STransition plan fs =>
      let '(t, oks) := transition {| troot := sroot x; tstore := sstore x; tmissing := false;
                                     tproblems := [] |} plan fs in
      ({| sroot := troot t; sstore := []; srecv := srecv x |},
       XTransition oks (tmissing t) (tproblems t))
  end.

Fixpoint srun (mxsize : N) (x : session) (ops : list sop) : session * list sres :=
  match ops with
  | [] => (x, [])
  | o :: t =>
      let '(x1, r) := sstep mxsize x o in
      let '(x2, rs) := srun mxsize x1 t in
      (x2, r :: rs)
  end.

(* ---------- checker for C10, applied to what the implementation did ----------
   [before] / [after]: the regular files of the root before and after a
   Transition, as re-read and re-hashed independently (contents given, [H]
   applied here); [plan]: the planned files; [missing], [nproblems]: what
   Transition reported. Every path whose file was created or replaced must
   carry a digest planned for that path; if some planned path does not hold
   a planned content afterwards, the missing-files flag or a problem must
   account for it. *)
Definition planned_digests (plan : list item) (p : path) : list digest :=
  map idigest (filter (fun it => String.eqb (ipath it) p) plan).

Definition opt_bytes_eqb (a b : option bytes) : bool :=
  match a, b with
  | Some x, Some y => String.eqb x y
  | None, None => true
  | _, _ => false
  end.

Definition check_path (before after : files) (plan : list item) (p : path) : bool :=
  match f_lookup p after with
  | None => true
  | Some c =>
      opt_bytes_eqb (f_lookup p before) (Some c)
      || existsb (String.eqb (H c)) (planned_digests plan p)
  end.

Definition item_done (after : files) (plan : list item) (it : item) : bool :=
  match f_lookup (ipath it) after with
  | Some c => existsb (String.eqb (H c)) (planned_digests plan (ipath it))
  | None => false
  end.

Definition check_C10 (before after : files) (plan : list item)
           (missing : bool) (nproblems : nat) : bool :=
  forallb (check_path before after plan) (map fst after)
  && (forallb (item_done after plan) plan || missing || negb (Nat.eqb nproblems 0)).

End Staging.
