(* Model of pkg/stream (definitions only, no proofs).

   Every writer of the package is a small state machine over a scripted
   downstream.  A downstream answers the i-th Write(p) with the i-th script
   entry (k, e): it accepts c = min k (len p) bytes and returns (c, e); with
   the script exhausted it accepts everything.  Every pair (n <= len p, err)
   is such an answer, so quantifying over all scripts is quantifying over all
   downstream behaviours on a finite run.

   Bytes are [nat] (the harness prints Go bytes as nat literals); only the
   line processor looks at byte values (LF = 10, CR = 13).

   Go file -> model:
     cutoff_writer.go       cutoff_write / cutoff_run
     line_processor.go      trim_cr, index_lf, lp_loop, lp_write / lp_run
     hashed_writer.go       hashed_run
     audit_writer.go        audit_run
     preemptable_writer.go  pre_write / pre_run
     valve_writer.go        valve_run
     multi_closer.go        mc_close
     multi_flusher.go       mf_flush
     flush_closer.go        fc_close
     concurrent_writer.go   conc_run (sequential behaviour: pass-through) *)
From Coq Require Import List Arith Bool ZArith.
Import ListNotations.

(* ---------- errors ---------- *)
Inductive err :=
| ENil
| ED (k : nat)      (* an error value produced by a downstream / closer / flusher *)
| EPre              (* stream.ErrWritePreempted *)
| EMax              (* stream.ErrMaximumBufferSizeExceeded *)
| EUnk.             (* anything else (never produced by the model) *)

Definition is_nil (e : err) : bool := match e with ENil => true | _ => false end.

Definition err_eqb (a b : err) : bool :=
  match a, b with
  | ENil, ENil | EPre, EPre | EMax, EMax | EUnk, EUnk => true
  | ED x, ED y => Nat.eqb x y
  | _, _ => false
  end.

(* ---------- the scripted downstream ---------- *)
Definition script := list (nat * err).
(* one downstream call: the bytes handed over, the count accepted, the error *)
Definition call := (list nat * nat * err)%type.
(* the result of one Write on a wrapper: count, error, downstream calls made *)
Definition wres := (nat * err * list call)%type.

Definition ds_write (s : script) (d : list nat) : script * call :=
  match s with
  | [] => ([], (d, length d, ENil))
  | (k, e) :: t => (t, (d, Nat.min k (length d), e))
  end.

(* observables derived from results *)
Definition calls_of (r : wres) : list call := snd r.
Definition all_calls (out : list wres) : list call := concat (map calls_of out).
(* the bytes the downstream accepted *)
Definition sink_of (cs : list call) : list nat :=
  concat (map (fun c : call => let '(d, n, _) := c in firstn n d) cs).
(* the bytes the wrapper reported as written: the first n of each write *)
Fixpoint acks (ws : list (list nat)) (out : list wres) : list nat :=
  match ws, out with
  | d :: ws', (n, _, _) :: out' => firstn n d ++ acks ws' out'
  | _, _ => []
  end.
(* the downstream honoured the io.Writer contract: a short write has an error *)
Definition call_ok (c : call) : bool :=
  let '(d, n, e) := c in if is_nil e then Nat.eqb n (length d) else true.
Definition contract_ok (cs : list call) : bool := forallb call_ok cs.
(* c <= len for every logged call (domain of the downstream oracle) *)
Definition call_dom (c : call) : bool := let '(d, n, _) := c in Nat.leb n (length d).

Fixpoint list_eqb (x y : list nat) : bool :=
  match x, y with
  | [], [] => true
  | a :: x', b :: y' => Nat.eqb a b && list_eqb x' y'
  | _, _ => false
  end.

Fixpoint lists_eqb (x y : list (list nat)) : bool :=
  match x, y with
  | [], [] => true
  | a :: x', b :: y' => list_eqb a b && lists_eqb x' y'
  | _, _ => false
  end.

Definition call_eqb (a b : call) : bool :=
  let '(d, n, e) := a in let '(d', n', e') := b in
  list_eqb d d' && Nat.eqb n n' && err_eqb e e'.

Fixpoint calls_eqb (x y : list call) : bool :=
  match x, y with
  | [], [] => true
  | a :: x', b :: y' => call_eqb a b && calls_eqb x' y'
  | _, _ => false
  end.

Definition wres_eqb (a b : wres) : bool :=
  let '(n, e, cs) := a in let '(n', e', cs') := b in
  Nat.eqb n n' && err_eqb e e' && calls_eqb cs cs'.

Fixpoint wress_eqb (x y : list wres) : bool :=
  match x, y with
  | [], [] => true
  | a :: x', b :: y' => wres_eqb a b && wress_eqb x' y'
  | _, _ => false
  end.

(* a write that was handed to the downstream unchanged, result returned verbatim *)
Definition passthrough (d : list nat) (r : wres) : bool :=
  let '(n, e, cs) := r in
  match cs with
  | [c] => call_eqb c (d, n, e)
  | _ => false
  end.

(* ================= cutoff writer ================= *)
(* cutoffWriter.Write: state = remaining cutoff *)
Definition cutoff_write (cut : nat) (s : script) (d : list nat) : nat * script * wres :=
  if Nat.eqb cut 0 then (cut, s, (length d, ENil, []))
  else if Nat.leb (length d) cut then
    let '(s', c) := ds_write s d in
    let '(_, n, e) := c in
    (cut - n, s', (n, e, [c]))
  else
    let '(s', c) := ds_write s (firstn cut d) in
    let '(_, n, e) := c in
    (cut - n, s', (if is_nil e then length d else n, e, [c])).

Fixpoint cutoff_run (cut : nat) (s : script) (ws : list (list nat)) : list wres :=
  match ws with
  | [] => []
  | d :: ws' => let '(cut', s', r) := cutoff_write cut s d in r :: cutoff_run cut' s' ws'
  end.

(* The property on observed results, as a checker: [rem] is the number of
   bytes of the first N that have not yet been accepted downstream. *)
Definition check_cutoff_write (rem : nat) (d : list nat) (r : wres) : bool :=
  let '(n, e, cs) := r in
  let sunk := sink_of cs in
  (* what reached the downstream is the beginning of this write, within budget *)
  list_eqb sunk (firstn (length sunk) d) && Nat.leb (length sunk) rem
  && forallb (fun c : call => let '(dd, _, _) := c in Nat.leb (length dd) rem) cs
  && Nat.leb n (length d)
  (* past the cutoff: all bytes reported written, successfully *)
  && (if Nat.eqb rem 0 then Nat.eqb n (length d) && is_nil e else true)
  (* with a downstream that honours the Write contract: exactly the first
     [rem] of the bytes reported written went through, and success means the
     whole write is reported *)
  && (if contract_ok cs
      then list_eqb sunk (firstn rem (firstn n d))
           && (if is_nil e then Nat.eqb n (length d) else true)
      else true).

Fixpoint check_cutoff (rem : nat) (ws : list (list nat)) (out : list wres) : bool :=
  match ws, out with
  | [], [] => true
  | d :: ws', r :: out' =>
    check_cutoff_write rem d r && check_cutoff (rem - length (sink_of (calls_of r))) ws' out'
  | _, _ => false
  end.

(* ================= line processor ================= *)
Definition LF := 10.
Definition CR := 13.

(* trimCarriageReturn *)
Definition trim_cr (l : list nat) : list nat :=
  if Nat.eqb (last l 0) CR then removelast l else l.

(* bytes.IndexByte(l, '\n') *)
Fixpoint index_lf (l : list nat) : option nat :=
  match l with
  | [] => None
  | b :: t => if Nat.eqb b LF then Some 0
              else match index_lf t with Some i => Some (S i) | None => None end
  end.

(* the for loop of LineProcessor.Write; None = out of fuel *)
Fixpoint lp_loop (fuel : nat) (remaining : list nat) (cbs : list (list nat)) (processed : nat)
  : option (list (list nat) * nat) :=
  match index_lf remaining with
  | None => Some (cbs, processed)
  | Some i =>
    match fuel with
    | O => None
    | S f => lp_loop f (skipn (i + 1) remaining) (cbs ++ [trim_cr (firstn i remaining)])
                     (processed + (i + 1))
    end
  end.

(* the size test at the top of Write: MaximumBufferSize 0 = 64 KiB, < 0 = none *)
Definition lp_over (max : Z) (total : nat) : bool :=
  if Z.eqb max 0 then Z.ltb 65536 (Z.of_nat total)
  else if Z.ltb 0 max then Z.ltb max (Z.of_nat total)
  else false.

(* result of one LineProcessor.Write: count, error, callbacks made *)
Definition lres := (nat * err * list (list nat))%type.
Inductive lout := LOut (r : list lres) | LFuel.

(* LineProcessor.Write: state = buffer; None = out of fuel *)
Definition lp_write (max : Z) (buf d : list nat) : option (list nat * lres) :=
  if lp_over max (length buf + length d) then Some (buf, (0, EMax, []))
  else
    let buf' := buf ++ d in
    match lp_loop (S (length buf')) buf' [] 0 with
    | None => None
    | Some (cbs, processed) =>
      Some (if Nat.ltb 0 processed then skipn processed buf' else buf', (length d, ENil, cbs))
    end.

Fixpoint lp_run_aux (max : Z) (buf : list nat) (ws : list (list nat)) : option (list lres) :=
  match ws with
  | [] => Some []
  | d :: ws' =>
    match lp_write max buf d with
    | None => None
    | Some (buf', r) =>
      match lp_run_aux max buf' ws' with
      | None => None
      | Some rs => Some (r :: rs)
      end
    end
  end.

Definition lp_run (max : Z) (ws : list (list nat)) : lout :=
  match lp_run_aux max [] ws with Some r => LOut r | None => LFuel end.

(* --- specification: the stream cut at LF --- *)
(* [segs d] = (s0, [s1; ...; sk]) where d = s0 LF s1 LF ... LF sk and no si
   contains LF: s0 .. s(k-1) are the complete lines, sk is the unfinished rest *)
Fixpoint segs (d : list nat) : list nat * list (list nat) :=
  match d with
  | [] => ([], [])
  | b :: t => let '(h, tl) := segs t in
              if Nat.eqb b LF then ([], h :: tl) else (b :: h, tl)
  end.
Definition complete_lines (d : list nat) : list (list nat) :=
  let '(h, tl) := segs d in removelast (h :: tl).
Definition unfinished (d : list nat) : list nat :=
  let '(h, tl) := segs d in last (h :: tl) [].
Definition count_lf (d : list nat) : nat := length (filter (Nat.eqb LF) d).
Definition no_lf (l : list nat) : Prop := ~ In LF l.
(* the inverse of cutting: lines re-joined with LF, then the rest *)
Definition join_lines (ls : list (list nat)) (rest : list nat) : list nat :=
  concat (map (fun l => l ++ [LF]) ls) ++ rest.

(* the writes that were accepted (returned no error) *)
Fixpoint accepted (ws : list (list nat)) (out : list lres) : list nat :=
  match ws, out with
  | d :: ws', (_, e, _) :: out' => (if is_nil e then d else []) ++ accepted ws' out'
  | _, _ => []
  end.

(* per-write conditions: [rem] = the unfinished rest buffered so far *)
Fixpoint check_lp_writes (max : Z) (rem : list nat) (ws : list (list nat)) (out : list lres) : bool :=
  match ws, out with
  | [], [] => true
  | d :: ws', (n, e, cbs) :: out' =>
    if lp_over max (length rem + length d)
    then (* the size cap: refused, nothing delivered, nothing buffered *)
      Nat.eqb n 0 && err_eqb e EMax && Nat.eqb (length cbs) 0
      && check_lp_writes max rem ws' out'
    else
      Nat.eqb n (length d) && is_nil e
      (* the write delivers exactly the lines it completes *)
      && lists_eqb cbs (map trim_cr (complete_lines (rem ++ d)))
      && check_lp_writes max (unfinished (rem ++ d)) ws' out'
  | _, _ => false
  end.

Definition check_lp (max : Z) (ws : list (list nat)) (o : lout) : bool :=
  match o with
  | LFuel => false
  | LOut out => check_lp_writes max [] ws out
  end.

(* the same as a Prop: [before] = the stream accepted so far *)
Fixpoint lp_writes_prop (max : Z) (before : list nat) (ws : list (list nat)) (out : list lres) : Prop :=
  match ws, out with
  | [], [] => True
  | d :: ws', (n, e, cbs) :: out' =>
    if lp_over max (length (unfinished before) + length d)
    then n = 0 /\ e = EMax /\ cbs = [] /\ lp_writes_prop max before ws' out'
    else n = length d /\ e = ENil
         /\ cbs = map trim_cr (complete_lines (unfinished before ++ d))
         /\ lp_writes_prop max (before ++ d) ws' out'
  | _, _ => False
  end.

Definition lp_prop (max : Z) (ws : list (list nat)) (out : list lres) : Prop :=
  (* per write: the cap, and exactly the lines the write completes *)
  lp_writes_prop max [] ws out
  (* over the whole run: the callbacks are the complete lines of the accepted
     stream, CR-trimmed; the stream is those lines re-joined plus a rest that
     has no LF and has produced no callback *)
  /\ concat (map (fun r : lres => snd r) out) = map trim_cr (complete_lines (accepted ws out))
  /\ accepted ws out = join_lines (complete_lines (accepted ws out)) (unfinished (accepted ws out))
  /\ Forall no_lf (complete_lines (accepted ws out))
  /\ no_lf (unfinished (accepted ws out)).

Definition lres_eqb (a b : lres) : bool :=
  let '(n, e, c) := a in let '(n', e', c') := b in
  Nat.eqb n n' && err_eqb e e' && lists_eqb c c'.
Fixpoint lress_eqb (x y : list lres) : bool :=
  match x, y with
  | [], [] => true
  | a :: x', b :: y' => lres_eqb a b && lress_eqb x' y'
  | _, _ => false
  end.
Definition lout_eqb (a b : lout) : bool :=
  match a, b with
  | LOut x, LOut y => lress_eqb x y
  | LFuel, LFuel => true
  | _, _ => false
  end.

(* ================= hashed writer / audit writer ================= *)
(* hashedWriter.Write: the hasher's input grows by data[:n] *)
Fixpoint hashed_run (s : script) (ws : list (list nat)) : list wres * list nat :=
  match ws with
  | [] => ([], [])
  | d :: ws' =>
    let '(s', c) := ds_write s d in
    let '(_, n, e) := c in
    let '(rs, h) := hashed_run s' ws' in
    ((n, e, [c]) :: rs, firstn n d ++ h)
  end.

Fixpoint all_passthrough (ws : list (list nat)) (out : list wres) : bool :=
  match ws, out with
  | [], [] => true
  | d :: ws', r :: out' => passthrough d r && all_passthrough ws' out'
  | _, _ => false
  end.

(* digest input = what the downstream accepted = the acknowledged prefixes *)
Definition check_hashed (ws : list (list nat)) (out : list wres) (hin : list nat) : bool :=
  all_passthrough ws out && list_eqb hin (sink_of (all_calls out)) && list_eqb hin (acks ws out).

(* auditWriter.Write: the auditor sees the count of every write *)
Fixpoint audit_run (s : script) (ws : list (list nat)) : list wres * list nat :=
  match ws with
  | [] => ([], [])
  | d :: ws' =>
    let '(s', c) := ds_write s d in
    let '(_, n, e) := c in
    let '(rs, a) := audit_run s' ws' in
    ((n, e, [c]) :: rs, n :: a)
  end.

Definition check_audit (ws : list (list nat)) (out : list wres) (au : list nat) : bool :=
  all_passthrough ws out && list_eqb au (map (fun r : wres => fst (fst r)) out).

(* concurrentWriter.Write, one goroutine: pass-through *)
Fixpoint conc_run (s : script) (ws : list (list nat)) : list wres :=
  match ws with
  | [] => []
  | d :: ws' =>
    let '(s', c) := ds_write s d in
    let '(_, n, e) := c in
    (n, e, [c]) :: conc_run s' ws'
  end.

(* ================= preemptable writer ================= *)
Inductive pop := PW (d : list nat) | PCancel.   (* a Write, or the channel gets closed *)

(* preemptableWriter.Write: state = writeCount; [cancelled] = channel closed *)
Definition pre_write (interval count : nat) (cancelled : bool) (s : script) (d : list nat)
  : nat * script * wres :=
  if Nat.eqb count interval then
    if cancelled then (count, s, (0, EPre, []))
    else let '(s', c) := ds_write s d in let '(_, n, e) := c in (0, s', (n, e, [c]))
  else let '(s', c) := ds_write s d in let '(_, n, e) := c in (S count, s', (n, e, [c])).

Fixpoint pre_run (interval count : nat) (cancelled : bool) (s : script) (ops : list pop)
  : list wres :=
  match ops with
  | [] => []
  | PCancel :: t => pre_run interval count true s t
  | PW d :: t =>
    let '(count', s', r) := pre_write interval count cancelled s d in
    r :: pre_run interval count' cancelled s' t
  end.

Definition preempted (r : wres) : bool :=
  let '(n, e, cs) := r in Nat.eqb n 0 && err_eqb e EPre && Nat.eqb (length cs) 0.

(* [budget] = None before cancellation, Some k after it: k more writes may pass;
   [stopped] = a write has been preempted *)
Fixpoint check_pre (interval : nat) (budget : option nat) (stopped : bool)
         (ops : list pop) (out : list wres) : bool :=
  match ops with
  | [] => match out with [] => true | _ => false end
  | PCancel :: t =>
    check_pre interval (match budget with None => Some interval | b => b end) stopped t out
  | PW d :: t =>
    match out with
    | [] => false
    | r :: out' =>
      if preempted r then
        (* preemption only after cancellation *)
        match budget with None => false | Some _ => check_pre interval budget true t out' end
      else
        passthrough d r && negb stopped
        && match budget with
           | None => check_pre interval None stopped t out'
           | Some O => false
           | Some (S k) => check_pre interval (Some k) stopped t out'
           end
    end
  end.

(* ================= valve writer ================= *)
Inductive vop := VW (d : list nat) | VShut.

(* ValveWriter.Write / Shut: state = writer is non-nil *)
Fixpoint valve_run (open : bool) (s : script) (ops : list vop) : list wres :=
  match ops with
  | [] => []
  | VShut :: t => valve_run false s t
  | VW d :: t =>
    if open then
      let '(s', c) := ds_write s d in let '(_, n, e) := c in (n, e, [c]) :: valve_run open s' t
    else (length d, ENil, []) :: valve_run open s t
  end.

Fixpoint check_valve (open : bool) (ops : list vop) (out : list wres) : bool :=
  match ops with
  | [] => match out with [] => true | _ => false end
  | VShut :: t => check_valve false t out
  | VW d :: t =>
    match out with
    | [] => false
    | r :: out' =>
      (if open then passthrough d r
       else let '(n, e, cs) := r in Nat.eqb n (length d) && is_nil e && Nat.eqb (length cs) 0)
      && check_valve open t out'
    end
  end.

(* ================= multi closer / multi flusher / flush closer ================= *)
(* a closer (flusher) is the error its Close (Flush) returns; the log lists
   the positions called, in call order *)
Fixpoint mc_loop (i : nat) (cl : list err) (first : err) : list nat * err :=
  match cl with
  | [] => ([], first)
  | e :: t =>
    let first' := if negb (is_nil e) && is_nil first then e else first in
    let '(log, r) := mc_loop (S i) t first' in (i :: log, r)
  end.
Definition mc_close (cl : list err) : list nat * err := mc_loop 0 cl ENil.

Fixpoint first_error (l : list err) : err :=
  match l with
  | [] => ENil
  | e :: t => if is_nil e then first_error t else e
  end.

Definition check_mc (cl : list err) (log : list nat) (ret : err) : bool :=
  list_eqb log (seq 0 (length cl)) && err_eqb ret (first_error cl).

Fixpoint mf_loop (i : nat) (fl : list err) : list nat * err :=
  match fl with
  | [] => ([], ENil)
  | e :: t => if is_nil e then let '(log, r) := mf_loop (S i) t in (i :: log, r)
              else ([i], e)
  end.
Definition mf_flush (fl : list err) : list nat * err := mf_loop 0 fl.

(* number of flushers up to and including the first failing one *)
Fixpoint flushed_count (l : list err) : nat :=
  match l with
  | [] => 0
  | e :: t => if is_nil e then S (flushed_count t) else 1
  end.

Definition check_mf (fl : list err) (log : list nat) (ret : err) : bool :=
  list_eqb log (seq 0 (flushed_count fl)) && err_eqb ret (first_error fl).

(* flushCloser.Close = one Flush, its error returned *)
Definition fc_close (e : err) : nat * err := (1, e).
Definition check_fc (e : err) (nflush : nat) (ret : err) : bool :=
  Nat.eqb nflush 1 && err_eqb ret e.

(* ================= the properties as Props ================= *)
Definition discarded (d : list nat) (r : wres) : Prop := r = (length d, ENil, []).

Definition cutoff_prop (N : nat) (ws : list (list nat)) (out : list wres) : Prop :=
  length out = length ws
  (* never more than N bytes reach the downstream *)
  /\ length (sink_of (all_calls out)) <= N
  (* downstream honouring the Write contract: it received exactly the first N
     of the bytes reported written *)
  /\ (contract_ok (all_calls out) = true ->
      sink_of (all_calls out) = firstn N (acks ws out))
  (* once N bytes went through, every write is reported fully written and
     nothing more reaches the downstream *)
  /\ (forall i d r, nth_error ws i = Some d -> nth_error out i = Some r ->
        length (sink_of (all_calls (firstn i out))) = N ->
        fst (fst r) = length d /\ snd (fst r) = ENil /\ sink_of (calls_of r) = [])
  (* a successful write on a contract-honouring downstream reports all its bytes *)
  /\ (forall i d r, nth_error ws i = Some d -> nth_error out i = Some r ->
        contract_ok (calls_of r) = true -> snd (fst r) = ENil -> fst (fst r) = length d).

Definition hashed_prop (ws : list (list nat)) (out : list wres) (hin : list nat) : Prop :=
  all_passthrough ws out = true
  /\ hin = sink_of (all_calls out) /\ hin = acks ws out.

Definition audit_prop (ws : list (list nat)) (out : list wres) (au : list nat) : Prop :=
  all_passthrough ws out = true /\ au = map (fun r : wres => fst (fst r)) out.

Fixpoint pwrites (ops : list pop) : list (list nat) :=
  match ops with [] => [] | PW d :: t => d :: pwrites t | PCancel :: t => pwrites t end.
Fixpoint vwrites (ops : list vop) : list (list nat) :=
  match ops with [] => [] | VW d :: t => d :: vwrites t | VShut :: t => vwrites t end.

(* results [out] of the writes [ws]: the first [length p] pass through, the
   others are refused with ErrWritePreempted without touching the downstream *)
Definition pass_then_stop (k : nat) (ws : list (list nat)) (out : list wres) : Prop :=
  exists p q, out = p ++ q /\ length p <= k
    /\ all_passthrough (firstn (length p) ws) p = true
    /\ Forall (fun r => r = (0, EPre, [])) q
    /\ length out = length ws.

Definition pre_prop (interval : nat) (ops : list pop) (out : list wres) : Prop :=
  (* never cancelled: plain pass-through *)
  (~ In PCancel ops -> all_passthrough (pwrites ops) out = true)
  (* cancelled after the writes of [before]: those pass through; of the later
     ones at most [interval] pass, all the following are preempted *)
  /\ (forall before after, ops = before ++ PCancel :: after -> ~ In PCancel before ->
       exists ob oa, out = ob ++ oa
         /\ all_passthrough (pwrites before) ob = true
         /\ pass_then_stop interval (pwrites after) oa).

Definition valve_prop (open : bool) (ops : list vop) (out : list wres) : Prop :=
  (open = true -> ~ In VShut ops -> all_passthrough (vwrites ops) out = true)
  /\ (open = false -> Forall2 discarded (vwrites ops) out)
  /\ (forall before after, open = true -> ops = before ++ VShut :: after -> ~ In VShut before ->
       exists ob oa, out = ob ++ oa
         /\ all_passthrough (vwrites before) ob = true
         /\ Forall2 discarded (vwrites after) oa).

Definition mc_prop (cl : list err) (log : list nat) (ret : err) : Prop :=
  (* every closer closed exactly once, in the order given *)
  log = seq 0 (length cl)
  (* the first error, if any, is returned *)
  /\ ((Forall (fun e => e = ENil) cl /\ ret = ENil)
      \/ (exists pre post, cl = pre ++ ret :: post /\ Forall (fun e => e = ENil) pre /\ ret <> ENil)).

Definition mf_prop (fl : list err) (log : list nat) (ret : err) : Prop :=
  (* all succeed: all flushed; otherwise flushing stops at the first failure *)
  (Forall (fun e => e = ENil) fl /\ ret = ENil /\ log = seq 0 (length fl))
  \/ (exists pre post, fl = pre ++ ret :: post /\ Forall (fun e => e = ENil) pre /\ ret <> ENil
        /\ log = seq 0 (S (length pre))).

(* ================= the valve under concurrency ================= *)
(* ValveWriter.Write and ValveWriter.Shut run by several goroutines, as a
   transition system at the level of the mutex:
     Write:  Lock; if writer == nil { Unlock; return }  else
             (the underlying Write begins ... ends); Unlock; return
     Shut:   Lock; writer = nil; Unlock; return
   A schedule is a list of thread indices; a thread that waits for the lock
   does not move.  The events are what an observer outside the valve can see:
   an underlying Write beginning / ending, and a Shut returning. *)
Inductive wpc :=
| W0    (* before Lock *)
| W1    (* holds the lock, before the nil test *)
| W2    (* writer was non-nil: about to call the underlying Write *)
| W3    (* the underlying Write is in flight *)
| W4    (* the underlying Write returned; before Unlock *)
| W5    (* writer was nil; before Unlock *)
| WDone.
Inductive spc :=
| S0    (* before Lock *)
| S1    (* holds the lock *)
| S2    (* writer = nil done; before Unlock *)
| SDone.
Inductive thread := TW (pc : wpc) | TS (pc : spc).

Inductive event :=
| EvFwdBegin (t : nat)    (* the underlying Write is entered *)
| EvFwdEnd (t : nat)      (* the underlying Write is about to return *)
| EvShutRet (t : nat).    (* Shut has returned *)

Record cstate := { clock : bool;            (* the mutex is held *)
                   copen : bool;            (* writer != nil *)
                   cths : list thread;
                   cevs : list event }.     (* oldest first *)

Definition upd (i : nat) (t : thread) (l : list thread) : list thread :=
  firstn i l ++ t :: skipn (S i) l.

Definition cstep (s : cstate) (i : nat) : cstate :=
  let set t := upd i t (cths s) in
  match nth_error (cths s) i with
  | None => s
  | Some (TW W0) =>
    if clock s then s
    else {| clock := true; copen := copen s; cths := set (TW W1); cevs := cevs s |}
  | Some (TW W1) =>
    {| clock := clock s; copen := copen s;
       cths := set (TW (if copen s then W2 else W5)); cevs := cevs s |}
  | Some (TW W2) =>
    {| clock := clock s; copen := copen s; cths := set (TW W3); cevs := cevs s ++ [EvFwdBegin i] |}
  | Some (TW W3) =>
    {| clock := clock s; copen := copen s; cths := set (TW W4); cevs := cevs s ++ [EvFwdEnd i] |}
  | Some (TW W4) | Some (TW W5) =>
    {| clock := false; copen := copen s; cths := set (TW WDone); cevs := cevs s |}
  | Some (TW WDone) => s
  | Some (TS S0) =>
    if clock s then s
    else {| clock := true; copen := copen s; cths := set (TS S1); cevs := cevs s |}
  | Some (TS S1) =>
    {| clock := clock s; copen := false; cths := set (TS S2); cevs := cevs s |}
  | Some (TS S2) =>
    {| clock := false; copen := copen s; cths := set (TS SDone); cevs := cevs s ++ [EvShutRet i] |}
  | Some (TS SDone) => s
  end.

Definition crun (s : cstate) (sched : list nat) : cstate := fold_left cstep sched s.

(* [nw] writers and [ns] shutters, nobody has started; the valve is open *)
Definition cinit (open : bool) (nw ns : nat) : cstate :=
  {| clock := false; copen := open;
     cths := repeat (TW W0) nw ++ repeat (TS S0) ns; cevs := [] |}.

(* the contract on an observed event sequence, scanned oldest first with
   (a Shut has returned, number of underlying Writes in flight): once a Shut
   has returned no underlying Write begins or is still running *)
Definition ok_step (st : option (bool * nat)) (e : event) : option (bool * nat) :=
  match st with
  | None => None
  | Some (sr, k) =>
    match e with
    | EvFwdBegin _ => if sr then None else Some (sr, S k)
    | EvFwdEnd _ => if sr then None else match k with O => None | S k' => Some (sr, k') end
    | EvShutRet _ => match k with O => Some (true, 0) | S _ => None end
    end
  end.
Definition trace_ok (tr : list event) : bool :=
  match fold_left ok_step tr (Some (false, 0)) with Some _ => true | None => false end.

(* what the model can produce: in addition, underlying Writes never overlap *)
Definition serial_step (st : option (bool * nat)) (e : event) : option (bool * nat) :=
  match st, e with
  | Some (_, S _), EvFwdBegin _ => None
  | _, _ => ok_step st e
  end.
Definition trace_serial (tr : list event) : bool :=
  match fold_left serial_step tr (Some (false, 0)) with Some _ => true | None => false end.

Definition is_fwd_begin (e : event) : bool := match e with EvFwdBegin _ => true | _ => false end.
Definition is_fwd_end (e : event) : bool := match e with EvFwdEnd _ => true | _ => false end.
Definition is_shut_ret (e : event) : bool := match e with EvShutRet _ => true | _ => false end.

(* the same contract as a Prop: whenever a Shut returns, every underlying
   Write that began has ended, and afterwards none begins or ends *)
Definition trace_safe (tr : list event) : Prop :=
  forall pre t post, tr = pre ++ EvShutRet t :: post ->
    length (filter is_fwd_begin pre) = length (filter is_fwd_end pre)
    /\ Forall (fun e => is_shut_ret e = true) post.

(* ================= one case type for the harness ================= *)
Inductive wcase :=
| CCutoff (n : nat) (ws : list (list nat)) (s : script) (out : list wres)
| CLine (max : Z) (ws : list (list nat)) (out : lout)
| CHash (ws : list (list nat)) (s : script) (out : list wres) (hin : list nat) (digest_ok : bool)
| CAudit (ws : list (list nat)) (s : script) (out : list wres) (au : list nat)
| CConc (ws : list (list nat)) (s : script) (out : list wres)
| CPre (interval : nat) (ops : list pop) (s : script) (out : list wres)
| CValve (open : bool) (ops : list vop) (s : script) (out : list wres)
(* goroutines on one valve, some blocked inside the underlying writer while
   Shut is called: the events in the order observed *)
| CValveC (nw ns : nat) (tr : list event)
| CMc (cl : list err) (log : list nat) (ret : err)
| CMf (fl : list err) (log : list nat) (ret : err)
| CFc (e : err) (nflush : nat) (ret : err).

(* the implementation's output equals the model's output *)
Definition model_agrees (c : wcase) : bool :=
  match c with
  | CCutoff n ws s out => wress_eqb (cutoff_run n s ws) out
  | CLine max ws out => lout_eqb (lp_run max ws) out
  | CHash ws s out hin ok =>
    let '(o, h) := hashed_run s ws in wress_eqb o out && list_eqb h hin && ok
  | CAudit ws s out au =>
    let '(o, a) := audit_run s ws in wress_eqb o out && list_eqb a au
  | CConc ws s out => wress_eqb (conc_run s ws) out
  | CPre i ops s out => wress_eqb (pre_run i 0 false s ops) out
  | CValve open ops s out => wress_eqb (valve_run open s ops) out
  | CValveC _ _ tr => trace_serial tr
  | CMc cl log ret => let '(l, r) := mc_close cl in list_eqb l log && err_eqb r ret
  | CMf fl log ret => let '(l, r) := mf_flush fl in list_eqb l log && err_eqb r ret
  | CFc e n ret => let '(k, r) := fc_close e in Nat.eqb k n && err_eqb r ret
  end.

(* the implementation's output satisfies the property *)
Definition check_c47 (c : wcase) : bool :=
  match c with
  | CCutoff n ws s out => check_cutoff n ws out
  | CLine max ws out => check_lp max ws out
  | CHash ws s out hin ok => check_hashed ws out hin && ok
  | CAudit ws s out au => check_audit ws out au
  | CConc ws s out => all_passthrough ws out
  | CPre i ops s out => check_pre i None false ops out
  | CValve open ops s out => check_valve open ops out
  | CValveC _ _ tr => trace_ok tr
  | CMc cl log ret => check_mc cl log ret
  | CMf fl log ret => check_mf fl log ret
  | CFc e n ret => check_fc e n ret
  end.

Definition c47_prop (c : wcase) : Prop :=
  match c with
  | CCutoff n ws s out => cutoff_prop n ws out
  | CLine max ws out => exists o, out = LOut o /\ lp_prop max ws o
  | CHash ws s out hin ok => hashed_prop ws out hin /\ ok = true
  | CAudit ws s out au => audit_prop ws out au
  | CConc ws s out => all_passthrough ws out = true
  | CPre i ops s out => pre_prop i ops out
  | CValve open ops s out => valve_prop open ops out
  | CValveC _ _ tr => trace_safe tr
  | CMc cl log ret => mc_prop cl log ret
  | CMf fl log ret => mf_prop fl log ret
  | CFc e n ret => n = 1 /\ ret = e
  end.

(* the logged downstream calls are within the oracle's domain (c <= len) *)
Definition in_domain (c : wcase) : bool :=
  match c with
  | CCutoff _ _ _ out | CHash _ _ out _ _ | CAudit _ _ out _ | CConc _ _ out
  | CPre _ _ _ out | CValve _ _ _ out => forallb call_dom (all_calls out)
  | _ => true
  end.
