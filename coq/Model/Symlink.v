(* Model of pkg/synchronization/core/symbolic_link.go (POSIX build) and of the
   two call sites that decide whether a link is synchronized
   (scan.go: scanner.symbolicLink, transition.go: createSymbolicLink), plus
   the specification C16 is about: POSIX lexical resolution of a relative
   link target. Definitions only.

   A Go string is a [list byte]. The boolean [fixed] selects between the code
   as it is in the repository (fixed = false: an empty path component is
   counted like a name) and the proposed repair (fixed = true: an empty
   component leaves the depth unchanged). *)
From Coq Require Import List Bool Arith ZArith String.
From Coq.Strings Require Import Byte.
Import ListNotations.
From Mv Require Import Common.Str.
Open Scope Z_scope.

(* ---------------------------------------------------------------- *)
(* The code                                                          *)

Inductive sl_err :=
| ErrEmpty       (* "target empty" *)
| ErrTooLong     (* "target too long" *)
| ErrColon       (* "colon in target (absolute or unsupported path)" *)
| ErrBackslash   (* "backslash in target" *)
| ErrAbsolute    (* "target is absolute" *)
| ErrOutside.    (* "target references location outside synchronization root" *)

Definition sl_err_eqb (a b : sl_err) : bool :=
  match a, b with
  | ErrEmpty, ErrEmpty | ErrTooLong, ErrTooLong | ErrColon, ErrColon
  | ErrBackslash, ErrBackslash | ErrAbsolute, ErrAbsolute
  | ErrOutside, ErrOutside => true
  | _, _ => false
  end.

Inductive comp_kind := CEmpty | CDot | CDotDot | CName.

Definition classify (c : str) : comp_kind :=
  match c with
  | [] => CEmpty
  | [x] => if Byte.eqb x c_dot then CDot else CName
  | [x; y] => if Byte.eqb x c_dot && Byte.eqb y c_dot then CDotDot else CName
  | _ => CName
  end.

(* maximumPortableSymbolicLinkTargetLength *)
Definition max_target_length : nat := 247.

(* the body of the component loop: "." keeps, ".." decrements, everything
   else increments -- in the repository "everything else" includes the empty
   component *)
Definition code_step (fixed : bool) (d : Z) (c : str) : Z :=
  match classify c with
  | CDot => d
  | CDotDot => d - 1
  | CEmpty => if fixed then d else d + 1
  | CName => d + 1
  end.

(* for _, component := range strings.Split(target, "/") { ...; if pathDepth < 0 { return error } } *)
Fixpoint code_walk (fixed : bool) (d : Z) (cs : list str) : bool :=
  match cs with
  | [] => true
  | c :: t =>
      let d' := code_step fixed d c in
      if d' <? 0 then false else code_walk fixed d' t
  end.

(* pathDepth := strings.Count(path, "/") *)
Definition path_depth (path : str) : Z := Z.of_nat (count c_slash path).

(* normalizeSymbolicLinkAndEnsurePortable(path, target), runtime.GOOS != "windows" *)
Definition normalize_portable (fixed : bool) (path target : str) : sl_err + str :=
  match target with
  | [] => inl ErrEmpty
  | c0 :: _ =>
      if Nat.ltb max_target_length (List.length target) then inl ErrTooLong
      else if contains c_colon target then inl ErrColon
      else if contains c_bslash target then inl ErrBackslash
      else if Byte.eqb c0 c_slash then inl ErrAbsolute
      else if code_walk fixed (path_depth path) (split_on c_slash target)
           then inr target
           else inl ErrOutside
  end.

(* scan.go, scanner.symbolicLink after the target has been read: the entry
   that represents the link. *)
Inductive link_entry :=
| LESymbolicLink (target : str)       (* EntryKind_SymbolicLink *)
| LEProblematic.                      (* EntryKind_Problematic  *)

Definition scan_link (fixed enforce_portable : bool) (path target : str) : link_entry :=
  if enforce_portable then
    match normalize_portable fixed path target with
    | inr t => LESymbolicLink t
    | inl _ => LEProblematic
    end
  else match target with
       | [] => LEProblematic
       | _ => LESymbolicLink target
       end.

(* transition.go, createSymbolicLink: is the link created at all? *)
Inductive sl_mode := SLIgnore | SLPortable | SLPosixRaw.

Definition create_allowed (fixed : bool) (mode : sl_mode) (path target : str) : bool :=
  match mode with
  | SLIgnore => false
  | SLPortable =>
      match normalize_portable fixed path target with
      | inr t => str_eqb t target
      | inl _ => false
      end
  | SLPosixRaw => true
  end.

(* transition.go, create / createDirectory: creation of a whole entry tree at
   [path]. A directory's contents are created one by one at
   fastpath.Joinable(path) + name; nested directories recurse through
   createDirectory, nested links go through createSymbolicLink -- the same
   function, hence the same rule, as a link that is itself the root of the
   transition. (Files are irrelevant here and left out; filesystem operations
   are taken to succeed.) *)
Inductive ctree :=
| CLink (target : str)
| CDir (children : list (str * ctree)).

Definition join_path (path name : str) : str :=
  match path with [] => name | _ => path ++ c_slash :: name end.

(* every link of the tree with the root-relative path it is created at *)
Fixpoint links_of (path : str) (t : ctree) {struct t} : list (str * str) :=
  match t with
  | CLink target => [(path, target)]
  | CDir cs =>
      (fix go (l : list (str * ctree)) : list (str * str) :=
         match l with
         | [] => []
         | (n, c) :: r => links_of (join_path path n) c ++ go r
         end) cs
  end.

(* the links that exist after create(path, t), and the paths for which a
   problem is recorded instead *)
Fixpoint created_links (fixed : bool) (mode : sl_mode) (path : str) (t : ctree) {struct t}
  : list (str * str) :=
  match t with
  | CLink target => if create_allowed fixed mode path target then [(path, target)] else []
  | CDir cs =>
      (fix go (l : list (str * ctree)) : list (str * str) :=
         match l with
         | [] => []
         | (n, c) :: r => created_links fixed mode (join_path path n) c ++ go r
         end) cs
  end.

Fixpoint link_problems (fixed : bool) (mode : sl_mode) (path : str) (t : ctree) {struct t}
  : list str :=
  match t with
  | CLink target => if create_allowed fixed mode path target then [] else [path]
  | CDir cs =>
      (fix go (l : list (str * ctree)) : list str :=
         match l with
         | [] => []
         | (n, c) :: r => link_problems fixed mode (join_path path n) c ++ go r
         end) cs
  end.

(* ---------------------------------------------------------------- *)
(* The specification: POSIX lexical resolution                       *)

(* One component of a relative target, resolved from a directory that lies
   [d] levels below the root (d < 0: above it). Empty components (repeated or
   trailing slashes) and "." stay, ".." goes to the parent, a name descends.
   Stated assumption: the components walked are directories, not links. *)
Definition posix_step (d : Z) (c : str) : Z :=
  match classify c with
  | CEmpty | CDot => d
  | CDotDot => d - 1
  | CName => d + 1
  end.

Definition resolve_depth (d : Z) (cs : list str) : Z := fold_left posix_step cs d.

(* every point of the walk is at or below the root *)
Fixpoint inside_all (d : Z) (cs : list str) : bool :=
  match cs with
  | [] => true
  | c :: t => let d' := posix_step d c in (0 <=? d') && inside_all d' t
  end.

(* The same walk on locations: the current directory is a stack of names
   (innermost first) below some fixed top directory; ".." at the top stays. *)
Definition loc_step (st : list str) (c : str) : list str :=
  match classify c with
  | CEmpty | CDot => st
  | CDotDot => tl st
  | CName => c :: st
  end.

Definition resolve_loc (st : list str) (cs : list str) : list str := fold_left loc_step cs st.

(* the directory that contains the link: the components of the link's
   root-relative path without the last one *)
Definition link_dirs (path : str) : list str := removelast (split_on c_slash path).

(* [l] starts with [p] *)
Fixpoint has_prefix (p l : list str) : bool :=
  match p, l with
  | [], _ => true
  | x :: p', y :: l' => str_eqb x y && has_prefix p' l'
  | _ :: _, [] => false
  end.

(* the five syntactic classes the property says are rejected *)
Definition must_reject (target : str) : bool :=
  match target with
  | [] => true
  | c0 :: _ =>
      Nat.ltb max_target_length (List.length target)
      || contains c_colon target || contains c_bslash target
      || Byte.eqb c0 c_slash
  end.

(* check_C16: applied to what the implementation returned for (path, target).
   Accepted => not in a rejection class, and the target that is synchronized
   never leaves the root at any point of its lexical walk. *)
Definition check_C16 (path target : str) (out : sl_err + str) : bool :=
  match out with
  | inr t' => negb (must_reject target)
              && inside_all (path_depth path) (split_on c_slash t')
  | inl _ => true
  end.

(* the kernel's answer (where the link resolves, as names below the sandbox
   directory), for links the implementation accepted: inside the root *)
Definition check_C16_kernel (base : list str) (out : sl_err + str)
           (kernel : option (list str)) : bool :=
  match out, kernel with
  | inr _, Some loc => has_prefix base loc
  | _, _ => true
  end.

(* a root-relative link path: non-empty, every component a name *)
Definition is_name (c : str) : bool :=
  match classify c with CName => negb (contains c_slash c) | _ => false end.

Definition wf_path (path : str) : bool := forallb is_name (split_on c_slash path).
