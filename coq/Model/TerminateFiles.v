(* C29, terminate under file-system faults: model of the removal step of
   pkg/synchronization/controller.go:halt (mode terminate), which the controller
   machine of Model/Controller.v abstracts (there the data directory is
   assumed writable and both removals succeed), and of the decision of
   NewManager to load a session (a session file is present). Definitions
   only.

     c.disabled = true
     sessionRemoveErr := os.Remove(c.sessionPath)
     archiveRemoveErr := os.Remove(c.archivePath)
     if sessionRemoveErr != nil { return ... } else if archiveRemoveErr != nil { return ... }

   Both removals are attempted whatever the other one does; only the reported
   error depends on both. *)
From Coq Require Import List Bool Arith.
Import ListNotations.

(* what is at the archive path when Terminate is called *)
Inductive arch_state := ArchFile | ArchMissing | ArchDirectory (* a directory that is not empty *).

(* os.Remove succeeds on a regular file only (a missing path and a directory
   that is not empty give an error) *)
Definition arch_removable (a : arch_state) : bool :=
  match a with ArchFile => true | _ => false end.

Record term_out := {
  to_nil : bool;           (* Terminate returned nil                          *)
  to_session : bool;       (* a session file exists afterwards                *)
  to_archive : bool;       (* something exists at the archive path afterwards *)
  to_loaded : bool         (* a new manager (after Shutdown) loads the session *)
}.

(* sess: the session file exists when Terminate is called *)
Definition term_model (a : arch_state) (sess : bool) : term_out :=
  {| to_nil := sess && arch_removable a;
     to_session := false;
     to_archive := match a with ArchDirectory => true | _ => false end;
     to_loaded := false |}.

(* the property: whatever Terminate reports, the session's persisted record is
   gone and the session never runs again *)
Definition check_term (o : term_out) : bool := negb (to_session o) && negb (to_loaded o).

Definition term_out_eqb (x y : term_out) : bool :=
  Bool.eqb (to_nil x) (to_nil y) && Bool.eqb (to_session x) (to_session y)
  && Bool.eqb (to_archive x) (to_archive y) && Bool.eqb (to_loaded x) (to_loaded y).
